#!/usr/bin/env python3
"""Replaces the two generated tables of DESIGN.md in place: section 0 (gen_design_table.py) and section 7 (seeded/report.py)."""
import subprocess, os, re
here = os.path.dirname(os.path.abspath(__file__))
p = os.path.join(here, "DESIGN.md")
lines = open(p).read().split("\n")
def replace(header_prefix, new):
    i = next(k for k, l in enumerate(lines) if l.startswith(header_prefix))
    j = i
    while j < len(lines) and lines[j].startswith("|"):
        j += 1
    lines[i:j] = new.rstrip("\n").split("\n")
replace("| id | engine |", subprocess.check_output(["python3", os.path.join(here, "gen_design_table.py")], text=True))
replace("| seed | what was changed |", subprocess.check_output(["python3", os.path.join(here, "seeded", "report.py")], text=True))
open(p, "w").write("\n".join(lines))
