//! Common run machinery: panic capture, per-thread contexts, the block
//! scheduler with hang watchdog, known findings, replay artefacts, evidence.

use crate::model::Fnv;
use serde_json::{json, Map, Value};
use std::cell::RefCell;
use std::collections::{BTreeMap, HashSet};
use std::panic::{self, AssertUnwindSafe};
use std::sync::atomic::{AtomicBool, AtomicU64, AtomicUsize, Ordering};
use std::sync::{Arc, Mutex};
use std::time::{Duration, Instant};

#[derive(Clone, Copy, PartialEq, Eq, Debug)]
pub enum Tier {
    Quick,
    Thorough,
}
impl Tier {
    pub fn name(self) -> &'static str {
        match self {
            Tier::Quick => "quick",
            Tier::Thorough => "thorough",
        }
    }
    pub fn pick<T>(self, q: T, t: T) -> T {
        match self {
            Tier::Quick => q,
            Tier::Thorough => t,
        }
    }
}

// ---------------------------------------------------------------------
// panic capture

#[derive(Clone, Debug)]
pub struct PanicInfo {
    pub file: String,
    pub line: u32,
    pub msg: String,
}
impl PanicInfo {
    /// message with digits collapsed, so that "index 7 out of range for
    /// slice of length 3" and "... 9 ... 4" are the same class
    pub fn class(&self) -> String {
        let mut out = String::new();
        let mut last_digit = false;
        for c in self.msg.chars() {
            if c.is_ascii_digit() {
                if !last_digit {
                    out.push('N');
                }
                last_digit = true;
            } else {
                last_digit = false;
                out.push(c);
            }
        }
        out.truncate(90);
        out
    }
    /// file relative to the repository / registry, without line
    pub fn site(&self) -> String {
        let f = self.file.as_str();
        let f = f.strip_prefix("/repo/").unwrap_or(f);
        let f = match f.find("/registry/src/") {
            Some(i) => {
                let rest = &f[i + 14..];
                rest.splitn(2, '/').nth(1).unwrap_or(rest)
            }
            None => f,
        };
        f.to_string()
    }
    pub fn sig(&self) -> String {
        format!("panic@{}:{}", self.site(), self.class())
    }
}

thread_local! {
    static LAST_PANIC: RefCell<Option<PanicInfo>> = RefCell::new(None);
    static CATCH_DEPTH: std::cell::Cell<u32> = std::cell::Cell::new(0);
}

pub fn install_panic_hook() {
    panic::set_hook(Box::new(|info| {
        let (file, line) = info
            .location()
            .map(|l| (l.file().to_string(), l.line()))
            .unwrap_or(("?".into(), 0));
        let msg = if let Some(s) = info.payload().downcast_ref::<&str>() {
            s.to_string()
        } else if let Some(s) = info.payload().downcast_ref::<String>() {
            s.clone()
        } else {
            "<non-string panic>".to_string()
        };
        if CATCH_DEPTH.with(|d| d.get()) == 0 {
            // not inside a guarded library call: this is the harness itself
            eprintln!("vcheck: harness panic at {}:{}: {}", file, line, msg);
        }
        LAST_PANIC.with(|p| *p.borrow_mut() = Some(PanicInfo { file, line, msg }));
    }));
}

/// Run `f`; a panic becomes Err with its site and message.
pub fn catch<T>(f: impl FnOnce() -> T) -> Result<T, PanicInfo> {
    LAST_PANIC.with(|p| *p.borrow_mut() = None);
    CATCH_DEPTH.with(|d| d.set(d.get() + 1));
    let r = panic::catch_unwind(AssertUnwindSafe(f));
    CATCH_DEPTH.with(|d| d.set(d.get() - 1));
    match r {
        Ok(v) => Ok(v),
        Err(_) => Err(LAST_PANIC.with(|p| p.borrow_mut().take()).unwrap_or(PanicInfo {
            file: "?".into(),
            line: 0,
            msg: "?".into(),
        })),
    }
}

// ---------------------------------------------------------------------
// findings

#[derive(Clone, Debug)]
pub struct Finding {
    pub sig: String,
    pub case: Value,
    pub detail: String,
    pub count: u64,
}

/// Append-only store of 64-bit hashes in 1 Mi-entry chunks (no giant reallocation).
#[derive(Default)]
pub struct HashStore {
    chunks: Vec<Vec<u64>>,
}
impl HashStore {
    const CHUNK: usize = 1 << 20;
    pub fn push(&mut self, h: u64) {
        match self.chunks.last_mut() {
            Some(c) if c.len() < Self::CHUNK => c.push(h),
            _ => {
                let mut c = Vec::with_capacity(Self::CHUNK);
                c.push(h);
                self.chunks.push(c);
            }
        }
    }
    pub fn len(&self) -> u64 {
        self.chunks.iter().map(|c| c.len() as u64).sum()
    }
}

/// Exact number of distinct values over several stores: 256-way partition
/// by the top byte, each bucket sorted and deduplicated on its own.
pub fn count_distinct(stores: &[&HashStore]) -> u64 {
    let total: u64 = stores.iter().map(|s| s.len()).sum();
    if total == 0 {
        return 0;
    }
    let mut distinct = 0u64;
    let mut bucket: Vec<u64> = Vec::with_capacity((total / 200) as usize + 16);
    for b in 0..256u64 {
        bucket.clear();
        for s in stores {
            for c in &s.chunks {
                bucket.extend(c.iter().copied().filter(|h| h >> 56 == b));
            }
        }
        bucket.sort_unstable();
        bucket.dedup();
        distinct += bucket.len() as u64;
    }
    distinct
}

/// Per-thread context.
pub struct Ctx {
    pub evals: u64,
    pub lib_calls: u64,
    pub traces: u64,
    nontrivial: HashStore,
    all_hashes: HashStore,
    /// distinct / non-trivial counts established structurally by the check
    /// itself (cases that are distinct by construction), added to the hashed counts
    pub structural_distinct: u64,
    pub structural_nontrivial: u64,
    outcomes: HashSet<u64>,
    pub findings: BTreeMap<String, Finding>,
    pub samples: Vec<Value>,
    pub sample_cap: usize,
    pub extra: BTreeMap<String, u64>,
    pub track_hashes: bool,
}

impl Ctx {
    pub fn new() -> Ctx {
        Ctx {
            evals: 0,
            lib_calls: 0,
            traces: 0,
            nontrivial: HashStore::default(),
            all_hashes: HashStore::default(),
            structural_distinct: 0,
            structural_nontrivial: 0,
            outcomes: HashSet::new(),
            findings: BTreeMap::new(),
            samples: vec![],
            sample_cap: 2,
            extra: BTreeMap::new(),
            track_hashes: true,
        }
    }
    /// One case executed.  `hash` identifies the case, `nontrivial` says
    /// whether it meets the property's non-triviality rule, `outcome` is a
    /// hash of what was observed.
    pub fn case_done(&mut self, hash: u64, nontrivial: bool, outcome: u64) {
        self.evals += 1;
        if self.track_hashes {
            self.all_hashes.push(hash);
            if nontrivial {
                self.nontrivial.push(hash);
            }
        }
        if self.outcomes.len() < 1_000_000 {
            self.outcomes.insert(outcome);
        }
    }
    pub fn bump(&mut self, key: &str, n: u64) {
        *self.extra.entry(key.to_string()).or_insert(0) += n;
    }
    pub fn sample(&mut self, f: impl FnOnce() -> Value) {
        if self.samples.len() < self.sample_cap {
            self.samples.push(f());
        }
    }
    pub fn violation(&mut self, sig: impl Into<String>, case: impl FnOnce() -> Value, detail: impl FnOnce() -> String) {
        let sig = sig.into();
        if let Some(f) = self.findings.get_mut(&sig) {
            f.count += 1;
        } else {
            self.findings.insert(
                sig.clone(),
                Finding {
                    sig,
                    case: case(),
                    detail: detail(),
                    count: 1,
                },
            );
        }
    }
}

/// Aggregated result of a run.
pub struct Agg {
    pub evals: u64,
    pub lib_calls: u64,
    pub traces: u64,
    pub distinct_cases: u64,
    pub distinct_nontrivial: u64,
    pub distinct_outcomes: u64,
    pub findings: BTreeMap<String, Finding>,
    pub samples: Vec<Value>,
    pub extra: BTreeMap<String, u64>,
    pub hang: Option<String>,
}

pub fn merge(ctxs: Vec<Ctx>) -> Agg {
    let mut a = Agg {
        evals: 0,
        lib_calls: 0,
        traces: 0,
        distinct_cases: 0,
        distinct_nontrivial: 0,
        distinct_outcomes: 0,
        findings: BTreeMap::new(),
        samples: vec![],
        extra: BTreeMap::new(),
        hang: None,
    };
    let mut out: HashSet<u64> = HashSet::new();
    let mut nts: Vec<HashStore> = vec![];
    let mut alls: Vec<HashStore> = vec![];
    let (mut sd, mut sn) = (0u64, 0u64);
    for c in ctxs {
        a.evals += c.evals;
        a.lib_calls += c.lib_calls;
        a.traces += c.traces;
        sd += c.structural_distinct;
        sn += c.structural_nontrivial;
        nts.push(c.nontrivial);
        alls.push(c.all_hashes);
        out.extend(c.outcomes);
        for (k, f) in c.findings {
            match a.findings.get_mut(&k) {
                Some(e) => e.count += f.count,
                None => {
                    a.findings.insert(k, f);
                }
            }
        }
        for s in c.samples {
            if a.samples.len() < 5 {
                a.samples.push(s);
            }
        }
        for (k, v) in c.extra {
            *a.extra.entry(k).or_insert(0) += v;
        }
    }
    a.distinct_nontrivial = count_distinct(&nts.iter().collect::<Vec<_>>()) + sn;
    a.distinct_cases = count_distinct(&alls.iter().collect::<Vec<_>>()) + sd;
    a.distinct_outcomes = out.len() as u64;
    a
}

impl Agg {
    /// adds the counts and findings of a further (disjoint) family of cases
    pub fn absorb(&mut self, e: Agg) {
        self.evals += e.evals;
        self.lib_calls += e.lib_calls;
        self.traces += e.traces;
        self.distinct_cases += e.distinct_cases;
        self.distinct_nontrivial += e.distinct_nontrivial;
        self.distinct_outcomes += e.distinct_outcomes;
        for (k, f) in e.findings {
            match self.findings.get_mut(&k) {
                Some(x) => x.count += f.count,
                None => {
                    self.findings.insert(k, f);
                }
            }
        }
        for s in e.samples {
            if self.samples.len() < 5 {
                self.samples.push(s);
            }
        }
        for (k, v) in e.extra {
            *self.extra.entry(k).or_insert(0) += v;
        }
        if self.hang.is_none() {
            self.hang = e.hang;
        }
    }
}

pub fn nthreads() -> usize {
    std::env::var("VERIF_THREADS")
        .ok()
        .and_then(|s| s.parse().ok())
        .unwrap_or_else(|| std::thread::available_parallelism().map(|n| n.get()).unwrap_or(4))
        .max(1)
}

/// Per-case hang limit in seconds.
pub const HANG_SECS: u64 = 20;

/// Run `nblocks` blocks on all cores.  `body(block, ctx, tick)` must call
/// `tick()` once per case so that the watchdog sees progress.  If some
/// thread shows no progress for HANG_SECS the run is abandoned and
/// `Agg.hang` names the block.
pub fn par_blocks<F>(nblocks: usize, deadline: Option<Instant>, body: F) -> (Agg, bool)
where
    F: Fn(usize, &mut Ctx, &dyn Fn()) + Sync,
{
    let next = AtomicUsize::new(0);
    let n = nthreads().min(nblocks.max(1));
    let progress: Vec<AtomicU64> = (0..n).map(|_| AtomicU64::new(0)).collect();
    let current: Vec<AtomicUsize> = (0..n).map(|_| AtomicUsize::new(usize::MAX)).collect();
    let done: Vec<AtomicBool> = (0..n).map(|_| AtomicBool::new(false)).collect();
    let results: Mutex<Vec<Ctx>> = Mutex::new(vec![]);
    let capped = AtomicBool::new(false);
    let hang: Mutex<Option<String>> = Mutex::new(None);
    std::thread::scope(|s| {
        for t in 0..n {
            let (next, progress, current, done, results, body, capped) =
                (&next, &progress, &current, &done, &results, &body, &capped);
            std::thread::Builder::new()
                .stack_size(64 << 20)
                .spawn_scoped(s, move || {
                    let mut ctx = Ctx::new();
                    loop {
                        if let Some(d) = deadline {
                            if Instant::now() > d {
                                capped.store(true, Ordering::SeqCst);
                                break;
                            }
                        }
                        let b = next.fetch_add(1, Ordering::SeqCst);
                        if b >= nblocks {
                            break;
                        }
                        current[t].store(b, Ordering::SeqCst);
                        let tick = || {
                            progress[t].fetch_add(1, Ordering::Relaxed);
                        };
                        body(b, &mut ctx, &tick);
                        progress[t].fetch_add(1, Ordering::Relaxed);
                    }
                    done[t].store(true, Ordering::SeqCst);
                    results.lock().unwrap().push(ctx);
                })
                .unwrap();
        }
        // watchdog (runs on the scope's own thread)
        let mut last: Vec<(u64, Instant)> = (0..n).map(|_| (0, Instant::now())).collect();
        loop {
            std::thread::sleep(Duration::from_millis(50));
            if done.iter().all(|d| d.load(Ordering::SeqCst)) {
                break;
            }
            for t in 0..n {
                if done[t].load(Ordering::SeqCst) {
                    continue;
                }
                let p = progress[t].load(Ordering::Relaxed);
                if p != last[t].0 {
                    last[t] = (p, Instant::now());
                } else if last[t].1.elapsed() > Duration::from_secs(HANG_SECS) {
                    let b = current[t].load(Ordering::SeqCst);
                    *hang.lock().unwrap() = Some(format!("block {} after {} ticks", b, p));
                    // cannot cancel the thread: report and leave the process
                    eprintln!(
                        "vcheck: watchdog: no progress for {}s in block {} (tick {})",
                        HANG_SECS, b, p
                    );
                    println!("HANG block={} tick={}", b, p);
                    std::process::exit(3);
                }
            }
        }
    });
    let mut agg = merge(results.into_inner().unwrap());
    agg.hang = hang.into_inner().unwrap();
    (agg, capped.load(Ordering::SeqCst))
}

// ---------------------------------------------------------------------
// known findings, replays, evidence

pub struct Known {
    pub findings: Vec<(String, String, String)>, // property, signature, what
}

pub fn verif_dir() -> std::path::PathBuf {
    std::env::var("VERIF_DIR")
        .map(std::path::PathBuf::from)
        .unwrap_or_else(|_| std::path::PathBuf::from("/verif"))
}

pub fn load_known() -> Known {
    let p = verif_dir().join("known_findings.json");
    let mut k = Known { findings: vec![] };
    if let Ok(s) = std::fs::read_to_string(&p) {
        if let Ok(v) = serde_json::from_str::<Value>(&s) {
            if let Some(a) = v.get("findings").and_then(|x| x.as_array()) {
                for f in a {
                    k.findings.push((
                        f.get("property").and_then(|x| x.as_str()).unwrap_or("").to_string(),
                        f.get("signature").and_then(|x| x.as_str()).unwrap_or("").to_string(),
                        f.get("what").and_then(|x| x.as_str()).unwrap_or("").to_string(),
                    ));
                }
            }
        }
    }
    k
}

impl Known {
    pub fn matches(&self, prop: &str, sig: &str) -> Option<&str> {
        for (p, s, w) in &self.findings {
            if p != prop {
                continue;
            }
            let hit = if let Some(pre) = s.strip_suffix('*') {
                sig.starts_with(pre)
            } else {
                s == sig
            };
            if hit {
                return Some(w);
            }
        }
        None
    }
}

pub struct RunInfo<'a> {
    pub prop: &'a str,
    pub tier: Tier,
    pub level: &'a str,
    pub engine: &'a str,
    pub rule: &'a str,
    pub bounds: Value,
    pub exhaustive: bool,
    pub assumptions: Vec<String>,
    pub started: Instant,
    /// states / transitions for model_checking-level evidence
    pub states: u64,
    pub transitions: u64,
    pub selftest: (u64, u64),
    pub extra: Map<String, Value>,
}

fn seed() -> i64 {
    std::env::var("VERIF_SEED").ok().and_then(|s| s.parse().ok()).unwrap_or(0)
}

/// Print verdict lines, write replay artefacts and the evidence file.
/// Returns the process exit code.
pub fn finish(info: RunInfo, agg: Agg, capped: bool) -> i32 {
    let known = load_known();
    let dir = verif_dir();
    let _ = std::fs::create_dir_all(dir.join("evidence"));
    let _ = std::fs::create_dir_all(dir.join("replays"));
    if let Ok(rd) = std::fs::read_dir(dir.join("replays")) {
        for e in rd.flatten() {
            if e.file_name().to_string_lossy().starts_with(&format!("{}-", info.prop)) {
                let _ = std::fs::remove_file(e.path());
            }
        }
    }
    let mut new_violations = 0;
    let mut known_hit: Vec<Value> = vec![];
    let mut viol_json: Vec<Value> = vec![];
    let mut known_lines: BTreeMap<String, (u64, Vec<String>)> = BTreeMap::new();
    for (sig, f) in &agg.findings {
        if let Some(what) = known.matches(info.prop, sig) {
            let e = known_lines.entry(what.to_string()).or_insert((0, vec![]));
            e.0 += f.count;
            e.1.push(sig.clone());
            known_hit.push(json!({"signature": sig, "cases": f.count}));
            continue;
        }
        new_violations += 1;
        if new_violations > 6 {
            // enough artefacts: further signatures are counted, not written
            viol_json.push(json!({"signature": sig, "cases": f.count}));
            continue;
        }
        let mut h = Fnv::new();
        h.str(sig);
        let name = format!("{}-{:016x}.json", info.prop, h.finish());
        let path = dir.join("replays").join(&name);
        let doc = json!({
            "property": info.prop,
            "tier": info.tier.name(),
            "engine": info.engine,
            "signature": sig,
            "detail": f.detail,
            "cases_with_this_signature": f.count,
            "case": f.case,
        });
        let _ = std::fs::write(&path, serde_json::to_string_pretty(&doc).unwrap());
        println!("VIOLATION property={} replay={}", info.prop, path.display());
        println!("  signature: {}", sig);
        println!("  detail: {}", f.detail.lines().next().unwrap_or(""));
        viol_json.push(json!({"signature": sig, "cases": f.count, "replay": path.display().to_string()}));
    }
    for (what, (count, sigs)) in &known_lines {
        println!("KNOWN-FINDING: property={} {} [{} cases; signatures: {}]", info.prop, what, count, sigs.join(", "));
    }
    if new_violations > 6 {
        println!("  ... and {} more violation signatures (listed in the evidence file)", new_violations - 6);
    }
    let selftest_ok = info.selftest.0 == info.selftest.1;
    let wall = info.started.elapsed().as_secs_f64();
    let mut cov = Map::new();
    cov.insert("evaluations".into(), json!(agg.evals));
    cov.insert("distinct_nontrivial".into(), json!(agg.distinct_nontrivial));
    cov.insert("distinct_cases".into(), json!(agg.distinct_cases));
    cov.insert("distinct_outcomes".into(), json!(agg.distinct_outcomes));
    cov.insert("rule".into(), json!(info.rule));
    cov.insert("samples".into(), Value::Array(agg.samples.clone()));
    cov.insert("states".into(), json!(if info.states > 0 { info.states } else { agg.distinct_cases }));
    cov.insert(
        "transitions".into(),
        json!(if info.transitions > 0 { info.transitions } else { agg.lib_calls }),
    );
    cov.insert("traces_validated_against_impl".into(), json!(if agg.traces > 0 { agg.traces } else { agg.evals }));
    cov.insert("library_calls".into(), json!(agg.lib_calls));
    cov.insert("bounds".into(), info.bounds.clone());
    cov.insert("exhaustive".into(), json!(info.exhaustive && !capped));
    cov.insert("capped_by_wall_clock".into(), json!(capped));
    cov.insert("engine".into(), json!(info.engine));
    cov.insert("selftest_injected".into(), json!(info.selftest.0));
    cov.insert("selftest_detected".into(), json!(info.selftest.1));
    cov.insert("known_findings_hit".into(), Value::Array(known_hit));
    cov.insert("new_violations".into(), Value::Array(viol_json));
    cov.insert("threads".into(), json!(nthreads()));
    for (k, v) in &agg.extra {
        cov.insert(k.clone(), json!(v));
    }
    for (k, v) in info.extra {
        cov.insert(k, v);
    }
    let ev = json!({
        "property_id": info.prop,
        "tier": info.tier.name(),
        "seed": seed(),
        "level": info.level,
        "coverage": Value::Object(cov),
        "assumptions": info.assumptions,
        "wall_s": wall,
        "violations": new_violations,
    });
    let evp = dir.join("evidence").join(format!("{}.json", info.prop));
    if let Err(e) = std::fs::write(&evp, serde_json::to_string_pretty(&ev).unwrap()) {
        eprintln!("vcheck: cannot write {}: {}", evp.display(), e);
        return 2;
    }
    println!(
        "{} {}: evaluations={} distinct={} nontrivial={} outcomes={} lib_calls={} violations={} wall={:.1}s{}",
        info.prop,
        info.tier.name(),
        agg.evals,
        agg.distinct_cases,
        agg.distinct_nontrivial,
        agg.distinct_outcomes,
        agg.lib_calls,
        new_violations,
        wall,
        if capped { " (CAPPED: not exhaustive)" } else { "" }
    );
    if new_violations > 0 {
        // a verdict on the tree takes precedence: the oracle self-test needs a
        // clean base observation and cannot be evaluated on a violating tree
        return 1;
    }
    if !selftest_ok {
        eprintln!(
            "vcheck: oracle self-test failed: injected {} detected {}",
            info.selftest.0, info.selftest.1
        );
        return 2;
    }
    if new_violations > 0 {
        1
    } else if agg.evals == 0 {
        eprintln!("vcheck: nothing was explored");
        2
    } else {
        0
    }
}

pub fn shared_counter() -> Arc<AtomicU64> {
    Arc::new(AtomicU64::new(0))
}
