//! Library-independent model of shapes and files.  Nothing in this file (or in
//! `refmodel/`) may name the `shapefile` or `byteorder` crates: `./check`
//! greps for it.  Coordinates are kept as `f64` and compared through
//! `to_bits()`.

use serde_json::{json, Value};

/// The 13 geometry types plus the null shape, with their ESRI codes written
/// out as a literal table (this is RefTypeTable of DESIGN §2.3).
#[derive(Clone, Copy, PartialEq, Eq, Hash, Debug, PartialOrd, Ord)]
pub enum Ty {
    Null = 0,
    Point = 1,
    Polyline = 3,
    Polygon = 5,
    Multipoint = 8,
    PointZ = 11,
    PolylineZ = 13,
    PolygonZ = 15,
    MultipointZ = 18,
    PointM = 21,
    PolylineM = 23,
    PolygonM = 25,
    MultipointM = 28,
    Multipatch = 31,
}

pub const ALL13: [Ty; 13] = [
    Ty::Point,
    Ty::Polyline,
    Ty::Polygon,
    Ty::Multipoint,
    Ty::PointZ,
    Ty::PolylineZ,
    Ty::PolygonZ,
    Ty::MultipointZ,
    Ty::PointM,
    Ty::PolylineM,
    Ty::PolygonM,
    Ty::MultipointM,
    Ty::Multipatch,
];

pub const ALL14: [Ty; 14] = [
    Ty::Null,
    Ty::Point,
    Ty::Polyline,
    Ty::Polygon,
    Ty::Multipoint,
    Ty::PointZ,
    Ty::PolylineZ,
    Ty::PolygonZ,
    Ty::MultipointZ,
    Ty::PointM,
    Ty::PolylineM,
    Ty::PolygonM,
    Ty::MultipointM,
    Ty::Multipatch,
];

#[derive(Clone, Copy, PartialEq, Eq, Debug)]
pub enum Family {
    Null,
    Point,
    Multipoint,
    Polyline,
    Polygon,
    Multipatch,
}

impl Ty {
    pub fn code(self) -> i32 {
        self as i32
    }
    pub fn from_code(c: i32) -> Option<Ty> {
        ALL14.iter().copied().find(|t| t.code() == c)
    }
    /// ESRI table: Z is carried by the four Z types and MultiPatch.
    pub fn has_z(self) -> bool {
        matches!(
            self,
            Ty::PointZ | Ty::PolylineZ | Ty::PolygonZ | Ty::MultipointZ | Ty::Multipatch
        )
    }
    /// ESRI table as the library documents it: M for the four M and four Z types.
    pub fn has_m_table(self) -> bool {
        matches!(
            self,
            Ty::PointZ
                | Ty::PolylineZ
                | Ty::PolygonZ
                | Ty::MultipointZ
                | Ty::PointM
                | Ty::PolylineM
                | Ty::PolygonM
                | Ty::MultipointM
        )
    }
    /// Whether vertices of this type physically carry a measure (MultiPatch does).
    pub fn carries_m(self) -> bool {
        self.has_m_table() || self == Ty::Multipatch
    }
    pub fn family(self) -> Family {
        match self {
            Ty::Null => Family::Null,
            Ty::Point | Ty::PointM | Ty::PointZ => Family::Point,
            Ty::Multipoint | Ty::MultipointM | Ty::MultipointZ => Family::Multipoint,
            Ty::Polyline | Ty::PolylineM | Ty::PolylineZ => Family::Polyline,
            Ty::Polygon | Ty::PolygonM | Ty::PolygonZ => Family::Polygon,
            Ty::Multipatch => Family::Multipatch,
        }
    }
    pub fn is_multipart(self) -> bool {
        matches!(
            self.family(),
            Family::Polyline | Family::Polygon | Family::Multipatch
        )
    }
    pub fn name(self) -> &'static str {
        match self {
            Ty::Null => "NullShape",
            Ty::Point => "Point",
            Ty::Polyline => "Polyline",
            Ty::Polygon => "Polygon",
            Ty::Multipoint => "Multipoint",
            Ty::PointZ => "PointZ",
            Ty::PolylineZ => "PolylineZ",
            Ty::PolygonZ => "PolygonZ",
            Ty::MultipointZ => "MultipointZ",
            Ty::PointM => "PointM",
            Ty::PolylineM => "PolylineM",
            Ty::PolygonM => "PolygonM",
            Ty::MultipointM => "MultipointM",
            Ty::Multipatch => "Multipatch",
        }
    }
    pub fn from_name(n: &str) -> Option<Ty> {
        ALL14.iter().copied().find(|t| t.name() == n)
    }
    /// number of meaningful dimensions per vertex: x,y,(z),(m)
    pub fn dims(self) -> [bool; 4] {
        [true, true, self.has_z(), self.carries_m()]
    }
}

/// x, y, z, m
pub type P4 = [f64; 4];

pub const NO_DATA: f64 = -10e38;

/// Part kinds.  Polygon families: 0 = outer, 1 = inner.  MultiPatch: the ESRI
/// patch codes 0..=5 (strip, fan, outer, inner, first, ring).  Other: 0.
#[derive(Clone, Debug)]
pub struct MPart {
    pub kind: u8,
    pub pts: Vec<P4>,
}

#[derive(Clone, Debug)]
pub struct MShape {
    pub ty: Ty,
    pub parts: Vec<MPart>,
}

/// What a reader (the library's or the reference decoder) reports for one record.
#[derive(Clone, Debug)]
pub struct MRead {
    pub shape: MShape,
    /// xmin ymin xmax ymax zmin zmax mmin mmax; entries of dimensions the
    /// type lacks are 0.0 and not compared.  None for point types / null.
    pub bbox: Option<[f64; 8]>,
}

impl MShape {
    pub fn null() -> MShape {
        MShape {
            ty: Ty::Null,
            parts: vec![],
        }
    }
    pub fn point(ty: Ty, p: P4) -> MShape {
        MShape {
            ty,
            parts: vec![MPart {
                kind: 0,
                pts: vec![p],
            }],
        }
    }
    pub fn n_points(&self) -> usize {
        self.parts.iter().map(|p| p.pts.len()).sum()
    }
    pub fn to_json(&self) -> Value {
        json!({
            "ty": self.ty.name(),
            "parts": self.parts.iter().map(|p| json!({
                "kind": p.kind,
                "pts": p.pts.iter().map(|v| v.iter().map(|c| fjson(*c)).collect::<Vec<_>>()).collect::<Vec<_>>()
            })).collect::<Vec<_>>()
        })
    }
    pub fn from_json(v: &Value) -> Option<MShape> {
        let ty = Ty::from_name(v.get("ty")?.as_str()?)?;
        let mut parts = vec![];
        for p in v.get("parts")?.as_array()? {
            let kind = p.get("kind")?.as_u64()? as u8;
            let mut pts = vec![];
            for q in p.get("pts")?.as_array()? {
                let a = q.as_array()?;
                let mut c = [0.0f64; 4];
                for i in 0..4 {
                    c[i] = fparse(a.get(i)?)?;
                }
                pts.push(c);
            }
            parts.push(MPart { kind, pts });
        }
        Some(MShape { ty, parts })
    }
    /// Hash of the complete value (bit patterns).
    pub fn hash_into(&self, h: &mut Fnv) {
        h.u64(self.ty.code() as u64);
        h.u64(self.parts.len() as u64);
        for p in &self.parts {
            h.u64(p.kind as u64);
            h.u64(p.pts.len() as u64);
            for v in &p.pts {
                for c in v {
                    h.u64(c.to_bits());
                }
            }
        }
    }
}

/// floats as JSON: hex bit patterns, exact and NaN-safe.
pub fn fjson(x: f64) -> Value {
    Value::String(format!("{:#018x}", x.to_bits()))
}
pub fn fparse(v: &Value) -> Option<f64> {
    let s = v.as_str()?;
    let s = s.strip_prefix("0x")?;
    Some(f64::from_bits(u64::from_str_radix(s, 16).ok()?))
}
/// human readable float for messages
pub fn fshow(x: f64) -> String {
    format!("{:?}[{:#x}]", x, x.to_bits())
}

/// FNV-1a, used for case / outcome hashes (deterministic, no RandomState).
#[derive(Clone, Copy)]
pub struct Fnv(pub u64);
impl Default for Fnv {
    fn default() -> Self {
        Fnv(0xcbf29ce484222325)
    }
}
impl Fnv {
    pub fn new() -> Fnv {
        Fnv::default()
    }
    pub fn byte(&mut self, b: u8) {
        self.0 ^= b as u64;
        self.0 = self.0.wrapping_mul(0x100000001b3);
    }
    pub fn bytes(&mut self, b: &[u8]) {
        for x in b {
            self.byte(*x);
        }
    }
    pub fn u64(&mut self, v: u64) {
        self.bytes(&v.to_le_bytes());
    }
    pub fn str(&mut self, s: &str) {
        self.bytes(s.as_bytes());
        self.byte(0xff);
    }
    pub fn finish(&self) -> u64 {
        // final avalanche so that truncated uses are still well mixed
        let mut x = self.0;
        x ^= x >> 33;
        x = x.wrapping_mul(0xff51afd7ed558ccd);
        x ^= x >> 33;
        x
    }
}

// ---------------------------------------------------------------------
// value alphabets (DESIGN §2.5)

pub fn next_up(x: f64) -> f64 {
    // for finite non-zero x
    let b = x.to_bits();
    if x > 0.0 {
        f64::from_bits(b + 1)
    } else {
        f64::from_bits(b - 1)
    }
}
pub fn next_down(x: f64) -> f64 {
    let b = x.to_bits();
    if x > 0.0 {
        f64::from_bits(b - 1)
    } else {
        f64::from_bits(b + 1)
    }
}

/// X / Y alphabet: never NaN.
pub fn f_xy() -> Vec<f64> {
    vec![
        0.0,
        -0.0,
        1.0,
        -2.5,
        0.1,
        5e-324,
        -5e-324,
        f64::MIN_POSITIVE,
        f64::MAX,
        -f64::MAX,
        next_down(f64::MAX),
        next_up(-f64::MAX),
        f64::INFINITY,
        f64::NEG_INFINITY,
        NO_DATA,
        // ordinary but awkward finite values: 2^53 (integers stop being exact),
        // a negative integer of large magnitude, a value with a full mantissa
        9007199254740992.0,
        -4503599627370497.0,
        123456.78901234567,
    ]
}
pub fn nans() -> Vec<f64> {
    vec![
        f64::NAN,
        f64::from_bits(0x7ff8_0000_dead_beef),
        f64::from_bits(0xfff8_0000_0000_0001),
        f64::from_bits(0x7ff0_0000_0000_0001), // signalling
    ]
}
pub fn f_z() -> Vec<f64> {
    let mut v = f_xy();
    v.extend(nans());
    v
}
pub fn f_m() -> Vec<f64> {
    let mut v = f_z();
    v.extend([next_up(NO_DATA), next_down(NO_DATA), -1e38]);
    v
}
pub fn alphabet_for_dim(d: usize) -> Vec<f64> {
    match d {
        0 | 1 => f_xy(),
        2 => f_z(),
        _ => f_m(),
    }
}

/// The measure a reader must report for a stored measure `m` in a
/// multi-vertex shape (C01 / C03 normalisation).
pub fn norm_m(m: f64) -> f64 {
    if m.is_nan() || m <= NO_DATA {
        NO_DATA
    } else {
        m
    }
}
pub fn is_nodata(m: f64) -> bool {
    m.is_nan() || m <= NO_DATA
}

// ---------------------------------------------------------------------
// boring default coordinates: pairwise distinct dyadic values

/// k-th default vertex: all four coordinates distinct from every coordinate
/// of every other default vertex (dyadic, exactly representable).
pub fn dflt(k: usize) -> P4 {
    let k = k as f64;
    [
        10.0 + k * 0.5,
        -20.0 - k * 0.25,
        100.0 + k * 2.0,
        1000.0 + k * 0.125,
    ]
}

/// Exact signed shoelace sum (clockwise positive, as the ESRI convention
/// has it) on lattice coordinates; None if a coordinate is not an integer
/// of small magnitude.
pub fn exact_shoelace(pts: &[P4]) -> Option<i128> {
    let mut s: i128 = 0;
    let li = |v: f64| -> Option<i128> {
        if v.is_finite() && v.fract() == 0.0 && v.abs() < 1e15 {
            Some(v as i128)
        } else {
            None
        }
    };
    for w in pts.windows(2) {
        let (x0, y0, x1, y1) = (li(w[0][0])?, li(w[0][1])?, li(w[1][0])?, li(w[1][1])?);
        s += (x1 - x0) * (y1 + y0);
    }
    Some(s)
}

pub fn p4_bits_eq(a: &P4, b: &P4, dims: [bool; 4]) -> bool {
    (0..4).all(|i| !dims[i] || a[i].to_bits() == b[i].to_bits())
}
