//! Library-independent model of shapes and files.  Nothing in this file (or in
//! `refmodel/`) may name the `shapefile` or `byteorder` crates: `./check`
//! greps for it.  Coordinates are kept as `f64` and compared through
//! `to_bits()`.

use serde_json::{json, Value};

/// The 13 geometry types plus the null shape, with their ESRI codes written
/// out as a literal table (this is RefTypeTable of DESIGN §2.3).
#[derive(Clone, Copy, PartialEq, Eq, Hash, Debug, PartialOrd, Ord)]
pub enum Ty {
    Null = 0,
    Point = 1,
    Polyline = 3,
    Polygon = 5,
    Multipoint = 8,
    PointZ = 11,
    PolylineZ = 13,
    PolygonZ = 15,
    MultipointZ = 18,
    PointM = 21,
    PolylineM = 23,
    PolygonM = 25,
    MultipointM = 28,
    Multipatch = 31,
}

pub const ALL13: [Ty; 13] = [
    Ty::Point,
    Ty::Polyline,
    Ty::Polygon,
    Ty::Multipoint,
    Ty::PointZ,
    Ty::PolylineZ,
    Ty::PolygonZ,
    Ty::MultipointZ,
    Ty::PointM,
    Ty::PolylineM,
    Ty::PolygonM,
    Ty::MultipointM,
    Ty::Multipatch,
];

pub const ALL14: [Ty; 14] = [
    Ty::Null,
    Ty::Point,
    Ty::Polyline,
    Ty::Polygon,
    Ty::Multipoint,
    Ty::PointZ,
    Ty::PolylineZ,
    Ty::PolygonZ,
    Ty::MultipointZ,
    Ty::PointM,
    Ty::PolylineM,
    Ty::PolygonM,
    Ty::MultipointM,
    Ty::Multipatch,
];

#[derive(Clone, Copy, PartialEq, Eq, Debug)]
pub enum Family {
    Null,
    Point,
    Multipoint,
    Polyline,
    Polygon,
    Multipatch,
}

impl Ty {
    pub fn code(self) -> i32 {
        self as i32
    }
    pub fn from_code(c: i32) -> Option<Ty> {
        ALL14.iter().copied().find(|t| t.code() == c)
    }
    /// ESRI table: Z is carried by the four Z types and MultiPatch.
    pub fn has_z(self) -> bool {
        matches!(
            self,
            Ty::PointZ | Ty::PolylineZ | Ty::PolygonZ | Ty::MultipointZ | Ty::Multipatch
        )
    }
    /// ESRI table as the library documents it: M for the four M and four Z types.
    pub fn has_m_table(self) -> bool {
        matches!(
            self,
            Ty::PointZ
                | Ty::PolylineZ
                | Ty::PolygonZ
                | Ty::MultipointZ
                | Ty::PointM
                | Ty::PolylineM
                | Ty::PolygonM
                | Ty::MultipointM
        )
    }
    /// Whether vertices of this type physically carry a measure (MultiPatch does).
    pub fn carries_m(self) -> bool {
        self.has_m_table() || self == Ty::Multipatch
    }
    pub fn family(self) -> Family {
        match self {
            Ty::Null => Family::Null,
            Ty::Point | Ty::PointM | Ty::PointZ => Family::Point,
            Ty::Multipoint | Ty::MultipointM | Ty::MultipointZ => Family::Multipoint,
            Ty::Polyline | Ty::PolylineM | Ty::PolylineZ => Family::Polyline,
            Ty::Polygon | Ty::PolygonM | Ty::PolygonZ => Family::Polygon,
            Ty::Multipatch => Family::Multipatch,
        }
    }
    pub fn is_multipart(self) -> bool {
        matches!(
            self.family(),
            Family::Polyline | Family::Polygon | Family::Multipatch
        )
    }
    pub fn name(self) -> &'static str {
        match self {
            Ty::Null => "NullShape",
            Ty::Point => "Point",
            Ty::Polyline => "Polyline",
            Ty::Polygon => "Polygon",
            Ty::Multipoint => "Multipoint",
            Ty::PointZ => "PointZ",
            Ty::PolylineZ => "PolylineZ",
            Ty::PolygonZ => "PolygonZ",
            Ty::MultipointZ => "MultipointZ",
            Ty::PointM => "PointM",
            Ty::PolylineM => "PolylineM",
            Ty::PolygonM => "PolygonM",
            Ty::MultipointM => "MultipointM",
            Ty::Multipatch => "Multipatch",
        }
    }
    pub fn from_name(n: &str) -> Option<Ty> {
        ALL14.iter().copied().find(|t| t.name() == n)
    }
    /// number of meaningful dimensions per vertex: x,y,(z),(m)
    pub fn dims(self) -> [bool; 4] {
        [true, true, self.has_z(), self.carries_m()]
    }
}

/// x, y, z, m
pub type P4 = [f64; 4];

pub const NO_DATA: f64 = -10e38;

/// Part kinds.  Polygon families: 0 = outer, 1 = inner.  MultiPatch: the ESRI
/// patch codes 0..=5 (strip, fan, outer, inner, first, ring).  Other: 0.
#[derive(Clone, Debug)]
pub struct MPart {
    pub kind: u8,
    pub pts: Vec<P4>,
}

#[derive(Clone, Debug)]
pub struct MShape {
    pub ty: Ty,
    pub parts: Vec<MPart>,
}

/// What a reader (the library's or the reference decoder) reports for one record.
#[derive(Clone, Debug)]
pub struct MRead {
    pub shape: MShape,
    /// xmin ymin xmax ymax zmin zmax mmin mmax; entries of dimensions the
    /// type lacks are 0.0 and not compared.  None for point types / null.
    pub bbox: Option<[f64; 8]>,
}

impl MShape {
    pub fn null() -> MShape {
        MShape {
            ty: Ty::Null,
            parts: vec![],
        }
    }
    pub fn point(ty: Ty, p: P4) -> MShape {
        MShape {
            ty,
            parts: vec![MPart {
                kind: 0,
                pts: vec![p],
            }],
        }
    }
    pub fn n_points(&self) -> usize {
        self.parts.iter().map(|p| p.pts.len()).sum()
    }
    pub fn to_json(&self) -> Value {
        json!({
            "ty": self.ty.name(),
            "parts": self.parts.iter().map(|p| json!({
                "kind": p.kind,
                "pts": p.pts.iter().map(|v| v.iter().map(|c| fjson(*c)).collect::<Vec<_>>()).collect::<Vec<_>>()
            })).collect::<Vec<_>>()
        })
    }
    pub fn from_json(v: &Value) -> Option<MShape> {
        let ty = Ty::from_name(v.get("ty")?.as_str()?)?;
        let mut parts = vec![];
        for p in v.get("parts")?.as_array()? {
            let kind = p.get("kind")?.as_u64()? as u8;
            let mut pts = vec![];
            for q in p.get("pts")?.as_array()? {
                let a = q.as_array()?;
                let mut c = [0.0f64; 4];
                for i in 0..4 {
                    c[i] = fparse(a.get(i)?)?;
                }
                pts.push(c);
            }
            parts.push(MPart { kind, pts });
        }
        Some(MShape { ty, parts })
    }
    /// Hash of the complete value (bit patterns).
    pub fn hash_into(&self, h: &mut Fnv) {
        h.u64(self.ty.code() as u64);
        h.u64(self.parts.len() as u64);
        for p in &self.parts {
            h.u64(p.kind as u64);
            h.u64(p.pts.len() as u64);
            for v in &p.pts {
                for c in v {
                    h.u64(c.to_bits());
                }
            }
        }
    }
}

/// floats as JSON: hex bit patterns, exact and NaN-safe.
pub fn fjson(x: f64) -> Value {
    Value::String(format!("{:#018x}", x.to_bits()))
}
pub fn fparse(v: &Value) -> Option<f64> {
    let s = v.as_str()?;
    let s = s.strip_prefix("0x")?;
    Some(f64::from_bits(u64::from_str_radix(s, 16).ok()?))
}
/// human readable float for messages
pub fn fshow(x: f64) -> String {
    format!("{:?}[{:#x}]", x, x.to_bits())
}

/// FNV-1a, used for case / outcome hashes (deterministic, no RandomState).
#[derive(Clone, Copy)]
pub struct Fnv(pub u64);
impl Default for Fnv {
    fn default() -> Self {
        Fnv(0xcbf29ce484222325)
    }
}
impl Fnv {
    pub fn new() -> Fnv {
        Fnv::default()
    }
    pub fn byte(&mut self, b: u8) {
        self.0 ^= b as u64;
        self.0 = self.0.wrapping_mul(0x100000001b3);
    }
    pub fn bytes(&mut self, b: &[u8]) {
        for x in b {
            self.byte(*x);
        }
    }
    pub fn u64(&mut self, v: u64) {
        self.bytes(&v.to_le_bytes());
    }
    pub fn str(&mut self, s: &str) {
        self.bytes(s.as_bytes());
        self.byte(0xff);
    }
    pub fn finish(&self) -> u64 {
        // final avalanche so that truncated uses are still well mixed
        let mut x = self.0;
        x ^= x >> 33;
        x = x.wrapping_mul(0xff51afd7ed558ccd);
        x ^= x >> 33;
        x
    }
}

// ---------------------------------------------------------------------
// value alphabets (DESIGN §2.5)

pub fn next_up(x: f64) -> f64 {
    // for finite non-zero x
    let b = x.to_bits();
    if x > 0.0 {
        f64::from_bits(b + 1)
    } else {
        f64::from_bits(b - 1)
    }
}
pub fn next_down(x: f64) -> f64 {
    let b = x.to_bits();
    if x > 0.0 {
        f64::from_bits(b - 1)
    } else {
        f64::from_bits(b + 1)
    }
}

/// X / Y alphabet: never NaN.
pub fn f_xy() -> Vec<f64> {
    vec![
        0.0,
        -0.0,
        1.0,
        -2.5,
        0.1,
        5e-324,
        -5e-324,
        f64::MIN_POSITIVE,
        f64::MAX,
        -f64::MAX,
        next_down(f64::MAX),
        next_up(-f64::MAX),
        f64::INFINITY,
        f64::NEG_INFINITY,
        NO_DATA,
        // ordinary but awkward finite values: 2^53 (integers stop being exact),
        // a negative integer of large magnitude, a value with a full mantissa
        9007199254740992.0,
        -4503599627370497.0,
        123456.78901234567,
    ]
}
pub fn nans() -> Vec<f64> {
    vec![
        f64::NAN,
        f64::from_bits(0x7ff8_0000_dead_beef),
        f64::from_bits(0xfff8_0000_0000_0001),
        f64::from_bits(0x7ff0_0000_0000_0001), // signalling
    ]
}
pub fn f_z() -> Vec<f64> {
    let mut v = f_xy();
    v.extend(nans());
    v
}
pub fn f_m() -> Vec<f64> {
    let mut v = f_z();
    // (-1e38 is the threshold of the specification, -5e38 lies between it and the constant the format uses in practice)
    v.extend([next_up(NO_DATA), next_down(NO_DATA), -1e38, -5e38, -9.99e38]);
    v
}
pub fn alphabet_for_dim(d: usize) -> Vec<f64> {
    match d {
        0 | 1 => f_xy(),
        2 => f_z(),
        _ => f_m(),
    }
}

/// The measure a reader must report for a stored measure `m` in a
/// multi-vertex shape (C01 / C03 normalisation).
pub fn norm_m(m: f64) -> f64 {
    if m.is_nan() || m <= NO_DATA {
        NO_DATA
    } else {
        m
    }
}
pub fn is_nodata(m: f64) -> bool {
    m.is_nan() || m <= NO_DATA
}

// ---------------------------------------------------------------------
// boring default coordinates: pairwise distinct dyadic values

/// k-th default vertex: all four coordinates distinct from every coordinate
/// of every other default vertex (dyadic, exactly representable).
pub fn dflt(k: usize) -> P4 {
    let k = k as f64;
    [
        10.0 + k * 0.5,
        -20.0 - k * 0.25,
        100.0 + k * 2.0,
        1000.0 + k * 0.125,
    ]
}

/// Exact signed shoelace sum (clockwise positive, as the ESRI convention
/// has it) on lattice coordinates; None if a coordinate is not an integer
/// of small magnitude.
pub fn exact_shoelace(pts: &[P4]) -> Option<i128> {
    let mut s: i128 = 0;
    let li = |v: f64| -> Option<i128> {
        if v.is_finite() && v.fract() == 0.0 && v.abs() < 1e15 {
            Some(v as i128)
        } else {
            None
        }
    };
    for w in pts.windows(2) {
        let (x0, y0, x1, y1) = (li(w[0][0])?, li(w[0][1])?, li(w[1][0])?, li(w[1][1])?);
        s += (x1 - x0) * (y1 + y0);
    }
    Some(s)
}

/// Sign of the exact shoelace sum, for ANY finite coordinates: every double is an integer multiple of 2^-1074,
/// so the sum is computed in arbitrary-precision integers (scaled by 2^e, which does not change its sign).
/// None if a coordinate is not finite.
pub fn exact_shoelace_sign(pts: &[P4]) -> Option<i32> {
    if let Some(s) = exact_shoelace(pts) {
        return Some(s.signum() as i32);
    }
    if pts.iter().any(|p| !p[0].is_finite() || !p[1].is_finite()) {
        return None;
    }
    // common scale per axis: the smallest exponent among the non-zero values
    let decomp = |v: f64| -> (i128, i32) {
        // v = m * 2^e with m an integer
        let bits = v.to_bits();
        let neg = (bits >> 63) != 0;
        let exp = ((bits >> 52) & 0x7ff) as i32;
        let frac = (bits & ((1u64 << 52) - 1)) as i128;
        let (m, e) = if exp == 0 { (frac, -1074) } else { (frac | (1i128 << 52), exp - 1075) };
        (if neg { -m } else { m }, e)
    };
    let scale = |d: usize| -> i32 { pts.iter().map(|p| decomp(p[d])).filter(|(m, _)| *m != 0).map(|(_, e)| e).min().unwrap_or(0) };
    let (ex, ey) = (scale(0), scale(1));
    let big = |v: f64, e0: i32| -> Big {
        let (m, e) = decomp(v);
        Big::from_i128(m).shl((e - e0).max(0) as u32)
    };
    let mut sum = Big::zero();
    for w in pts.windows(2) {
        let (x0, y0, x1, y1) = (big(w[0][0], ex), big(w[0][1], ey), big(w[1][0], ex), big(w[1][1], ey));
        sum = sum.add(&x1.sub(&x0).mul(&y1.add(&y0)));
    }
    Some(sum.sign())
}

/// True when the trapezoid sum  sum (x1 - x0) * (y1 + y0)  over the ring, evaluated in IEEE doubles in ring
/// order, is exact at every step (every difference, sum, product and partial sum is representable).  On such
/// rings any double-precision evaluation of that formula yields the exact area; on the others the sign a
/// double-precision implementation computes is a matter of rounding.
pub fn trapezoid_sum_is_exact_in_f64(pts: &[P4]) -> bool {
    if pts.iter().any(|p| !p[0].is_finite() || !p[1].is_finite()) {
        return false;
    }
    let decomp = |v: f64| -> (i128, i32) {
        let bits = v.to_bits();
        let neg = (bits >> 63) != 0;
        let exp = ((bits >> 52) & 0x7ff) as i32;
        let frac = (bits & ((1u64 << 52) - 1)) as i128;
        let (m, e) = if exp == 0 { (frac, -1074) } else { (frac | (1i128 << 52), exp - 1075) };
        (if neg { -m } else { m }, e)
    };
    let scale = |d: usize| -> i32 { pts.iter().map(|p| decomp(p[d])).filter(|(m, _)| *m != 0).map(|(_, e)| e).min().unwrap_or(0) };
    let (ex, ey) = (scale(0), scale(1));
    // the double v as a multiple of 2^e0, if it is one
    let as_big = |v: f64, e0: i32| -> Option<Big> {
        if !v.is_finite() {
            return None;
        }
        let (mut m, mut e) = decomp(v);
        if m == 0 {
            return Some(Big::zero());
        }
        while e < e0 {
            if m & 1 != 0 {
                return None;
            }
            m >>= 1;
            e += 1;
        }
        Some(Big::from_i128(m).shl((e - e0) as u32))
    };
    let same = |v: f64, b: &Big, e0: i32| -> bool { matches!(as_big(v, e0), Some(x) if x.eq(b)) };
    let mut sum_f = 0.0f64;
    let mut sum_b = Big::zero();
    for w in pts.windows(2) {
        let (bx0, by0, bx1, by1) = match (as_big(w[0][0], ex), as_big(w[0][1], ey), as_big(w[1][0], ex), as_big(w[1][1], ey)) {
            (Some(a), Some(b), Some(c), Some(d)) => (a, b, c, d),
            _ => return false,
        };
        let (dx_f, sy_f) = (w[1][0] - w[0][0], w[1][1] + w[0][1]);
        let (dx_b, sy_b) = (bx1.sub(&bx0), by1.add(&by0));
        if !same(dx_f, &dx_b, ex) || !same(sy_f, &sy_b, ey) {
            return false;
        }
        let p_f = dx_f * sy_f;
        let p_b = dx_b.mul(&sy_b);
        if !same(p_f, &p_b, ex + ey) {
            return false;
        }
        sum_f += p_f;
        sum_b = sum_b.add(&p_b);
        if !same(sum_f, &sum_b, ex + ey) {
            return false;
        }
    }
    true
}

/// A minimal arbitrary-precision signed integer (sign + magnitude in 32-bit limbs, little endian).
#[derive(Clone, Debug)]
pub struct Big {
    neg: bool,
    mag: Vec<u32>,
}

impl Big {
    pub fn zero() -> Big {
        Big { neg: false, mag: vec![] }
    }
    fn trim(mut self) -> Big {
        while self.mag.last() == Some(&0) {
            self.mag.pop();
        }
        if self.mag.is_empty() {
            self.neg = false;
        }
        self
    }
    pub fn from_i128(v: i128) -> Big {
        let mut u = v.unsigned_abs();
        let mut mag = vec![];
        while u != 0 {
            mag.push(u as u32);
            u >>= 32;
        }
        Big { neg: v < 0, mag }.trim()
    }
    pub fn shl(&self, n: u32) -> Big {
        if self.mag.is_empty() {
            return Big::zero();
        }
        let (limbs, bits) = ((n / 32) as usize, n % 32);
        let mut mag = vec![0u32; limbs];
        let mut carry = 0u64;
        for l in &self.mag {
            let v = ((*l as u64) << bits) | carry;
            mag.push(v as u32);
            carry = v >> 32;
        }
        if carry != 0 {
            mag.push(carry as u32);
        }
        Big { neg: self.neg, mag }.trim()
    }
    fn cmp_mag(a: &[u32], b: &[u32]) -> std::cmp::Ordering {
        if a.len() != b.len() {
            return a.len().cmp(&b.len());
        }
        for i in (0..a.len()).rev() {
            if a[i] != b[i] {
                return a[i].cmp(&b[i]);
            }
        }
        std::cmp::Ordering::Equal
    }
    fn add_mag(a: &[u32], b: &[u32]) -> Vec<u32> {
        let mut out = vec![];
        let mut carry = 0u64;
        for i in 0..a.len().max(b.len()) {
            let v = *a.get(i).unwrap_or(&0) as u64 + *b.get(i).unwrap_or(&0) as u64 + carry;
            out.push(v as u32);
            carry = v >> 32;
        }
        if carry != 0 {
            out.push(carry as u32);
        }
        out
    }
    /// a - b for |a| >= |b|
    fn sub_mag(a: &[u32], b: &[u32]) -> Vec<u32> {
        let mut out = vec![];
        let mut borrow = 0i64;
        for i in 0..a.len() {
            let mut v = a[i] as i64 - *b.get(i).unwrap_or(&0) as i64 - borrow;
            if v < 0 {
                v += 1 << 32;
                borrow = 1;
            } else {
                borrow = 0;
            }
            out.push(v as u32);
        }
        out
    }
    pub fn neg(&self) -> Big {
        Big { neg: !self.neg, mag: self.mag.clone() }.trim()
    }
    pub fn add(&self, o: &Big) -> Big {
        if self.neg == o.neg {
            return Big { neg: self.neg, mag: Big::add_mag(&self.mag, &o.mag) }.trim();
        }
        match Big::cmp_mag(&self.mag, &o.mag) {
            std::cmp::Ordering::Equal => Big::zero(),
            std::cmp::Ordering::Greater => Big { neg: self.neg, mag: Big::sub_mag(&self.mag, &o.mag) }.trim(),
            std::cmp::Ordering::Less => Big { neg: o.neg, mag: Big::sub_mag(&o.mag, &self.mag) }.trim(),
        }
    }
    pub fn sub(&self, o: &Big) -> Big {
        self.add(&o.neg())
    }
    pub fn mul(&self, o: &Big) -> Big {
        if self.mag.is_empty() || o.mag.is_empty() {
            return Big::zero();
        }
        let mut out = vec![0u32; self.mag.len() + o.mag.len() + 1];
        for (i, a) in self.mag.iter().enumerate() {
            let mut carry = 0u64;
            for (j, b) in o.mag.iter().enumerate() {
                let v = out[i + j] as u64 + (*a as u64) * (*b as u64) + carry;
                out[i + j] = v as u32;
                carry = v >> 32;
            }
            let mut k = i + o.mag.len();
            while carry != 0 {
                let v = out[k] as u64 + carry;
                out[k] = v as u32;
                carry = v >> 32;
                k += 1;
            }
        }
        Big { neg: self.neg != o.neg, mag: out }.trim()
    }
    pub fn eq(&self, o: &Big) -> bool {
        self.neg == o.neg && self.mag == o.mag
    }
    pub fn sign(&self) -> i32 {
        if self.mag.is_empty() {
            0
        } else if self.neg {
            -1
        } else {
            1
        }
    }
}

pub fn p4_bits_eq(a: &P4, b: &P4, dims: [bool; 4]) -> bool {
    (0..4).all(|i| !dims[i] || a[i].to_bits() == b[i].to_bits())
}
