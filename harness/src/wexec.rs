//! Executing writer histories on the real `ShapeWriter` over instrumented
//! devices.  Shared by C09, C10, C11, C12.

use crate::bridge::*;
use crate::dev::Dev;
use crate::engine::{catch, PanicInfo};
use crate::model::*;
use crate::structs::abc;
use crate::with_concrete;
use shapefile::{Shape, ShapeWriter};

#[derive(Clone, Copy, Debug, PartialEq, Eq, Hash)]
pub enum WOp {
    /// write palette shape a (0) or b (1)
    W(u8),
    F,
    /// write the shape of the *other* type (C10)
    R,
}

#[derive(Clone, Copy, Debug, PartialEq, Eq, Hash)]
pub enum Ending {
    Drop,
    FinalizeDrop,
    /// consumed by write_shapes(self, [c; k])
    WriteShapes(u8),
    /// the writer is dropped by stack unwinding (the caller panics with the writer alive)
    DropWhilePanicking,
    /// consumed by write_shapes(self, [shape of the palette's other type; k])
    WriteShapesOther(u8),
}

pub const ENDINGS: [Ending; 6] = [
    Ending::Drop,
    Ending::FinalizeDrop,
    Ending::WriteShapes(0),
    Ending::WriteShapes(1),
    Ending::WriteShapes(2),
    Ending::DropWhilePanicking,
];

impl Ending {
    pub fn name(self) -> String {
        match self {
            Ending::Drop => "drop".into(),
            Ending::FinalizeDrop => "finalize+drop".into(),
            Ending::WriteShapes(k) => format!("write_shapes(c x{})", k),
            Ending::DropWhilePanicking => "drop-while-panicking".into(),
            Ending::WriteShapesOther(k) => format!("write_shapes(other type x{})", k),
        }
    }
    pub fn from_name(s: &str) -> Option<Ending> {
        ENDINGS.iter().copied().chain([Ending::WriteShapesOther(1), Ending::WriteShapesOther(2)]).find(|e| e.name() == s)
    }
}

pub fn ops_name(ops: &[WOp]) -> String {
    ops.iter()
        .map(|o| match o {
            WOp::W(0) => "Wa".to_string(),
            WOp::W(1) => "Wb".to_string(),
            WOp::W(k) => format!("W{}", k),
            WOp::F => "F".to_string(),
            WOp::R => "R".to_string(),
        })
        .collect::<Vec<_>>()
        .join(",")
}

pub fn ops_from_name(s: &str) -> Option<Vec<WOp>> {
    if s.is_empty() {
        return Some(vec![]);
    }
    s.split(',')
        .map(|t| match t {
            "Wa" => Some(WOp::W(0)),
            "Wb" => Some(WOp::W(1)),
            "F" => Some(WOp::F),
            "R" => Some(WOp::R),
            _ => None,
        })
        .collect()
}

pub struct Palette {
    pub ty: Ty,
    pub model: [MShape; 3],
    pub lib: [Shape; 3],
    /// as constructed
    pub built: [MRead; 3],
    /// a shape of another type, for rejected writes
    pub other: Option<Shape>,
}

impl Palette {
    pub fn new(ty: Ty, other: Option<Ty>) -> Palette {
        let m = abc(ty);
        let lib = [to_lib(&m[0]), to_lib(&m[1]), to_lib(&m[2])];
        let built = [from_lib(&lib[0]), from_lib(&lib[1]), from_lib(&lib[2])];
        Palette {
            ty,
            model: m,
            lib,
            built,
            other: other.map(|o| to_lib(&abc(o)[1])),
        }
    }
}

pub struct WEnv {
    pub shp: Dev,
    pub shx: Option<Dev>,
}

impl WEnv {
    pub fn new(with_shx: bool) -> WEnv {
        WEnv {
            shp: Dev::new(),
            shx: if with_shx { Some(Dev::new()) } else { None },
        }
    }
    pub fn set_call(&self, c: u32) {
        self.shp.set_call(c);
        if let Some(x) = &self.shx {
            x.set_call(c);
        }
    }
}

/// Outcome of one API call: Ok, Err(kind string), or a panic.
#[derive(Clone, Debug, PartialEq, Eq)]
pub enum CallRes {
    Ok,
    Err(String),
    Panic(String),
}

/// Runs `ops` then the ending on a fresh writer over `env`.  `after(i, op,
/// result)` is called after every operation of `ops` (the writer is still
/// alive).  Call ids: operation i -> i, the ending -> len, the final drop
/// -> len + 1.  Returns the per-call results (ending included as the last).
pub fn exec_writer(
    pal: &Palette,
    ops: &[WOp],
    ending: Ending,
    env: &WEnv,
    mut after: impl FnMut(usize, WOp, &CallRes),
) -> Vec<CallRes> {
    let mut results = vec![];
    let mut w = Some(match &env.shx {
        Some(x) => ShapeWriter::with_shx(env.shp.clone(), x.clone()),
        None => ShapeWriter::new(env.shp.clone()),
    });
    let to_res = |r: Result<Result<(), shapefile::Error>, PanicInfo>| match r {
        Ok(Ok(())) => CallRes::Ok,
        Ok(Err(e)) => CallRes::Err(err_kind(&e)),
        Err(p) => CallRes::Panic(p.sig()),
    };
    for (i, op) in ops.iter().enumerate() {
        env.set_call(i as u32);
        let wr = w.as_mut().unwrap();
        let r = to_res(catch(|| match op {
            WOp::W(k) => write_shape(wr, &pal.lib[*k as usize]),
            WOp::F => wr.finalize(),
            WOp::R => write_shape(wr, pal.other.as_ref().expect("palette has no other-type shape")),
        }));
        after(i, *op, &r);
        results.push(r);
    }
    env.set_call(ops.len() as u32);
    let end = match ending {
        Ending::Drop => CallRes::Ok,
        Ending::DropWhilePanicking => {
            let wr = w.take().unwrap();
            // the caller's code panics while the writer is alive: it is dropped by unwinding
            let r = catch(move || {
                let _keep = wr;
                if true {
                    panic!("vcheck: caller panics with the writer alive");
                }
            });
            match r {
                Err(p) if p.msg.starts_with("vcheck: caller panics") => CallRes::Ok,
                Err(p) => CallRes::Panic(format!("drop:{}", p.sig())),
                Ok(()) => CallRes::Ok,
            }
        }
        Ending::FinalizeDrop => {
            let wr = w.as_mut().unwrap();
            to_res(catch(|| wr.finalize()))
        }
        Ending::WriteShapesOther(k) => {
            let wr = w.take().unwrap();
            let c = pal.other.as_ref().expect("palette has no other-type shape");
            to_res(catch(move || {
                with_concrete!(c, s => wr.write_shapes(std::iter::repeat(s).take(k as usize)), unreachable!())
            }))
        }
        Ending::WriteShapes(k) => {
            let wr = w.take().unwrap();
            let c = &pal.lib[2];
            to_res(catch(move || {
                with_concrete!(c, s => wr.write_shapes(std::iter::repeat(s).take(k as usize)), unreachable!())
            }))
        }
    };
    results.push(end);
    env.set_call(ops.len() as u32 + 1);
    if let Some(wr) = w.take() {
        if let Err(p) = catch(move || drop(wr)) {
            results.push(CallRes::Panic(format!("drop:{}", p.sig())));
        }
    }
    results
}

/// The shapes a history hands to the writer successfully, in order, given
/// the per-call results (palette indices; 2 = c).
pub fn accepted(ops: &[WOp], ending: Ending, results: &[CallRes]) -> Vec<u8> {
    let mut v = vec![];
    for (op, r) in ops.iter().zip(results) {
        if let (WOp::W(k), CallRes::Ok) = (op, r) {
            v.push(*k);
        }
    }
    if let Ending::WriteShapes(k) = ending {
        if results.get(ops.len()) == Some(&CallRes::Ok) {
            for _ in 0..k {
                v.push(2);
            }
        }
    }
    v
}
