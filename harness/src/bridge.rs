//! Bridge between the model types and the library's public API.

use crate::model::*;
use shapefile::record::polygon::GenericPolygon;
use shapefile::record::polyline::GenericPolyline;
use shapefile::record::multipoint::GenericMultipoint;
use shapefile::*;
use std::io::{Seek, Write};

pub fn lib_ty(t: Ty) -> ShapeType {
    match t {
        Ty::Null => ShapeType::NullShape,
        Ty::Point => ShapeType::Point,
        Ty::Polyline => ShapeType::Polyline,
        Ty::Polygon => ShapeType::Polygon,
        Ty::Multipoint => ShapeType::Multipoint,
        Ty::PointZ => ShapeType::PointZ,
        Ty::PolylineZ => ShapeType::PolylineZ,
        Ty::PolygonZ => ShapeType::PolygonZ,
        Ty::MultipointZ => ShapeType::MultipointZ,
        Ty::PointM => ShapeType::PointM,
        Ty::PolylineM => ShapeType::PolylineM,
        Ty::PolygonM => ShapeType::PolygonM,
        Ty::MultipointM => ShapeType::MultipointM,
        Ty::Multipatch => ShapeType::Multipatch,
    }
}

pub fn model_ty(t: ShapeType) -> Ty {
    // by discriminant value only: this is what C19 checks separately
    match t {
        ShapeType::NullShape => Ty::Null,
        ShapeType::Point => Ty::Point,
        ShapeType::Polyline => Ty::Polyline,
        ShapeType::Polygon => Ty::Polygon,
        ShapeType::Multipoint => Ty::Multipoint,
        ShapeType::PointZ => Ty::PointZ,
        ShapeType::PolylineZ => Ty::PolylineZ,
        ShapeType::PolygonZ => Ty::PolygonZ,
        ShapeType::MultipointZ => Ty::MultipointZ,
        ShapeType::PointM => Ty::PointM,
        ShapeType::PolylineM => Ty::PolylineM,
        ShapeType::PolygonM => Ty::PolygonM,
        ShapeType::MultipointM => Ty::MultipointM,
        ShapeType::Multipatch => Ty::Multipatch,
    }
}

pub trait Pt: Copy {
    fn mk(p: &P4) -> Self;
    fn p4(&self) -> P4;
}
impl Pt for Point {
    fn mk(p: &P4) -> Self {
        Point::new(p[0], p[1])
    }
    fn p4(&self) -> P4 {
        [self.x, self.y, 0.0, 0.0]
    }
}
impl Pt for PointM {
    fn mk(p: &P4) -> Self {
        PointM::new(p[0], p[1], p[3])
    }
    fn p4(&self) -> P4 {
        [self.x, self.y, 0.0, self.m]
    }
}
impl Pt for PointZ {
    fn mk(p: &P4) -> Self {
        PointZ::new(p[0], p[1], p[2], p[3])
    }
    fn p4(&self) -> P4 {
        [self.x, self.y, self.z, self.m]
    }
}

fn mk_pts<P: Pt>(v: &[P4]) -> Vec<P> {
    v.iter().map(P::mk).collect()
}

fn mk_polyline<P>(s: &MShape) -> GenericPolyline<P>
where
    P: Pt + shapefile::record::traits::ShrinkablePoint + shapefile::record::traits::GrowablePoint + shapefile::record::traits::HasXY,
{
    GenericPolyline::<P>::with_parts(s.parts.iter().map(|p| mk_pts::<P>(&p.pts)).collect())
}

fn mk_polygon<P>(s: &MShape) -> GenericPolygon<P>
where
    P: Pt
        + shapefile::record::traits::ShrinkablePoint
        + shapefile::record::traits::GrowablePoint
        + shapefile::record::traits::HasXY
        + PartialEq,
{
    GenericPolygon::<P>::with_rings(
        s.parts
            .iter()
            .map(|p| {
                if p.kind == 0 {
                    PolygonRing::Outer(mk_pts::<P>(&p.pts))
                } else {
                    PolygonRing::Inner(mk_pts::<P>(&p.pts))
                }
            })
            .collect(),
    )
}

pub fn mk_patch(kind: u8, pts: Vec<PointZ>) -> Patch {
    match kind {
        0 => Patch::TriangleStrip(pts),
        1 => Patch::TriangleFan(pts),
        2 => Patch::OuterRing(pts),
        3 => Patch::InnerRing(pts),
        4 => Patch::FirstRing(pts),
        _ => Patch::Ring(pts),
    }
}

pub fn patch_kind(p: &Patch) -> u8 {
    match p {
        Patch::TriangleStrip(_) => 0,
        Patch::TriangleFan(_) => 1,
        Patch::OuterRing(_) => 2,
        Patch::InnerRing(_) => 3,
        Patch::FirstRing(_) => 4,
        Patch::Ring(_) => 5,
    }
}

/// Build the library value through the public constructors (they may close
/// and reorder rings; callers that need the *constructed* value convert back
/// with `from_lib`).  Panics where the constructor panics by contract.
pub fn to_lib(s: &MShape) -> Shape {
    match s.ty {
        Ty::Null => Shape::NullShape,
        Ty::Point => Shape::Point(Point::mk(&s.parts[0].pts[0])),
        Ty::PointM => Shape::PointM(PointM::mk(&s.parts[0].pts[0])),
        Ty::PointZ => Shape::PointZ(PointZ::mk(&s.parts[0].pts[0])),
        Ty::Multipoint => Shape::Multipoint(GenericMultipoint::new(mk_pts::<Point>(&s.parts[0].pts))),
        Ty::MultipointM => {
            Shape::MultipointM(GenericMultipoint::new(mk_pts::<PointM>(&s.parts[0].pts)))
        }
        Ty::MultipointZ => {
            Shape::MultipointZ(GenericMultipoint::new(mk_pts::<PointZ>(&s.parts[0].pts)))
        }
        Ty::Polyline => Shape::Polyline(mk_polyline::<Point>(s)),
        Ty::PolylineM => Shape::PolylineM(mk_polyline::<PointM>(s)),
        Ty::PolylineZ => Shape::PolylineZ(mk_polyline::<PointZ>(s)),
        Ty::Polygon => Shape::Polygon(mk_polygon::<Point>(s)),
        Ty::PolygonM => Shape::PolygonM(mk_polygon::<PointM>(s)),
        Ty::PolygonZ => Shape::PolygonZ(mk_polygon::<PointZ>(s)),
        Ty::Multipatch => Shape::Multipatch(Multipatch::with_parts(
            s.parts
                .iter()
                .map(|p| mk_patch(p.kind, mk_pts::<PointZ>(&p.pts)))
                .collect(),
        )),
    }
}

fn bbox8<P: Pt>(b: &shapefile::record::GenericBBox<P>) -> [f64; 8] {
    let (mn, mx) = (b.min.p4(), b.max.p4());
    [mn[0], mn[1], mx[0], mx[1], mn[2], mx[2], mn[3], mx[3]]
}

fn rd_multipoint<P: Pt>(ty: Ty, s: &GenericMultipoint<P>) -> MRead {
    MRead {
        shape: MShape {
            ty,
            parts: vec![MPart {
                kind: 0,
                pts: s.points().iter().map(|p| p.p4()).collect(),
            }],
        },
        bbox: Some(bbox8(s.bbox())),
    }
}
fn rd_polyline<P: Pt>(ty: Ty, s: &GenericPolyline<P>) -> MRead {
    MRead {
        shape: MShape {
            ty,
            parts: s
                .parts()
                .iter()
                .map(|part| MPart {
                    kind: 0,
                    pts: part.iter().map(|p| p.p4()).collect(),
                })
                .collect(),
        },
        bbox: Some(bbox8(s.bbox())),
    }
}
fn rd_polygon<P: Pt>(ty: Ty, s: &GenericPolygon<P>) -> MRead {
    MRead {
        shape: MShape {
            ty,
            parts: s
                .rings()
                .iter()
                .map(|r| MPart {
                    kind: match r {
                        PolygonRing::Outer(_) => 0,
                        PolygonRing::Inner(_) => 1,
                    },
                    pts: r.points().iter().map(|p| p.p4()).collect(),
                })
                .collect(),
        },
        bbox: Some(bbox8(s.bbox())),
    }
}

/// What the library value says about itself, through public accessors only.
pub fn from_lib(s: &Shape) -> MRead {
    match s {
        Shape::NullShape => MRead {
            shape: MShape::null(),
            bbox: None,
        },
        Shape::Point(p) => MRead {
            shape: MShape::point(Ty::Point, p.p4()),
            bbox: None,
        },
        Shape::PointM(p) => MRead {
            shape: MShape::point(Ty::PointM, p.p4()),
            bbox: None,
        },
        Shape::PointZ(p) => MRead {
            shape: MShape::point(Ty::PointZ, p.p4()),
            bbox: None,
        },
        Shape::Multipoint(s) => rd_multipoint(Ty::Multipoint, s),
        Shape::MultipointM(s) => rd_multipoint(Ty::MultipointM, s),
        Shape::MultipointZ(s) => rd_multipoint(Ty::MultipointZ, s),
        Shape::Polyline(s) => rd_polyline(Ty::Polyline, s),
        Shape::PolylineM(s) => rd_polyline(Ty::PolylineM, s),
        Shape::PolylineZ(s) => rd_polyline(Ty::PolylineZ, s),
        Shape::Polygon(s) => rd_polygon(Ty::Polygon, s),
        Shape::PolygonM(s) => rd_polygon(Ty::PolygonM, s),
        Shape::PolygonZ(s) => rd_polygon(Ty::PolygonZ, s),
        Shape::Multipatch(s) => MRead {
            shape: MShape {
                ty: Ty::Multipatch,
                parts: s
                    .patches()
                    .iter()
                    .map(|p| MPart {
                        kind: patch_kind(p),
                        pts: p.points().iter().map(|q| q.p4()).collect(),
                    })
                    .collect(),
            },
            bbox: Some(bbox8(s.bbox())),
        },
    }
}

/// Which enum variant the value is (independent of `Shape::shapetype()`).
pub fn variant_ty(s: &Shape) -> Ty {
    match s {
        Shape::NullShape => Ty::Null,
        Shape::Point(_) => Ty::Point,
        Shape::PointM(_) => Ty::PointM,
        Shape::PointZ(_) => Ty::PointZ,
        Shape::Multipoint(_) => Ty::Multipoint,
        Shape::MultipointM(_) => Ty::MultipointM,
        Shape::MultipointZ(_) => Ty::MultipointZ,
        Shape::Polyline(_) => Ty::Polyline,
        Shape::PolylineM(_) => Ty::PolylineM,
        Shape::PolylineZ(_) => Ty::PolylineZ,
        Shape::Polygon(_) => Ty::Polygon,
        Shape::PolygonM(_) => Ty::PolygonM,
        Shape::PolygonZ(_) => Ty::PolygonZ,
        Shape::Multipatch(_) => Ty::Multipatch,
    }
}

pub fn clone_shape(s: &Shape) -> Shape {
    match s {
        Shape::NullShape => Shape::NullShape,
        Shape::Point(p) => Shape::Point(*p),
        Shape::PointM(p) => Shape::PointM(*p),
        Shape::PointZ(p) => Shape::PointZ(*p),
        Shape::Multipoint(s) => Shape::Multipoint(s.clone()),
        Shape::MultipointM(s) => Shape::MultipointM(s.clone()),
        Shape::MultipointZ(s) => Shape::MultipointZ(s.clone()),
        Shape::Polyline(s) => Shape::Polyline(s.clone()),
        Shape::PolylineM(s) => Shape::PolylineM(s.clone()),
        Shape::PolylineZ(s) => Shape::PolylineZ(s.clone()),
        Shape::Polygon(s) => Shape::Polygon(s.clone()),
        Shape::PolygonM(s) => Shape::PolygonM(s.clone()),
        Shape::PolygonZ(s) => Shape::PolygonZ(s.clone()),
        Shape::Multipatch(s) => Shape::Multipatch(s.clone()),
    }
}

/// Run `$body` with `$s` bound to the concrete shape inside a `Shape`
/// (not usable for NullShape: `$null` is evaluated instead).
#[macro_export]
macro_rules! with_concrete {
    ($shape:expr, $s:ident => $body:expr, $null:expr) => {
        match $shape {
            shapefile::Shape::NullShape => $null,
            shapefile::Shape::Point($s) => $body,
            shapefile::Shape::PointM($s) => $body,
            shapefile::Shape::PointZ($s) => $body,
            shapefile::Shape::Multipoint($s) => $body,
            shapefile::Shape::MultipointM($s) => $body,
            shapefile::Shape::MultipointZ($s) => $body,
            shapefile::Shape::Polyline($s) => $body,
            shapefile::Shape::PolylineM($s) => $body,
            shapefile::Shape::PolylineZ($s) => $body,
            shapefile::Shape::Polygon($s) => $body,
            shapefile::Shape::PolygonM($s) => $body,
            shapefile::Shape::PolygonZ($s) => $body,
            shapefile::Shape::Multipatch($s) => $body,
        }
    };
}

/// Run `$body` with the type alias `$T` bound to the concrete library type
/// of the model type `$ty` (13 geometry types; `$null` for Ty::Null).
#[macro_export]
macro_rules! with_ty {
    ($ty:expr, $T:ident => $body:expr, $null:expr) => {
        match $ty {
            $crate::model::Ty::Null => $null,
            $crate::model::Ty::Point => {
                type $T = shapefile::Point;
                $body
            }
            $crate::model::Ty::PointM => {
                type $T = shapefile::PointM;
                $body
            }
            $crate::model::Ty::PointZ => {
                type $T = shapefile::PointZ;
                $body
            }
            $crate::model::Ty::Multipoint => {
                type $T = shapefile::Multipoint;
                $body
            }
            $crate::model::Ty::MultipointM => {
                type $T = shapefile::MultipointM;
                $body
            }
            $crate::model::Ty::MultipointZ => {
                type $T = shapefile::MultipointZ;
                $body
            }
            $crate::model::Ty::Polyline => {
                type $T = shapefile::Polyline;
                $body
            }
            $crate::model::Ty::PolylineM => {
                type $T = shapefile::PolylineM;
                $body
            }
            $crate::model::Ty::PolylineZ => {
                type $T = shapefile::PolylineZ;
                $body
            }
            $crate::model::Ty::Polygon => {
                type $T = shapefile::Polygon;
                $body
            }
            $crate::model::Ty::PolygonM => {
                type $T = shapefile::PolygonM;
                $body
            }
            $crate::model::Ty::PolygonZ => {
                type $T = shapefile::PolygonZ;
                $body
            }
            $crate::model::Ty::Multipatch => {
                type $T = shapefile::Multipatch;
                $body
            }
        }
    };
}

/// `writer.write_shape(&concrete)` for whatever is inside the enum.
/// A NullShape cannot be written (it does not implement EsriShape).
pub fn write_shape<W: Write + Seek>(w: &mut ShapeWriter<W>, s: &Shape) -> Result<(), Error> {
    with_concrete!(s, c => w.write_shape(c), panic!("NullShape cannot be written"))
}

pub fn write_pair<W: Write + Seek, R: shapefile::dbase::WritableRecord>(
    w: &mut Writer<W>,
    s: &Shape,
    r: &R,
) -> Result<(), Error> {
    with_concrete!(s, c => w.write_shape_and_record(c, r), panic!("NullShape cannot be written"))
}

/// ranges as the library computes them for the header (EsriShape), for tests
/// that need them; not used as an oracle.
pub fn err_kind(e: &Error) -> String {
    match e {
        Error::IoError(io) => format!("IoError({:?}:{})", io.kind(), io),
        Error::InvalidFileCode(c) => format!("InvalidFileCode({})", c),
        Error::InvalidShapeType(c) => format!("InvalidShapeType({})", c),
        Error::InvalidPatchType(c) => format!("InvalidPatchType({})", c),
        Error::MismatchShapeType { requested, actual } => {
            format!("MismatchShapeType(requested={},actual={})", *requested as i32, *actual as i32)
        }
        Error::InvalidShapeRecordSize => "InvalidShapeRecordSize".into(),
        Error::DbaseError(e) => format!("DbaseError({})", e),
        Error::MissingDbf => "MissingDbf".into(),
        Error::MissingIndexFile => "MissingIndexFile".into(),
    }
}
