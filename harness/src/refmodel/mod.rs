//! Reference models.  Nothing below this directory may use the library
//! under test or the byteorder crate (enforced by a grep in ./check).
pub mod codec;
