//! RefCodec: an ESRI-whitepaper (July 1998) encoder, strict validator and
//! decoder.  Written from the specification with `to_be_bytes` /
//! `from_le_bytes` only; shares no code with the library under test.

use crate::model::*;

#[derive(Clone, Debug)]
pub enum MBody {
    Null,
    /// `bbox`: the box to store (xmin ymin xmax ymax zmin zmax mmin mmax);
    /// `with_m`: whether the optional M block is emitted (PointZ: the 32-byte
    /// variant).  Ignored where the layout has no choice.
    Shape {
        shape: MShape,
        bbox: [f64; 8],
        with_m: bool,
    },
}

#[derive(Clone, Debug)]
pub struct MRecord {
    pub number: i32,
    pub body: MBody,
}

#[derive(Clone, Debug)]
pub struct MFile {
    pub ty: Ty,
    pub header_box: [f64; 8],
    pub records: Vec<MRecord>,
    /// bytes appended after the declared length
    pub trailing: Vec<u8>,
}

/// One 32-bit field of an encoded file (drives the mutation scopes).
#[derive(Clone, Debug)]
pub struct Field {
    pub off: usize,
    pub big_endian: bool,
    pub name: String,
    pub class: FieldClass,
}

#[derive(Clone, Copy, Debug, PartialEq, Eq, Hash)]
pub enum FieldClass {
    FileCode,
    FileLength,
    Version,
    HeaderType,
    RecNumber,
    RecLength,
    RecType,
    NumParts,
    NumPoints,
    PartOffset,
    PatchKind,
    IdxOffset,
    IdxLength,
}

pub struct Enc {
    pub bytes: Vec<u8>,
    pub fields: Vec<Field>,
    /// byte offset of every record header
    pub rec_offsets: Vec<usize>,
    /// content length in bytes of every record (without the 8-byte header)
    pub rec_content: Vec<usize>,
}

fn be32(v: i32) -> [u8; 4] {
    v.to_be_bytes()
}
fn le32(v: i32) -> [u8; 4] {
    v.to_le_bytes()
}
fn lef(v: f64) -> [u8; 8] {
    v.to_bits().to_le_bytes()
}

pub fn true_bbox(s: &MShape) -> [f64; 8] {
    // numeric extremes; NaN never participates; M extremes over raw values.
    let mut b = [0.0f64; 8];
    let mut first = true;
    for p in &s.parts {
        for v in &p.pts {
            if first {
                b = [v[0], v[1], v[0], v[1], v[2], v[2], v[3], v[3]];
                first = false;
            } else {
                if v[0] < b[0] {
                    b[0] = v[0]
                }
                if v[1] < b[1] {
                    b[1] = v[1]
                }
                if v[0] > b[2] {
                    b[2] = v[0]
                }
                if v[1] > b[3] {
                    b[3] = v[1]
                }
                if v[2] < b[4] {
                    b[4] = v[2]
                }
                if v[2] > b[5] {
                    b[5] = v[2]
                }
                if v[3] < b[6] {
                    b[6] = v[3]
                }
                if v[3] > b[7] {
                    b[7] = v[3]
                }
            }
        }
    }
    b
}

/// Encode one record content (type code included).
pub fn encode_content(body: &MBody, fields: &mut Vec<Field>, base: usize, rec: usize) -> Vec<u8> {
    let mut o: Vec<u8> = vec![];
    let mut fld = |o: &Vec<u8>, name: &str, class: FieldClass| {
        fields.push(Field {
            off: base + o.len(),
            big_endian: false,
            name: format!("rec{}.{}", rec, name),
            class,
        });
    };
    match body {
        MBody::Null => {
            fld(&o, "type", FieldClass::RecType);
            o.extend(le32(0));
        }
        MBody::Shape {
            shape,
            bbox,
            with_m,
        } => {
            let ty = shape.ty;
            fld(&o, "type", FieldClass::RecType);
            o.extend(le32(ty.code()));
            match ty.family() {
                Family::Null => {}
                Family::Point => {
                    let v = shape.parts[0].pts[0];
                    o.extend(lef(v[0]));
                    o.extend(lef(v[1]));
                    match ty {
                        Ty::PointM => o.extend(lef(v[3])),
                        Ty::PointZ => {
                            o.extend(lef(v[2]));
                            if *with_m {
                                o.extend(lef(v[3]));
                            }
                        }
                        _ => {}
                    }
                }
                fam => {
                    for i in 0..4 {
                        o.extend(lef(bbox[i]));
                    }
                    let npts: usize = shape.n_points();
                    if fam != Family::Multipoint {
                        fld(&o, "numparts", FieldClass::NumParts);
                        o.extend(le32(shape.parts.len() as i32));
                    }
                    fld(&o, "numpoints", FieldClass::NumPoints);
                    o.extend(le32(npts as i32));
                    if fam != Family::Multipoint {
                        let mut acc = 0i32;
                        for (k, p) in shape.parts.iter().enumerate() {
                            fld(&o, &format!("part{}", k), FieldClass::PartOffset);
                            o.extend(le32(acc));
                            acc += p.pts.len() as i32;
                        }
                    }
                    if fam == Family::Multipatch {
                        for (k, p) in shape.parts.iter().enumerate() {
                            fld(&o, &format!("kind{}", k), FieldClass::PatchKind);
                            o.extend(le32(p.kind as i32));
                        }
                    }
                    for p in &shape.parts {
                        for v in &p.pts {
                            o.extend(lef(v[0]));
                            o.extend(lef(v[1]));
                        }
                    }
                    if ty.has_z() {
                        o.extend(lef(bbox[4]));
                        o.extend(lef(bbox[5]));
                        for p in &shape.parts {
                            for v in &p.pts {
                                o.extend(lef(v[2]));
                            }
                        }
                    }
                    if ty.carries_m() && *with_m {
                        o.extend(lef(bbox[6]));
                        o.extend(lef(bbox[7]));
                        for p in &shape.parts {
                            for v in &p.pts {
                                o.extend(lef(v[3]));
                            }
                        }
                    }
                }
            }
        }
    }
    o
}

pub fn encode_header(len_words: i32, ty_code: i32, b: &[f64; 8]) -> Vec<u8> {
    let mut o = vec![];
    o.extend(be32(9994));
    o.extend([0u8; 20]);
    o.extend(be32(len_words));
    o.extend(le32(1000));
    o.extend(le32(ty_code));
    // header order: xmin ymin xmax ymax zmin zmax mmin mmax
    for v in b {
        o.extend(lef(*v));
    }
    o
}

pub fn encode(f: &MFile) -> Enc {
    let mut fields = vec![];
    let mut body: Vec<u8> = vec![];
    let mut rec_offsets = vec![];
    let mut rec_content = vec![];
    for (i, r) in f.records.iter().enumerate() {
        let off = 100 + body.len();
        rec_offsets.push(off);
        let mut fl = vec![];
        let content = encode_content(&r.body, &mut fl, off + 8, i);
        fields.push(Field {
            off,
            big_endian: true,
            name: format!("rec{}.number", i),
            class: FieldClass::RecNumber,
        });
        fields.push(Field {
            off: off + 4,
            big_endian: true,
            name: format!("rec{}.length", i),
            class: FieldClass::RecLength,
        });
        fields.extend(fl);
        body.extend(be32(r.number));
        body.extend(be32((content.len() / 2) as i32));
        rec_content.push(content.len());
        body.extend(content);
    }
    let total = 100 + body.len();
    let mut bytes = encode_header((total / 2) as i32, f.ty.code(), &f.header_box);
    bytes.extend(body);
    bytes.extend(&f.trailing);
    let mut hf = vec![
        Field {
            off: 0,
            big_endian: true,
            name: "hdr.filecode".into(),
            class: FieldClass::FileCode,
        },
        Field {
            off: 24,
            big_endian: true,
            name: "hdr.length".into(),
            class: FieldClass::FileLength,
        },
        Field {
            off: 28,
            big_endian: false,
            name: "hdr.version".into(),
            class: FieldClass::Version,
        },
        Field {
            off: 32,
            big_endian: false,
            name: "hdr.type".into(),
            class: FieldClass::HeaderType,
        },
    ];
    hf.extend(fields);
    Enc {
        bytes,
        fields: hf,
        rec_offsets,
        rec_content,
    }
}

/// The .shx that belongs to an encoded .shp (entries in the given order of
/// record indices; identity order = the conventional index).
pub fn encode_shx(f: &MFile, enc: &Enc, order: &[usize]) -> (Vec<u8>, Vec<Field>) {
    let n = order.len();
    let mut bytes = encode_header((50 + 4 * n) as i32, f.ty.code(), &f.header_box);
    let mut fields = vec![
        Field {
            off: 0,
            big_endian: true,
            name: "shx.filecode".into(),
            class: FieldClass::FileCode,
        },
        Field {
            off: 24,
            big_endian: true,
            name: "shx.length".into(),
            class: FieldClass::FileLength,
        },
        Field {
            off: 32,
            big_endian: false,
            name: "shx.type".into(),
            class: FieldClass::HeaderType,
        },
    ];
    for (k, &i) in order.iter().enumerate() {
        fields.push(Field {
            off: bytes.len(),
            big_endian: true,
            name: format!("shx.entry{}.offset", k),
            class: FieldClass::IdxOffset,
        });
        bytes.extend(be32((enc.rec_offsets[i] / 2) as i32));
        fields.push(Field {
            off: bytes.len(),
            big_endian: true,
            name: format!("shx.entry{}.length", k),
            class: FieldClass::IdxLength,
        });
        bytes.extend(be32((enc.rec_content[i] / 2) as i32));
    }
    (bytes, fields)
}

// ---------------------------------------------------------------------
// decoding

#[derive(Clone, Debug)]
pub struct DHeader {
    pub len_words: i32,
    pub version: i32,
    pub ty_code: i32,
    pub bbox: [f64; 8],
}

#[derive(Clone, Debug)]
pub struct DRecord {
    pub offset: usize,
    pub number: i32,
    pub content_words: i32,
    pub ty_code: i32,
    pub read: MRead,
    pub has_m_block: bool,
}

#[derive(Clone, Debug)]
pub struct DFile {
    pub header: DHeader,
    pub records: Vec<DRecord>,
}

fn rd_be32(b: &[u8], o: usize) -> Option<i32> {
    Some(i32::from_be_bytes(b.get(o..o + 4)?.try_into().ok()?))
}
fn rd_le32(b: &[u8], o: usize) -> Option<i32> {
    Some(i32::from_le_bytes(b.get(o..o + 4)?.try_into().ok()?))
}
fn rd_f(b: &[u8], o: usize) -> Option<f64> {
    Some(f64::from_bits(u64::from_le_bytes(
        b.get(o..o + 8)?.try_into().ok()?,
    )))
}

pub fn decode_header(b: &[u8]) -> Result<DHeader, String> {
    if b.len() < 100 {
        return Err(format!("header: only {} bytes", b.len()));
    }
    if rd_be32(b, 0) != Some(9994) {
        return Err(format!("header: file code {:?}", rd_be32(b, 0)));
    }
    if b[4..24].iter().any(|x| *x != 0) {
        return Err("header: unused words not zero".into());
    }
    let mut bb = [0.0; 8];
    for i in 0..8 {
        bb[i] = rd_f(b, 36 + 8 * i).unwrap();
    }
    Ok(DHeader {
        len_words: rd_be32(b, 24).unwrap(),
        version: rd_le32(b, 28).unwrap(),
        ty_code: rd_le32(b, 32).unwrap(),
        bbox: bb,
    })
}

/// Decode the content of one record (`c` = content bytes, type code
/// included).  Strict about sizes: the content must be exactly one of the
/// legal sizes for what it declares.
pub fn decode_content(c: &[u8]) -> Result<(i32, MRead, bool), String> {
    let code = rd_le32(c, 0).ok_or("content: shorter than a type code")?;
    let ty = Ty::from_code(code).ok_or(format!("content: type code {}", code))?;
    let body = &c[4..];
    let need = |n: usize| -> Result<(), String> {
        if body.len() == n {
            Ok(())
        } else {
            Err(format!(
                "content: {} has {} bytes, layout needs {}",
                ty.name(),
                body.len(),
                n
            ))
        }
    };
    match ty.family() {
        Family::Null => {
            need(0)?;
            Ok((
                code,
                MRead {
                    shape: MShape::null(),
                    bbox: None,
                },
                false,
            ))
        }
        Family::Point => {
            let mut p = [0.0, 0.0, 0.0, NO_DATA];
            let mut has_m = false;
            match ty {
                Ty::Point => {
                    need(16)?;
                    p[3] = 0.0;
                }
                Ty::PointM => {
                    need(24)?;
                    p[3] = rd_f(body, 16).unwrap();
                    has_m = true;
                }
                _ => {
                    if body.len() == 32 {
                        p[3] = rd_f(body, 24).unwrap();
                        has_m = true;
                    } else {
                        need(24)?;
                    }
                    p[2] = rd_f(body, 16).unwrap();
                }
            }
            p[0] = rd_f(body, 0).unwrap();
            p[1] = rd_f(body, 8).unwrap();
            Ok((
                code,
                MRead {
                    shape: MShape::point(ty, p),
                    bbox: None,
                },
                has_m,
            ))
        }
        fam => {
            let mut bb = [0.0; 8];
            if body.len() < 32 {
                return Err("content: shorter than a box".into());
            }
            for i in 0..4 {
                bb[i] = rd_f(body, 8 * i).unwrap();
            }
            let mut o = 32;
            let nparts: i64 = if fam == Family::Multipoint {
                1
            } else {
                let v = rd_le32(body, o).ok_or("content: no part count")? as i64;
                o += 4;
                v
            };
            let npts = rd_le32(body, o).ok_or("content: no point count")? as i64;
            o += 4;
            if nparts < 0 || npts < 0 {
                return Err(format!("content: negative counts {} {}", nparts, npts));
            }
            let (nparts, npts) = (nparts as usize, npts as usize);
            // sizes, in u128-free but overflow-safe arithmetic
            let mut fixed = o;
            if fam != Family::Multipoint {
                fixed = fixed.saturating_add(nparts.saturating_mul(4));
            }
            if fam == Family::Multipatch {
                fixed = fixed.saturating_add(nparts.saturating_mul(4));
            }
            fixed = fixed.saturating_add(npts.saturating_mul(16));
            if ty.has_z() {
                fixed = fixed.saturating_add(16).saturating_add(npts.saturating_mul(8));
            }
            let with_m_size = fixed.saturating_add(16).saturating_add(npts.saturating_mul(8));
            let has_m = if ty.carries_m() && body.len() == with_m_size {
                true
            } else if body.len() == fixed {
                false
            } else {
                return Err(format!(
                    "content: {} with {} parts {} points has {} bytes, layout needs {}{}",
                    ty.name(),
                    nparts,
                    npts,
                    body.len(),
                    fixed,
                    if ty.carries_m() {
                        format!(" or {}", with_m_size)
                    } else {
                        String::new()
                    }
                ));
            };
            let mut offs: Vec<usize> = vec![];
            if fam == Family::Multipoint {
                offs.push(0);
            } else {
                for k in 0..nparts {
                    let v = rd_le32(body, o).unwrap();
                    o += 4;
                    if v < 0 || v as usize > npts {
                        return Err(format!("content: part offset {} = {} out of 0..={}", k, v, npts));
                    }
                    if k == 0 && v != 0 {
                        return Err(format!("content: first part offset is {}", v));
                    }
                    if let Some(prev) = offs.last() {
                        if (v as usize) < *prev {
                            return Err(format!("content: part offsets decrease at {}", k));
                        }
                    }
                    offs.push(v as usize);
                }
            }
            let mut kinds = vec![0u8; offs.len()];
            if fam == Family::Multipatch {
                for k in 0..nparts {
                    let v = rd_le32(body, o).unwrap();
                    o += 4;
                    if !(0..=5).contains(&v) {
                        return Err(format!("content: patch kind {} = {}", k, v));
                    }
                    kinds[k] = v as u8;
                }
            }
            let mut pts: Vec<P4> = Vec::with_capacity(npts);
            for _ in 0..npts {
                pts.push([
                    rd_f(body, o).unwrap(),
                    rd_f(body, o + 8).unwrap(),
                    0.0,
                    if ty.carries_m() { NO_DATA } else { 0.0 },
                ]);
                o += 16;
            }
            if ty.has_z() {
                bb[4] = rd_f(body, o).unwrap();
                bb[5] = rd_f(body, o + 8).unwrap();
                o += 16;
                for p in pts.iter_mut() {
                    p[2] = rd_f(body, o).unwrap();
                    o += 8;
                }
            }
            if has_m {
                bb[6] = rd_f(body, o).unwrap();
                bb[7] = rd_f(body, o + 8).unwrap();
                o += 16;
                for p in pts.iter_mut() {
                    p[3] = rd_f(body, o).unwrap();
                    o += 8;
                }
            }
            debug_assert_eq!(o, body.len());
            let mut parts = vec![];
            for k in 0..offs.len() {
                let end = if k + 1 < offs.len() { offs[k + 1] } else { npts };
                parts.push(MPart {
                    kind: kinds[k],
                    pts: pts[offs[k]..end].to_vec(),
                });
            }
            Ok((
                code,
                MRead {
                    shape: MShape { ty, parts },
                    bbox: Some(bb),
                },
                has_m,
            ))
        }
    }
}

pub struct DecodeOpts {
    /// C02 strictness: length field covers the whole byte string, records
    /// numbered 1..n, record type == header type.
    pub strict: bool,
}

/// Scan and decode a whole `.shp`.  With `strict`, every clause of C02 is
/// enforced and the first failing clause is returned by name.  Without, the
/// scan follows the declared length and ignores what lies behind it.
pub fn decode_file(b: &[u8], opts: &DecodeOpts) -> Result<DFile, String> {
    let header = decode_header(b)?;
    if opts.strict {
        if header.version != 1000 {
            return Err(format!("header: version {}", header.version));
        }
        if Ty::from_code(header.ty_code).is_none() {
            return Err(format!("header: type code {}", header.ty_code));
        }
    }
    if header.len_words < 50 {
        return Err(format!("header: length field {} words", header.len_words));
    }
    let declared = header.len_words as usize * 2;
    if opts.strict && declared != b.len() {
        return Err(format!(
            "header: length field says {} bytes, file has {}",
            declared,
            b.len()
        ));
    }
    if declared > b.len() {
        return Err(format!(
            "header: length field says {} bytes, file has only {}",
            declared,
            b.len()
        ));
    }
    let mut o = 100;
    let mut records = vec![];
    while o < declared {
        let number = rd_be32(b, o).filter(|_| o + 8 <= declared).ok_or("record header cut")?;
        let words = rd_be32(b, o + 4).unwrap();
        if words < 2 {
            return Err(format!("record {}: content length {} words", records.len(), words));
        }
        let clen = words as usize * 2;
        if o + 8 + clen > declared {
            return Err(format!(
                "record {}: content of {} bytes overruns the declared length",
                records.len(),
                clen
            ));
        }
        let (code, read, has_m) = decode_content(&b[o + 8..o + 8 + clen])
            .map_err(|e| format!("record {}: {}", records.len(), e))?;
        if opts.strict {
            if number != records.len() as i32 + 1 {
                return Err(format!("record {}: numbered {}", records.len(), number));
            }
            if code != header.ty_code {
                return Err(format!(
                    "record {}: type {} in a file of type {}",
                    records.len(),
                    code,
                    header.ty_code
                ));
            }
        }
        records.push(DRecord {
            offset: o,
            number,
            content_words: words,
            ty_code: code,
            read,
            has_m_block: has_m,
        });
        o += 8 + clen;
    }
    Ok(DFile { header, records })
}

/// Parse a .shx independently: header + (offset, length) pairs in words.
pub fn decode_shx(b: &[u8]) -> Result<(DHeader, Vec<(i32, i32)>), String> {
    let h = decode_header(b)?;
    if h.len_words as usize * 2 != b.len() {
        return Err(format!(
            "shx: length field says {} bytes, file has {}",
            h.len_words as i64 * 2,
            b.len()
        ));
    }
    if (b.len() - 100) % 8 != 0 {
        return Err("shx: body not a multiple of 8".into());
    }
    let mut v = vec![];
    let mut o = 100;
    while o < b.len() {
        v.push((rd_be32(b, o).unwrap(), rd_be32(b, o + 4).unwrap()));
        o += 8;
    }
    Ok((h, v))
}
