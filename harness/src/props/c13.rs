//! C13: truncated or failing sources give errors and only genuine shapes.
//! fault_enumeration over every truncation length, every failing read/seek
//! and the short-read schedule family.

use crate::bridge::*;
use crate::dev::{Chunking, Dev, FaultMode, Op, INJECTED};
use crate::engine::*;
use crate::model::*;
use crate::refmodel::codec::{self, MBody, MFile};
use crate::structs::*;
use serde_json::{json, Value};
use shapefile::{Shape, ShapeReader, ShapeWriter};
use std::time::Instant;

#[derive(Clone, Debug)]
pub enum Plan {
    /// keep the first `len` bytes of the .shp; read with or without the intact .shx
    CutShp { len: usize, with_shx: bool },
    CutShx { len: usize },
    /// fail operation k on source dev (0 .shp, 1 .shx) during the traversal
    Fault { dev: u8, k: u64, persistent: bool },
    ShortRead { kind: u8, arg: u64 },
    /// operations k1 < k2 of the .shp fail once each; the iteration goes on after an error
    Pair { k1: u64, k2: u64, with_shx: bool },
    /// the files on disk, one of them truncated, opened by path: same answers as the in-memory sources
    DiskCut { shx: bool, len: usize },
    /// n point records listed by the index in an order other than the file order (kind 0: n = 3, order [2,0,1];
    /// kind 1: n = 40, reversed), the .shp cut to `len` bytes, the iteration going on after errors
    PermCut { kind: u8, len: usize },
    /// `before` items are iterated, then seek(i) (access 0) or read_nth_shape(i) (access 1) is called, then the
    /// iteration runs to its end; operation k of the .shp fails once, a failing seek leaving the source where it was
    /// (land 0), at its target (1) or at offset 0 (2)
    Probe { before: usize, access: u8, i: usize, k: u64, land: u8, with_shx: bool },
}

#[derive(Clone, Debug)]
pub struct Case {
    pub ty: Ty,
    /// structure indices in the reduced set
    pub seq: Vec<usize>,
    /// file produced by the library's writer (false) or by RefCodec (true)
    pub refcodec: bool,
    /// RefCodec file with 6 / 14 bytes of filler in front of every record (read through the index)
    pub gapped: bool,
    /// one record whose (last) part has this many points instead of the small sequence (0 = off)
    pub big: usize,
    pub plan: Plan,
}

impl Case {
    pub fn to_json(&self) -> Value {
        let plan = match &self.plan {
            Plan::CutShp { len, with_shx } => json!({"cut": "shp", "len": len, "with_shx": with_shx}),
            Plan::CutShx { len } => json!({"cut": "shx", "len": len}),
            Plan::Fault { dev, k, persistent } => json!({"fault_on": (["shp", "shx"][*dev as usize]), "operation": k, "persistent": persistent}),
            Plan::ShortRead { kind, arg } => json!({"short_read": (["uniform", "one-op-1-byte", "one-op-all-but-last"][*kind as usize]), "arg": arg}),
            Plan::Pair { k1, k2, with_shx } => json!({"pair_on_shp": [k1, k2], "with_shx": with_shx}),
            Plan::DiskCut { shx, len } => json!({"disk_cut": (if *shx { "shx" } else { "shp" }), "len": len}),
            Plan::PermCut { kind, len } => json!({"perm_cut": kind, "len": len}),
            Plan::Probe { before, access, i, k, land, with_shx } => json!({"probe_after": before, "access": (["seek", "read_nth_shape"][*access as usize]), "i": i, "operation": k, "failing_seek_lands": (["where it was", "at its target", "at offset 0"][*land as usize]), "with_shx": with_shx}),
        };
        json!({"ty": self.ty.name(), "seq": self.seq, "refcodec": self.refcodec, "gapped": self.gapped, "big": self.big, "plan": plan})
    }
    pub fn from_json(v: &Value) -> Option<Case> {
        let p = v.get("plan")?;
        let plan = if let Some(c) = p.get("cut") {
            if c.as_str()? == "shp" {
                Plan::CutShp { len: p.get("len")?.as_u64()? as usize, with_shx: p.get("with_shx")?.as_bool()? }
            } else {
                Plan::CutShx { len: p.get("len")?.as_u64()? as usize }
            }
        } else if let Some(a) = p.get("pair_on_shp").and_then(|x| x.as_array()) {
            Plan::Pair { k1: a.first()?.as_u64()?, k2: a.get(1)?.as_u64()?, with_shx: p.get("with_shx")?.as_bool()? }
        } else if let Some(b) = p.get("probe_after").and_then(|x| x.as_u64()) {
            Plan::Probe {
                before: b as usize,
                access: if p.get("access")?.as_str()? == "seek" { 0 } else { 1 },
                i: p.get("i")?.as_u64()? as usize,
                k: p.get("operation")?.as_u64()?,
                land: ["where it was", "at its target", "at offset 0"].iter().position(|s| Some(*s) == p.get("failing_seek_lands").and_then(|x| x.as_str()))? as u8,
                with_shx: p.get("with_shx")?.as_bool()?,
            }
        } else if let Some(k) = p.get("perm_cut").and_then(|x| x.as_u64()) {
            Plan::PermCut { kind: k as u8, len: p.get("len")?.as_u64()? as usize }
        } else if let Some(c) = p.get("disk_cut") {
            Plan::DiskCut { shx: c.as_str()? == "shx", len: p.get("len")?.as_u64()? as usize }
        } else if let Some(d) = p.get("fault_on") {
            Plan::Fault { dev: if d.as_str()? == "shp" { 0 } else { 1 }, k: p.get("operation")?.as_u64()?, persistent: p.get("persistent")?.as_bool()? }
        } else {
            Plan::ShortRead {
                kind: match p.get("short_read")?.as_str()? {
                    "uniform" => 0,
                    "one-op-1-byte" => 1,
                    _ => 2,
                },
                arg: p.get("arg")?.as_u64()?,
            }
        };
        Some(Case {
            ty: Ty::from_name(v.get("ty")?.as_str()?)?,
            seq: v.get("seq")?.as_array()?.iter().map(|x| x.as_u64().map(|u| u as usize)).collect::<Option<Vec<_>>>()?,
            refcodec: v.get("refcodec")?.as_bool()?,
            gapped: v.get("gapped").and_then(|x| x.as_bool()).unwrap_or(false),
            big: v.get("big").and_then(|x| x.as_u64()).unwrap_or(0) as usize,
            plan,
        })
    }
}

pub struct Fixture {
    pub shp: Vec<u8>,
    pub shx: Vec<u8>,
    /// originals as constructed
    pub recs: Vec<MRead>,
    /// byte offset where each record ends (exclusive)
    pub ends: Vec<usize>,
}

pub fn fixture(ty: Ty, seq: &[usize], refcodec: bool) -> Fixture {
    fixture_ext(ty, seq, refcodec, false, 0)
}

pub fn fixture_ext(ty: Ty, seq: &[usize], refcodec: bool, gapped: bool, big: usize) -> Fixture {
    let red = reduced_set(ty);
    let mut libs: Vec<Shape> = seq.iter().map(|i| to_lib(&red[*i])).collect();
    if big > 0 {
        libs = vec![to_lib(&red[0]), to_lib(&crate::structs::sized(ty, big))];
    }
    if gapped {
        let recs: Vec<MRead> = libs.iter().map(from_lib).collect();
        let mut body: Vec<u8> = vec![];
        let mut shx_entries: Vec<u8> = vec![];
        let mut ends = vec![];
        for (i, r) in recs.iter().enumerate() {
            body.extend(std::iter::repeat(0xEEu8).take(if i % 2 == 0 { 6 } else { 14 }));
            let b = MBody::Shape { shape: r.shape.clone(), bbox: r.bbox.unwrap_or(codec::true_bbox(&r.shape)), with_m: true };
            let mut f = vec![];
            let content = codec::encode_content(&b, &mut f, 0, 0);
            shx_entries.extend((((100 + body.len()) / 2) as i32).to_be_bytes());
            shx_entries.extend(((content.len() / 2) as i32).to_be_bytes());
            body.extend((i as i32 + 1).to_be_bytes());
            body.extend(((content.len() / 2) as i32).to_be_bytes());
            body.extend(content);
            ends.push(100 + body.len());
        }
        let mut shp = codec::encode_header(((100 + body.len()) / 2) as i32, ty.code(), &[0.0; 8]);
        shp.extend(body);
        let mut shx = codec::encode_header((50 + 4 * recs.len()) as i32, ty.code(), &[0.0; 8]);
        shx.extend(shx_entries);
        return Fixture { shp, shx, recs, ends };
    }
    let recs: Vec<MRead> = libs.iter().map(from_lib).collect();
    let (shp, shx);
    if refcodec {
        let f = MFile {
            ty,
            header_box: [0.0; 8],
            records: recs
                .iter()
                .enumerate()
                .map(|(i, r)| codec::MRecord { number: i as i32 + 1, body: MBody::Shape { shape: r.shape.clone(), bbox: r.bbox.unwrap_or(codec::true_bbox(&r.shape)), with_m: true } })
                .collect(),
            trailing: vec![],
        };
        let enc = codec::encode(&f);
        let order: Vec<usize> = (0..seq.len()).collect();
        shx = codec::encode_shx(&f, &enc, &order).0;
        shp = enc.bytes;
    } else {
        let (a, b) = (Dev::quiet(vec![]), Dev::quiet(vec![]));
        {
            let mut w = ShapeWriter::with_shx(a.clone(), b.clone());
            for s in &libs {
                write_shape(&mut w, s).expect("write");
            }
        }
        shp = a.data();
        shx = b.data();
    }
    let df = codec::decode_file(&shp, &codec::DecodeOpts { strict: true }).expect("fixture is a valid file");
    let ends = df.records.iter().map(|r| r.offset + 8 + r.content_words as usize * 2).collect();
    Fixture { shp, shx, recs, ends }
}

/// A full traversal; every API call's answer is recorded.
#[derive(Clone, Debug, PartialEq)]
pub enum Ans {
    Open(Result<(), String>),
    /// items until the first Err (inclusive) or the end
    Iter(Vec<Result<usize, String>>, bool),
    Nth(usize, Option<Result<usize, String>>),
    Seek(usize, Result<(), String>),
}

fn which(recs: &[MRead], s: &Shape) -> Result<usize, String> {
    let m = from_lib(s);
    recs.iter().position(|r| super::c01_c02::cmp_read(r, &m).is_none()).ok_or_else(|| "a shape that is not in the file".to_string())
}

/// Answers and, per answer, the call id used on the devices.
pub fn traverse(fx: &Fixture, shp: Dev, shx: Option<Dev>) -> Vec<Ans> {
    let n = fx.recs.len();
    let mut out = vec![];
    let set = |c: u32| {
        shp.set_call(c);
        if let Some(x) = &shx {
            x.set_call(c);
        }
    };
    set(0);
    let opened = match &shx {
        Some(x) => ShapeReader::with_shx(shp.clone(), x.clone()),
        None => ShapeReader::new(shp.clone()),
    };
    let mut r = match opened {
        Ok(r) => {
            out.push(Ans::Open(Ok(())));
            r
        }
        Err(e) => {
            out.push(Ans::Open(Err(err_kind(&e))));
            return out;
        }
    };
    set(1);
    {
        let mut items = vec![];
        let mut ended = false;
        let mut it = r.iter_shapes();
        loop {
            if items.len() > n + 3 {
                break;
            }
            match it.next() {
                None => {
                    ended = true;
                    break;
                }
                Some(Ok(s)) => items.push(which(&fx.recs, &s)),
                Some(Err(e)) => {
                    items.push(Err(err_kind(&e)));
                    break;
                }
            }
        }
        out.push(Ans::Iter(items, ended));
    }
    if shx.is_some() {
        for i in 0..n {
            set(2 + 2 * i as u32);
            out.push(Ans::Nth(i, r.read_nth_shape(i).map(|x| x.map_err(|e| err_kind(&e)).and_then(|s| which(&fx.recs, &s)))));
            set(3 + 2 * i as u32);
            out.push(Ans::Seek(i, r.seek(i).map_err(|e| err_kind(&e))));
        }
    }
    out
}

/// A traversal that goes on after errors: open (call 0), next() number j (call 10 + j) until the iterator
/// ends or n + 4 calls were made, read_nth_shape(i) (call 100 + i).  Per call: what it returned
/// (Some(Ok(record)), Some(Err), None).
pub fn traverse_on(fx: &Fixture, shp: Dev, shx: Option<Dev>) -> Vec<(u32, Option<Result<usize, String>>)> {
    traverse_on_n(fx, shp, shx, fx.recs.len() + 4)
}

pub fn traverse_on_n(fx: &Fixture, shp: Dev, shx: Option<Dev>, max_next: usize) -> Vec<(u32, Option<Result<usize, String>>)> {
    let n = fx.recs.len();
    let mut out = vec![];
    let set = |c: u32| {
        shp.set_call(c);
        if let Some(x) = &shx {
            x.set_call(c);
        }
    };
    set(0);
    let opened = match &shx {
        Some(x) => ShapeReader::with_shx(shp.clone(), x.clone()),
        None => ShapeReader::new(shp.clone()),
    };
    let mut r = match opened {
        Ok(r) => {
            out.push((0, Some(Ok(0))));
            r
        }
        Err(e) => {
            out.push((0, Some(Err(err_kind(&e)))));
            return out;
        }
    };
    {
        let mut it = r.iter_shapes();
        for j in 0..max_next as u32 {
            set(10 + j);
            match it.next() {
                None => {
                    out.push((10 + j, None));
                    break;
                }
                Some(x) => out.push((10 + j, Some(x.map_err(|e| err_kind(&e)).and_then(|s| which(&fx.recs, &s))))),
            }
        }
    }
    if shx.is_some() {
        for i in 0..n {
            set(100 + i as u32);
            out.push((100 + i as u32, r.read_nth_shape(i).map(|x| x.map_err(|e| err_kind(&e)).and_then(|s| which(&fx.recs, &s)))));
        }
    }
    out
}

/// `before` items, one access, then the iteration to its end.  Call ids: 0 open, 10+j the items before, 50 the
/// access, 60+j the items after.
pub fn probe_on(fx: &Fixture, shp: Dev, shx: Option<Dev>, before: usize, access: u8, i: usize) -> Vec<(u32, Option<Result<usize, String>>)> {
    let mut out = vec![];
    let set = |c: u32| {
        shp.set_call(c);
        if let Some(x) = &shx {
            x.set_call(c);
        }
    };
    set(0);
    let opened = match &shx {
        Some(x) => ShapeReader::with_shx(shp.clone(), x.clone()),
        None => ShapeReader::new(shp.clone()),
    };
    let mut r = match opened {
        Ok(r) => r,
        Err(e) => {
            out.push((0, Some(Err(err_kind(&e)))));
            return out;
        }
    };
    let item = |x: Result<Shape, shapefile::Error>| x.map_err(|e| err_kind(&e)).and_then(|s| which(&fx.recs, &s));
    {
        let mut it = r.iter_shapes();
        for j in 0..before as u32 {
            set(10 + j);
            out.push((10 + j, it.next().map(item)));
        }
    }
    set(50);
    if access == 0 {
        out.push((50, Some(r.seek(i).map(|_| usize::MAX).map_err(|e| err_kind(&e)))));
    } else {
        out.push((50, r.read_nth_shape(i).map(item)));
    }
    let mut it = r.iter_shapes();
    for j in 0..(fx.recs.len() + 3) as u32 {
        set(60 + j);
        let a = it.next().map(item);
        let end = a.is_none();
        out.push((60 + j, a));
        if end {
            break;
        }
    }
    out
}

/// The call during which the operation failed returns an error; no shape is invented; the items that follow the
/// access are records of the file in file order; and, the source being healthy again and the file valid, nothing
/// but an I/O error may be reported (any other error means bytes were decoded out of place).
pub fn judge_probe(ans: &[(u32, Option<Result<usize, String>>)], fired: &[u32]) -> Vec<(String, String)> {
    let mut out = vec![];
    for (c, a) in ans {
        match a {
            Some(Err(e)) if e.contains("not in the file") => out.push(("after-failed-access:invented-shape".to_string(), format!("call {}: {}; answers {:?}", c, e, ans))),
            Some(Err(e)) if *c >= 60 && !e.starts_with("Io") && !e.starts_with("MissingIndex") => out.push(("after-failed-access:decoded-out-of-place".to_string(), format!("call {} reports {} on a valid file whose source is healthy again; answers {:?}", c, e, ans))),
            _ => {}
        }
    }
    let after: Vec<usize> = ans.iter().filter(|(c, _)| *c >= 60).filter_map(|(_, a)| if let Some(Ok(k)) = a { Some(*k) } else { None }).collect();
    if after.windows(2).any(|w| w[1] != w[0] + 1) {
        out.push(("after-failed-access:records-out-of-order".to_string(), format!("answers {:?}", ans)));
    }
    for c in fired {
        match ans.iter().find(|(ac, _)| ac == c) {
            Some((_, Some(Err(_)))) => {}
            other => out.push(("after-failed-access:failure-not-reported".to_string(), format!("an operation failed during call {}, which answered {:?}", c, other))),
        }
    }
    out
}

/// every call during which an operation failed returned an error; nothing is invented; random access
/// returns the record asked for
pub fn judge_pair(ans: &[(u32, Option<Result<usize, String>>)], fired: &[u32]) -> Vec<(String, String)> {
    let mut out = vec![];
    for (c, a) in ans {
        match a {
            Some(Err(e)) if e.contains("not in the file") => out.push(("two-faults:invented-shape".to_string(), format!("call {}: {}", c, e))),
            Some(Ok(k)) if *c >= 100 && *k != (*c - 100) as usize => out.push(("two-faults:random-access-wrong-record".to_string(), format!("read_nth_shape({}) returned record {}", c - 100, k))),
            _ => {}
        }
    }
    for c in fired {
        match ans.iter().find(|(ac, _)| ac == c) {
            Some((_, Some(Err(_)))) => {}
            other => out.push((
                format!("two-faults:failure-not-reported:{}", if *c == 0 { "open" } else if *c < 100 { "iteration" } else { "read_nth_shape" }),
                format!("an operation of the source failed during call {} ({}), which returned {:?}", c, if *c == 0 { "open".to_string() } else if *c < 100 { format!("next() number {}", c - 10) } else { format!("read_nth_shape({})", c - 100) }, other.map(|x| &x.1)),
            )),
        }
    }
    out
}

/// open + iterate (up to the first error) + random access, on any source type
fn traverse_any<T: std::io::Read + std::io::Seek>(fx: &Fixture, opened: Result<ShapeReader<T>, shapefile::Error>, indexed: bool) -> Vec<Ans> {
    let n = fx.recs.len();
    let mut out = vec![];
    let mut r = match opened {
        Ok(r) => {
            out.push(Ans::Open(Ok(())));
            r
        }
        Err(e) => {
            out.push(Ans::Open(Err(err_kind(&e))));
            return out;
        }
    };
    {
        let mut items = vec![];
        let mut ended = false;
        let mut it = r.iter_shapes();
        loop {
            if items.len() > n + 3 {
                break;
            }
            match it.next() {
                None => {
                    ended = true;
                    break;
                }
                Some(Ok(s)) => items.push(which(&fx.recs, &s)),
                Some(Err(e)) => {
                    items.push(Err(err_kind(&e)));
                    break;
                }
            }
        }
        out.push(Ans::Iter(items, ended));
    }
    if indexed {
        for i in 0..n {
            out.push(Ans::Nth(i, r.read_nth_shape(i).map(|x| x.map_err(|e| err_kind(&e)).and_then(|s| which(&fx.recs, &s)))));
        }
    }
    out
}

/// The two files on disk (one of them cut) opened with `ShapeReader::from_path`, against the same bytes in
/// memory opened with `with_shx`.
pub fn disk_vs_memory(fx: &Fixture, cut_shx: bool, len: usize) -> (Vec<Ans>, Vec<Ans>) {
    let (shp, shx) = if cut_shx { (&fx.shp[..], &fx.shx[..len]) } else { (&fx.shp[..len], &fx.shx[..]) };
    let dir = super::c01_c02::scratch_dir();
    let tid: String = format!("{:?}", std::thread::current().id()).chars().filter(|c| c.is_ascii_digit()).collect();
    let path = dir.join(format!("c13-{}.shp", tid));
    std::fs::write(&path, shp).expect("scratch write");
    std::fs::write(path.with_extension("shx"), shx).expect("scratch write");
    let disk = traverse_any(fx, ShapeReader::from_path(&path), true);
    let _ = std::fs::remove_file(&path);
    let _ = std::fs::remove_file(path.with_extension("shx"));
    let mem = traverse_any(fx, ShapeReader::with_shx(Dev::quiet(shp.to_vec()), Dev::quiet(shx.to_vec())), true);
    (disk, mem)
}

/// n records of type `ty` stored in file order, listed by the index in `order` (entry j -> record order[j])
pub fn permuted_fixture(ty: Ty, kind: u8) -> (Fixture, Vec<usize>) {
    let n = if kind == 0 { 3 } else { 40 };
    let order: Vec<usize> = if kind == 0 { vec![2, 0, 1] } else { (0..n).rev().collect() };
    let red = reduced_set(ty);
    let recs: Vec<MRead> = (0..n)
        .map(|k| {
            let mut s = red[k % red.len()].clone();
            for p in s.parts.iter_mut() {
                for q in p.pts.iter_mut() {
                    q[0] += 128.0 * (k / red.len()) as f64 + k as f64;
                }
            }
            from_lib(&to_lib(&s))
        })
        .collect();
    let mut body: Vec<u8> = vec![];
    let mut offs = vec![];
    let mut lens = vec![];
    let mut ends = vec![];
    for (i, r) in recs.iter().enumerate() {
        let b = MBody::Shape { shape: r.shape.clone(), bbox: r.bbox.unwrap_or(codec::true_bbox(&r.shape)), with_m: true };
        let mut f = vec![];
        let content = codec::encode_content(&b, &mut f, 0, 0);
        offs.push(100 + body.len());
        lens.push(content.len());
        body.extend((i as i32 + 1).to_be_bytes());
        body.extend(((content.len() / 2) as i32).to_be_bytes());
        body.extend(content);
        ends.push(100 + body.len());
    }
    let mut shp = codec::encode_header(((100 + body.len()) / 2) as i32, ty.code(), &[0.0; 8]);
    shp.extend(body);
    let mut shx = codec::encode_header((50 + 4 * n) as i32, ty.code(), &[0.0; 8]);
    for j in 0..n {
        shx.extend(((offs[order[j]] / 2) as i32).to_be_bytes());
        shx.extend(((lens[order[j]] / 2) as i32).to_be_bytes());
    }
    (Fixture { shp, shx, recs, ends }, order)
}

/// the index lists the records in `order`; the .shp is cut to `len` bytes; the iteration goes on after errors:
/// entry j comes back as record order[j] when that record is wholly retained, as an I/O error when it is not
pub fn perm_cut_verdicts(fx: &Fixture, order: &[usize], len: usize) -> Vec<(String, String)> {
    let mut out = vec![];
    let n = order.len();
    let mut small = Fixture { shp: fx.shp.clone(), shx: fx.shx.clone(), recs: fx.recs.clone(), ends: fx.ends.clone() };
    small.recs = fx.recs.clone();
    let ans = traverse_on_n(&small, Dev::quiet(fx.shp[..len].to_vec()), Some(Dev::quiet(fx.shx.clone())), n + 2);
    for j in 0..n {
        let whole = fx.ends[order[j]] <= len;
        for (what, call) in [("iteration", 10 + j as u32), ("read_nth_shape", 100 + j as u32)] {
            let a = ans.iter().find(|(c, _)| *c == call).map(|x| &x.1);
            let ok = match (whole, a) {
                (true, Some(Some(Ok(k)))) => *k == order[j],
                (false, Some(Some(Err(e)))) => is_io(e),
                _ => false,
            };
            if !ok {
                out.push((
                    format!("permuted-index-cut:{}:{}", what, if whole { "retained-record-not-returned" } else { "cut-record-not-an-io-error" }),
                    format!("{} bytes of the .shp kept; index entry {} addresses record {} ({}): {} answered {:?}", len, j, order[j], if whole { "wholly retained" } else { "cut" }, what, a),
                ));
                return out;
            }
        }
    }
    out
}

fn is_injected(e: &str) -> bool {
    // the call in progress must yield an error for the failed operation; the
    // library passes the source's own error through as Error::IoError, but
    // any error value satisfies the statement ("yields that error" is read
    // as: does not swallow it), except one that claims an invented shape
    let _ = INJECTED;
    !e.contains("not in the file")
}
fn is_io(e: &str) -> bool {
    e.starts_with("IoError")
}

pub fn judge(case: &Case, fx: &Fixture, base: &[Ans], base_logs: (&[Op], &[Op]), ans: &[Ans]) -> Vec<(String, String)> {
    let mut out = vec![];
    let n = fx.recs.len();
    // nothing invented, anywhere
    for a in ans {
        let bad = match a {
            Ans::Iter(items, _) => items.iter().find_map(|i| i.as_ref().err().filter(|e| e.contains("not in the file")).cloned()),
            Ans::Nth(_, Some(Err(e))) if e.contains("not in the file") => Some(e.clone()),
            _ => None,
        };
        if let Some(e) = bad {
            out.push(("invented-shape".into(), e));
        }
        if let Ans::Nth(i, Some(Ok(k))) = a {
            if i != k {
                out.push(("random-access-wrong-record".into(), format!("read_nth_shape({}) returned record {}", i, k)));
            }
        }
    }
    match &case.plan {
        Plan::CutShp { len, with_shx } => {
            let open_ok = matches!(ans.first(), Some(Ans::Open(Ok(()))));
            if (*len >= 100) != open_ok {
                out.push(("open-vs-header-length".into(), format!("{} bytes kept, open = {:?}", len, ans.first())));
            }
            if open_ok {
                let whole = fx.ends.iter().filter(|e| **e <= *len).count();
                if let Some(Ans::Iter(items, ended)) = ans.get(1) {
                    let oks: Vec<usize> = items.iter().take_while(|i| i.is_ok()).map(|i| *i.as_ref().unwrap()).collect();
                    let expect: Vec<usize> = (0..whole).collect();
                    if oks != expect {
                        out.push((
                            format!("records-inside-cut[{}]", if *with_shx { "shx" } else { "no-shx" }),
                            format!("{} bytes kept hold {} whole records, iteration returned {:?} before the first error", len, whole, oks),
                        ));
                    }
                    if whole < n {
                        // the header promises more: the cut record is reported as an I/O error
                        match items.get(whole) {
                            Some(Err(e)) if is_io(e) => {}
                            other => out.push((
                                format!("cut-record-not-reported[{}]", if *with_shx { "shx" } else { "no-shx" }),
                                format!("{} bytes kept: after {} whole records the next item is {:?} (ended: {})", len, whole, other, ended),
                            )),
                        }
                    }
                }
            }
        }
        Plan::CutShx { len } => {
            let _ = len;
            // with_shx fails, or whatever is returned equals the originals (checked above: nothing invented);
            // items that are Ok must be in index order
            if let Some(Ans::Iter(items, _)) = ans.get(1) {
                let oks: Vec<usize> = items.iter().take_while(|i| i.is_ok()).map(|i| *i.as_ref().unwrap()).collect();
                if oks != (0..oks.len()).collect::<Vec<_>>() {
                    out.push(("truncated-index-order".into(), format!("iteration returned {:?}", oks)));
                }
            }
        }
        Plan::Fault { dev, k, .. } => {
            let log = if *dev == 0 { base_logs.0 } else { base_logs.1 };
            let call = match log.get(*k as usize) {
                Some(o) => o.call() as usize,
                None => return out,
            };
            // call id -> answer index: 0 open, 1 iter, then nth/seek alternating
            let a = ans.get(call);
            let b = base.get(call);
            // answers before the failing call are those of the healthy run
            for i in 0..call.min(ans.len()) {
                if ans[i] != base[i] {
                    out.push(("earlier-answer-differs".into(), format!("answer {}: {:?} vs healthy {:?}", i, ans[i], base[i])));
                    break;
                }
            }
            let reported = match a {
                Some(Ans::Open(Err(e))) => is_injected(e),
                Some(Ans::Iter(items, _)) => matches!(items.last(), Some(Err(e)) if is_injected(e)),
                Some(Ans::Nth(_, Some(Err(e)))) => is_injected(e),
                Some(Ans::Seek(_, Err(e))) => is_injected(e),
                _ => false,
            };
            if !reported {
                out.push((
                    format!("failure-not-reported:{}", match b { Some(Ans::Open(_)) => "open", Some(Ans::Iter(..)) => "iteration", Some(Ans::Nth(..)) => "read_nth_shape", Some(Ans::Seek(..)) => "seek", None => "?" }),
                    format!("operation {} on .{} fails during call {}; answer: {:?}", k, ["shp", "shx"][*dev as usize], call, a),
                ));
            }
            if let Some(Ans::Iter(items, _)) = a {
                // items before the error are the genuine records in order
                let oks: Vec<usize> = items.iter().take_while(|i| i.is_ok()).map(|i| *i.as_ref().unwrap()).collect();
                if oks != (0..oks.len()).collect::<Vec<_>>() {
                    out.push(("items-before-failure".into(), format!("{:?}", oks)));
                }
            }
        }
        Plan::Pair { .. } | Plan::DiskCut { .. } | Plan::PermCut { .. } | Plan::Probe { .. } => {}
        Plan::ShortRead { .. } => {
            if ans != base {
                out.push(("short-read-differs".into(), format!("traversal differs from the unrestricted source: {:?} vs {:?}", ans, base)));
            }
        }
    }
    out
}

const UNIFORM: [u64; 11] = [1, 2, 3, 4, 5, 7, 8, 9, 15, 16, 17];

fn run_fixture(ty: Ty, seq: &[usize], refcodec: bool, ctx: &mut Ctx, tick: &dyn Fn()) {
    run_fixture_ext(ty, seq, refcodec, false, 0, ctx, tick)
}

fn run_fixture_ext(ty: Ty, seq: &[usize], refcodec: bool, gapped: bool, big: usize, ctx: &mut Ctx, tick: &dyn Fn()) {
    let fx = fixture_ext(ty, seq, refcodec, gapped, big);
    // healthy traversals (with and without index) on logging devices
    let (bs, bx) = (Dev::with_data(fx.shp.clone()), Dev::with_data(fx.shx.clone()));
    let base = traverse(&fx, bs.clone(), Some(bx.clone()));
    let (log_s, log_x) = (bs.log(), bx.log());
    let bs2 = Dev::with_data(fx.shp.clone());
    let base_noshx = traverse(&fx, bs2.clone(), None);
    let log_s2 = bs2.log();
    let mut plans: Vec<(Plan, bool)> = vec![]; // (plan, traverse with index)
    let shp_cuts: Vec<usize> = if fx.shp.len() > 40_000 {
        // large file: the last 48 bytes, around every power of two and every MiB, and a coarse sweep
        let mut c: Vec<usize> = (1..=48).map(|j| fx.shp.len() - j).collect();
        for k in 7..22 {
            for d in 0..3usize {
                c.push((1 << k) + d);
                c.push((1usize << k) - d);
            }
        }
        let mut m = 1usize << 20;
        while m < fx.shp.len() + 200 {
            for d in 0..160usize {
                c.push(m + d);
            }
            m += 1 << 20;
        }
        c.extend((0..fx.shp.len()).step_by(4099));
        c.sort_unstable();
        c.dedup();
        c.into_iter().filter(|l| *l <= fx.shp.len()).collect()
    } else {
        (0..=fx.shp.len()).collect()
    };
    for len in shp_cuts {
        plans.push((Plan::CutShp { len, with_shx: true }, true));
        if !gapped {
            plans.push((Plan::CutShp { len, with_shx: false }, false));
        }
    }
    for len in 0..=fx.shx.len() {
        plans.push((Plan::CutShx { len }, true));
    }
    for persistent in [false, true] {
        for k in 0..log_s.len() as u64 {
            plans.push((Plan::Fault { dev: 0, k, persistent }, true));
        }
        for k in 0..log_x.len() as u64 {
            plans.push((Plan::Fault { dev: 1, k, persistent }, true));
        }
        if !gapped {
            for k in 0..log_s2.len() as u64 {
                plans.push((Plan::Fault { dev: 0, k, persistent }, false));
            }
        }
    }
    if fx.shp.len() > 40_000 {
        // large file: the per-operation fault sweep would be quadratic; keep cuts and short reads
        plans.retain(|(p, _)| !matches!(p, Plan::Fault { .. }));
    }
    let nreads = log_s.iter().filter(|o| matches!(o, Op::Read { .. })).count() as u64;
    for c in UNIFORM {
        plans.push((Plan::ShortRead { kind: 0, arg: c }, true));
        if !gapped {
            plans.push((Plan::ShortRead { kind: 0, arg: c }, false));
        }
    }
    for j in 0..nreads.min(if fx.shp.len() > 40_000 { 64 } else { 4000 }) {
        plans.push((Plan::ShortRead { kind: 1, arg: j }, true));
        plans.push((Plan::ShortRead { kind: 2, arg: j }, true));
    }
    // small files: every pair of failing operations on the .shp (the iteration goes on after an error), and the
    // by-path route against the in-memory route for every truncation of either file
    if seq.len() <= 2 && !gapped && big == 0 && !refcodec {
        for with_shx in [true, false] {
            let l = (if with_shx { log_s.len() } else { log_s2.len() }) as u64 + 4;
            for k1 in 0..l {
                for k2 in k1 + 1..l {
                    let case = Case { ty, seq: seq.to_vec(), refcodec, gapped, big, plan: Plan::Pair { k1, k2, with_shx } };
                    let (a, b) = (Dev::with_data(fx.shp.clone()), Dev::quiet(fx.shx.clone()));
                    a.fail_at(k1, FaultMode::OneShot);
                    a.fail_at(k2, FaultMode::OneShot);
                    let run = catch(|| traverse_on(&fx, a.clone(), if with_shx { Some(b) } else { None }));
                    if a.faults_fired() < 2 {
                        continue;
                    }
                    let mut h = Fnv::new();
                    h.str(&case.to_json().to_string());
                    match run {
                        Ok(ans) => {
                            ctx.lib_calls += ans.len() as u64;
                            let mut oh = Fnv::new();
                            oh.str(&format!("{:?}", ans));
                            ctx.case_done(h.finish(), true, oh.finish());
                            let mut fired: Vec<u32> = a.log().iter().filter_map(|o| if let Op::Failed { call, .. } = o { Some(*call) } else { None }).collect();
                            fired.dedup();
                            for (sig, d) in judge_pair(&ans, &fired) {
                                ctx.violation(format!("{}:{}", ty.name(), sig), || case.to_json(), || d);
                            }
                        }
                        Err(p) => {
                            ctx.case_done(h.finish(), true, 1);
                            ctx.violation(format!("{}:{}", ty.name(), p.sig()), || case.to_json(), || format!("{}:{} {}", p.file, p.line, p.msg));
                        }
                    }
                    tick();
                }
            }
        }
        // one failing operation around an access in the middle of an iteration, the iteration going on afterwards
        let n = seq.len();
        for with_shx in [true, false] {
            for before in 0..=n {
                for (access, i) in (0..=n).map(|i| (0u8, i)).chain((0..n).map(|i| (1u8, i))) {
                    for land in 0..3u8 {
                        let mut k = 0u64;
                        loop {
                            let case = Case { ty, seq: seq.to_vec(), refcodec, gapped, big, plan: Plan::Probe { before, access, i, k, land, with_shx } };
                            let (a, b) = (Dev::with_data(fx.shp.clone()), Dev::quiet(fx.shx.clone()));
                            a.fail_at(k, FaultMode::OneShot);
                            match land {
                                1 => a.set_seek_moves_on_fault(true),
                                2 => a.set_seek_lands_on_fault(Some(0)),
                                _ => {}
                            }
                            let run = catch(|| probe_on(&fx, a.clone(), if with_shx { Some(b) } else { None }, before, access, i));
                            if a.faults_fired() < 1 {
                                break;
                            }
                            k += 1;
                            let mut h = Fnv::new();
                            h.str(&case.to_json().to_string());
                            match run {
                                Ok(ans) => {
                                    ctx.lib_calls += ans.len() as u64;
                                    let mut oh = Fnv::new();
                                    oh.str(&format!("{:?}", ans));
                                    ctx.case_done(h.finish(), true, oh.finish());
                                    let mut fired: Vec<u32> = a.log().iter().filter_map(|o| if let Op::Failed { call, .. } = o { Some(*call) } else { None }).collect();
                                    fired.dedup();
                                    for (sig, d) in judge_probe(&ans, &fired) {
                                        ctx.violation(format!("{}:{}", ty.name(), sig), || case.to_json(), || d);
                                    }
                                }
                                Err(p) => {
                                    ctx.case_done(h.finish(), true, 1);
                                    ctx.violation(format!("{}:{}", ty.name(), p.sig()), || case.to_json(), || format!("{}:{} {}", p.file, p.line, p.msg));
                                }
                            }
                            tick();
                        }
                    }
                }
            }
        }
        let cuts = (0..=fx.shx.len()).map(|l| (true, l)).chain((0..=fx.shp.len()).map(|l| (false, l)));
        for (cut_shx, len) in cuts {
            let case = Case { ty, seq: seq.to_vec(), refcodec, gapped, big, plan: Plan::DiskCut { shx: cut_shx, len } };
            let mut h = Fnv::new();
            h.str(&case.to_json().to_string());
            match catch(|| disk_vs_memory(&fx, cut_shx, len)) {
                Ok((disk, mem)) => {
                    ctx.lib_calls += (disk.len() + mem.len()) as u64;
                    let mut oh = Fnv::new();
                    oh.str(&format!("{:?}", disk));
                    ctx.case_done(h.finish(), true, oh.finish());
                    if disk != mem {
                        let what = match (disk.first(), mem.first()) {
                            (Some(Ans::Open(Ok(()))), Some(Ans::Open(Err(_)))) => "open-error-swallowed",
                            (Some(Ans::Open(Err(_))), Some(Ans::Open(Ok(())))) => "open-fails",
                            _ => "answers-differ",
                        };
                        ctx.violation(
                            format!("{}:by-path:{}:{}", ty.name(), if cut_shx { "cut-shx" } else { "cut-shp" }, what),
                            || case.to_json(),
                            || format!("{} cut to {} bytes: ShapeReader::from_path answers {:?}, with_shx over the same bytes in memory {:?}", if cut_shx { ".shx" } else { ".shp" }, len, disk, mem),
                        );
                    }
                }
                Err(p) => {
                    ctx.case_done(h.finish(), true, 1);
                    ctx.violation(format!("{}:by-path:{}", ty.name(), p.sig()), || case.to_json(), || p.msg.clone());
                }
            }
            tick();
        }
    }
    ctx.bump("plans", plans.len() as u64);
    for (plan, with_index) in plans {
        let case = Case { ty, seq: seq.to_vec(), refcodec, gapped, big, plan: plan.clone() };
        let (shp, shx) = match &plan {
            Plan::CutShp { len, .. } => (Dev::quiet(fx.shp[..*len].to_vec()), Dev::quiet(fx.shx.clone())),
            Plan::CutShx { len } => (Dev::quiet(fx.shp.clone()), Dev::quiet(fx.shx[..*len].to_vec())),
            Plan::Fault { dev, k, persistent } => {
                let (a, b) = (Dev::quiet(fx.shp.clone()), Dev::quiet(fx.shx.clone()));
                (if *dev == 0 { &a } else { &b }).fail_at(*k, if *persistent { FaultMode::Persistent } else { FaultMode::OneShot });
                (a, b)
            }
            Plan::Pair { .. } | Plan::DiskCut { .. } | Plan::PermCut { .. } | Plan::Probe { .. } => unreachable!(),
            Plan::ShortRead { kind, arg } => {
                let (a, b) = (Dev::quiet(fx.shp.clone()), Dev::quiet(fx.shx.clone()));
                let c = match kind {
                    0 => Chunking::Uniform(*arg as usize),
                    1 => Chunking::One { op: *arg, max: 1 },
                    _ => Chunking::OneAllButLast { op: *arg },
                };
                a.set_chunking(c.clone());
                b.set_chunking(c);
                (a, b)
            }
        };
        let mut h = Fnv::new();
        h.str(&case.to_json().to_string());
        h.u64(with_index as u64);
        let (b, logs): (&[Ans], (&[Op], &[Op])) = if with_index { (&base, (&log_s, &log_x)) } else { (&base_noshx, (&log_s2, &[])) };
        match catch(|| traverse(&fx, shp, if with_index { Some(shx) } else { None })) {
            Ok(ans) => {
                ctx.lib_calls += ans.len() as u64 + 2;
                let mut oh = Fnv::new();
                oh.str(&format!("{:?}", ans));
                ctx.case_done(h.finish(), true, oh.finish());
                for (sig, d) in judge(&case, &fx, b, logs, &ans) {
                    ctx.violation(format!("{}:{}", ty.name(), sig), || case.to_json(), || d);
                }
            }
            Err(p) => {
                ctx.case_done(h.finish(), true, 1);
                ctx.violation(format!("{}:{}", ty.name(), p.sig()), || case.to_json(), || format!("{}:{} {}", p.file, p.line, p.msg));
            }
        }
        tick();
    }
    if seq.len() == 2 {
        ctx.sample(|| json!({"ty": ty.name(), "seq": seq, "refcodec": refcodec, "shp_bytes": fx.shp.len(), "shx_bytes": fx.shx.len(), "traversal_reads_and_seeks": log_s.len() + log_x.len()}));
    }
}

fn selftest() -> (u64, u64) {
    let ty = Ty::PolylineM;
    let seq = vec![0usize, 1];
    let fx = fixture(ty, &seq, false);
    let (bs, bx) = (Dev::with_data(fx.shp.clone()), Dev::with_data(fx.shx.clone()));
    let base = traverse(&fx, bs.clone(), Some(bx.clone()));
    let (ls, lx) = (bs.log(), bx.log());
    let mut inj = 0;
    let mut det = 0;
    // a cut in the middle of the second record
    let len = fx.ends[0] + 20;
    let case = Case { ty, seq: seq.clone(), refcodec: false, gapped: false, big: 0, plan: Plan::CutShp { len, with_shx: false } };
    let fresh = || traverse(&fx, Dev::quiet(fx.shp[..len].to_vec()), None);
    if !judge(&case, &fx, &base, (&ls, &lx), &fresh()).is_empty() {
        return (1, 0);
    }
    for t in [
        (|a: &mut Vec<Ans>| a[1] = Ans::Iter(vec![Ok(0)], true)) as fn(&mut Vec<Ans>),
        |a| a[1] = Ans::Iter(vec![Ok(0), Ok(1)], true),
        |a| a[1] = Ans::Iter(vec![Err("IoError(UnexpectedEof)".into())], false),
        |a| a[1] = Ans::Iter(vec![Ok(0), Err("a shape that is not in the file".into())], false),
        |a| a[1] = Ans::Iter(vec![Ok(0), Err("InvalidShapeRecordSize".into())], false),
    ] {
        let mut a = fresh();
        t(&mut a);
        inj += 1;
        det += (!judge(&case, &fx, &base, (&ls, &lx), &a).is_empty()) as u64;
    }
    // failing source: error swallowed
    let k = ls.iter().position(|o| o.call() == 1).unwrap() as u64 + 2;
    let fcase = Case { ty, seq, refcodec: false, gapped: false, big: 0, plan: Plan::Fault { dev: 0, k, persistent: false } };
    let mut a = base.clone();
    a[1] = Ans::Iter(vec![Ok(0)], true);
    inj += 1;
    det += (!judge(&fcase, &fx, &base, (&ls, &lx), &a).is_empty()) as u64;
    (inj, det)
}

pub fn check(tier: Tier) -> i32 {
    let started = Instant::now();
    if !super::c01_c02::scratch_usable() {
        return 2;
    }
    let types: Vec<Ty> = ALL13.to_vec();
    let mut units = vec![];
    for ty in &types {
        let k = reduced_set(*ty).len().min(3);
        let seqs: Vec<Vec<usize>> = vec![vec![0], vec![1 % k, 0], vec![0, 2 % k, 1 % k]];
        for s in seqs {
            for refcodec in [false, true] {
                units.push((*ty, s.clone(), refcodec));
            }
        }
    }
    // (ty, seq, refcodec, gapped, big)
    let mut units: Vec<(Ty, Vec<usize>, bool, bool, usize)> = units.into_iter().map(|(t, s, r)| (t, s, r, false, 0)).collect();
    for ty in &types {
        let k = reduced_set(*ty).len().min(3);
        units.push((*ty, vec![0, 2 % k, 1 % k], true, true, 0));
    }
    for ty in [Ty::Multipoint, Ty::Polyline, Ty::PolygonZ] {
        for big in tier.pick(vec![1500usize, 70001], vec![1500, 8193, 70001, 140001]) {
            units.push((ty, vec![0], false, false, big));
        }
    }
    let deadline = Some(started + std::time::Duration::from_secs(tier.pick(50, 1700)));
    let (agg, capped) = par_blocks(units.len(), deadline, |b, ctx, tick| {
        let (ty, seq, rc, gapped, big) = &units[b];
        run_fixture_ext(*ty, seq, *rc, *gapped, *big, ctx, tick);
    });
    // truncations under an index that lists the records in another order than the file does
    let (mut agg, mut capped) = (agg, capped);
    {
        let mut punits: Vec<(Ty, u8)> = vec![];
        for ty in tier.pick(vec![Ty::Point, Ty::PolylineZ], vec![Ty::Point, Ty::PointZ, Ty::Multipoint, Ty::PolylineZ, Ty::PolygonM, Ty::Multipatch]) {
            punits.push((ty, 0));
            punits.push((ty, 1));
        }
        let (a, c) = par_blocks(punits.len(), deadline, |b, ctx, tick| {
            let (ty, kind) = punits[b];
            let (fx, order) = permuted_fixture(ty, kind);
            let lens: Vec<usize> = if kind == 0 {
                (100..=fx.shp.len()).collect()
            } else {
                let mut v: Vec<usize> = vec![100, fx.shp.len()];
                for e in &fx.ends {
                    v.extend([e - 1, *e, e + 1, e + 9]);
                }
                v.sort_unstable();
                v.dedup();
                v.into_iter().filter(|l| *l >= 100 && *l <= fx.shp.len()).collect()
            };
            for len in lens {
                let case = Case { ty, seq: vec![], refcodec: true, gapped: false, big: 0, plan: Plan::PermCut { kind, len } };
                let mut h = Fnv::new();
                h.str(&case.to_json().to_string());
                match catch(|| perm_cut_verdicts(&fx, &order, len)) {
                    Ok(v) => {
                        ctx.lib_calls += 2 * order.len() as u64 + 2;
                        ctx.case_done(h.finish(), true, v.len() as u64 + 20);
                        for (sig, d) in v {
                            ctx.violation(format!("{}:{}", ty.name(), sig), || case.to_json(), || d);
                        }
                    }
                    Err(p) => {
                        ctx.case_done(h.finish(), true, 1);
                        ctx.violation(format!("{}:{}", ty.name(), p.sig()), || case.to_json(), || p.msg.clone());
                    }
                }
                tick();
            }
        });
        agg.absorb(a);
        capped |= c;
    }
    // the self-test runs the library too: on a tree that panics there it counts as failed (a verdict, if there is one,
    // takes precedence over it)
    let st = catch(|| selftest()).unwrap_or((1, 0));
    super::c01_c02::cleanup_scratch();
    finish(
        RunInfo {
            prop: "C13",
            tier,
            level: "fault_enumeration",
            engine: "valid files (library-written and RefCodec-written) read by the real ShapeReader from truncated, fault-injecting and short-reading devices",
            rule: "per file: every truncation length 0..=len of the .shp (read with the intact .shx and without index), every truncation length of the .shx, every operation index k over the reads and seeks of a full traversal (open, iterate, read_nth_shape(i) and seek(i) for all i) x {one-shot, persistent} on each source, uniform short reads c in {1,2,3,4,5,7,8,9,15,16,17} and, for every read call j, 'call j returns 1 byte' / 'len-1 bytes'; files = types x 3 sequences (1-3 records of different sizes) x {library writer, RefCodec}, plus RefCodec files with fillers in front of every record (read through the index), plus, for the library-written files of 1 and 2 records: every pair of operations of the .shp failing once each, with and without index, the iteration going on after an error (every call during which an operation failed returns an error, nothing invented), and one failing operation around seek(i) / read_nth_shape(i) called after 0..n items of an iteration that then goes on (a failing seek leaving the source where it was, at its target, or at offset 0: the failing call reports the error, the items that follow are records of the file in file order, nothing is decoded out of place), and the two files on disk with every truncation of the .shx and of the .shp opened by ShapeReader::from_path (same answers as with_shx over the same bytes in memory); plus files whose index lists the records in another order than the file (3 records in order [2,0,1] at every truncation length; 40 records reversed, cut around every record end), the iteration going on after errors: every entry whose record is wholly retained comes back as that record, every other as an I/O error, by iteration and by random access; plus files whose second record has a part of 1500 / 70001 points (cuts: last 48 bytes, around every power of two and every MiB, every 4099th byte; short reads); every case is non-trivial",
            bounds: json!({"types": types.iter().map(|t| t.name()).collect::<Vec<_>>(), "files": units.len()}),
            exhaustive: true,
            assumptions: vec!["single faults, truncations and short reads: iteration is observed up to the first error; pairs of faults: the iteration goes on after an error, and only 'reported by the call in progress', 'nothing invented' and 'random access returns the record asked for' are judged".into()],
            started,
            states: 0,
            transitions: 0,
            selftest: st,
            extra: Default::default(),
        },
        agg,
        capped,
    )
}

pub fn replay(v: &Value) -> Vec<(String, String)> {
    let case = match Case::from_json(v) {
        Some(c) => c,
        None => return vec![("bad-replay-file".into(), "cannot parse case".into())],
    };
    if let Plan::PermCut { kind, len } = &case.plan {
        let (fx, order) = permuted_fixture(case.ty, *kind);
        return match catch(|| perm_cut_verdicts(&fx, &order, (*len).min(fx.shp.len()))) {
            Ok(v) => v.into_iter().map(|(s, d)| (format!("{}:{}", case.ty.name(), s), d)).collect(),
            Err(p) => vec![(format!("{}:{}", case.ty.name(), p.sig()), p.msg)],
        };
    }
    // re-run the whole fixture and keep the verdicts of this plan only
    let mut ctx = Ctx::new();
    run_fixture_ext(case.ty, &case.seq, case.refcodec, case.gapped, case.big, &mut ctx, &|| {});
    ctx.findings.into_iter().map(|(k, f)| (k, f.detail)).collect()
}
