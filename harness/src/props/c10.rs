//! C10: a writer holds one shape type; a rejected write changes nothing.
//! Engine E1.  Complete over all 13 x 12 ordered (file type, offered type)
//! pairs.

use crate::dev::{Dev, Op};
use crate::engine::*;
use crate::hist::{self, Hist};
use crate::model::*;
use crate::pexec::*;
use crate::table;
use crate::wexec::*;
use serde_json::{json, Value};
use std::sync::Arc;
use std::time::Instant;

const CFG: usize = 3;
const ROUTES: [&str; 4] = ["ShapeWriter+shx", "ShapeWriter", "Writer", "Writer over a typed ShapeWriter"];

#[derive(Clone, Debug)]
pub struct Case {
    pub file_ty: Ty,
    pub offered: Ty,
    /// 0 ShapeWriter with .shx, 1 ShapeWriter without, 2 complete Writer
    pub route: u8,
    pub ops: Vec<WOp>,
}

impl Case {
    fn from_hist(h: &Hist) -> Case {
        Case {
            file_ty: ALL13[h[0] as usize],
            offered: ALL13[h[1] as usize],
            route: h[2],
            ops: h[CFG..]
                .iter()
                .map(|b| match b {
                    0 => WOp::W(0),
                    1 => WOp::W(1),
                    2 => WOp::F,
                    _ => WOp::R,
                })
                .collect(),
        }
    }
    pub fn to_json(&self) -> Value {
        json!({"file_type": self.file_ty.name(), "offered_type": self.offered.name(),
               "route": (ROUTES[self.route as usize]), "ops": ops_name(&self.ops)})
    }
    pub fn from_json(v: &Value) -> Option<Case> {
        let route = match v.get("route")?.as_str()? {
            "ShapeWriter+shx" => 0,
            "ShapeWriter" => 1,
            "Writer" => 2,
            "Writer over a typed ShapeWriter" => 3,
            _ => return None,
        };
        Some(Case {
            file_ty: Ty::from_name(v.get("file_type")?.as_str()?)?,
            offered: Ty::from_name(v.get("offered_type")?.as_str()?)?,
            route,
            ops: ops_from_name(v.get("ops")?.as_str()?)?,
        })
    }
}

pub struct Obs {
    pub results: Vec<CallRes>,
    /// (device name, log, final bytes) of the run with the rejected calls
    pub devs: Vec<(&'static str, Vec<Op>, Vec<u8>)>,
    /// final bytes of the same history with the R operations deleted
    pub ref_devs: Vec<(&'static str, Vec<u8>)>,
    pub ref_results: Vec<CallRes>,
}

fn to_pops(ops: &[WOp]) -> Vec<POp> {
    ops.iter()
        .map(|o| match o {
            WOp::W(k) => POp::Good(*k),
            WOp::R => POp::BadType,
            WOp::F => unreachable!("complete writer has no finalize"),
        })
        .collect()
}

pub fn observe(pal: &Palette, case: &Case) -> Obs {
    let stripped: Vec<WOp> = case.ops.iter().copied().filter(|o| *o != WOp::R).collect();
    if case.route < 2 {
        let env = WEnv::new(case.route == 0);
        let results = exec_writer(pal, &case.ops, Ending::Drop, &env, |_, _, _| {});
        let renv = WEnv::new(case.route == 0);
        let ref_results = exec_writer(pal, &stripped, Ending::Drop, &renv, |_, _, _| {});
        let mut devs = vec![("shp", env.shp.log(), env.shp.data())];
        let mut ref_devs = vec![("shp", renv.shp.data())];
        if let (Some(x), Some(rx)) = (&env.shx, &renv.shx) {
            devs.push(("shx", x.log(), x.data()));
            ref_devs.push(("shx", rx.data()));
        }
        Obs {
            results,
            devs,
            ref_devs,
            ref_results,
        }
    } else {
        let env = PEnv::new();
        let results = exec_complete_on(pal, &to_pops(&case.ops), &env, case.route == 3);
        let renv = PEnv::new();
        // rows carry the op position as idx: keep the positions of the
        // original history so that the .dbf bytes are comparable
        let ref_results = exec_complete_with_positions(pal, &case.ops, &renv, case.route == 3);
        let d = |e: &PEnv| -> Vec<(&'static str, Vec<u8>)> {
            vec![
                ("shp", e.shp.data()),
                ("shx", e.shx.data()),
                ("dbf", table::mask_date(&e.dbf.data())),
            ]
        };
        let dv = d(&env);
        Obs {
            results,
            devs: vec![
                ("shp", env.shp.log(), dv[0].1.clone()),
                ("shx", env.shx.log(), dv[1].1.clone()),
                ("dbf", env.dbf.log(), dv[2].1.clone()),
            ],
            ref_devs: d(&renv),
            ref_results,
        }
    }
}

/// The history with the R calls removed, each remaining row keeping the
/// index it had in the full history.
fn exec_complete_with_positions(pal: &Palette, ops: &[WOp], env: &PEnv, pre_typed: bool) -> Vec<CallRes> {
    use crate::bridge::*;
    let mut sw = shapefile::ShapeWriter::with_shx(env.shp.clone(), env.shx.clone());
    if pre_typed {
        env.set_call(1000);
        write_shape(&mut sw, &pal.lib[0]).expect("pre-write on a healthy destination");
    }
    let mut w = shapefile::Writer::new(sw, table::table_writer(env.dbf.clone()));
    let mut results = vec![];
    for (i, op) in ops.iter().enumerate() {
        if let WOp::W(k) = op {
            let r = write_pair(&mut w, &pal.lib[*k as usize], &table::good_row(i));
            results.push(match r {
                Ok(()) => CallRes::Ok,
                Err(e) => CallRes::Err(err_kind(&e)),
            });
        }
    }
    results
}

pub fn judge(case: &Case, o: &Obs) -> Vec<(String, String)> {
    let mut out = vec![];
    let route = ROUTES[case.route as usize];
    let expect = format!(
        "MismatchShapeType(requested={},actual={})",
        case.file_ty.code(),
        case.offered.code()
    );
    for (i, (op, r)) in case.ops.iter().zip(&o.results).enumerate() {
        match op {
            WOp::R => {
                if *r != CallRes::Err(expect.clone()) {
                    out.push((
                        format!("{}:rejected-write-result", route),
                        format!("op {} (write of {} into a {} file) returned {:?}, expected Err({})", i, case.offered.name(), case.file_ty.name(), r, expect),
                    ));
                }
                for (name, log, _) in &o.devs {
                    for e in log {
                        if e.call() == i as u32 {
                            if let Op::Write { pos, bytes, .. } = e {
                                out.push((
                                    format!("{}:rejected-write-wrote-bytes:{}", route, name),
                                    format!("op {} was rejected but wrote {} bytes at {} to the .{}", i, bytes.len(), pos, name),
                                ));
                                break;
                            }
                        }
                    }
                }
            }
            _ => {
                if *r != CallRes::Ok {
                    out.push((
                        format!("{}:accepted-call-failed", route),
                        format!("op {} ({:?}) returned {:?}", i, op, r),
                    ));
                }
            }
        }
    }
    if o.ref_results.iter().any(|r| *r != CallRes::Ok) {
        out.push((format!("{}:reference-run-failed", route), format!("{:?}", o.ref_results)));
    }
    for ((name, _, bytes), (_, rbytes)) in o.devs.iter().zip(&o.ref_devs) {
        if bytes != rbytes {
            out.push((
                format!("{}:final-{}-differs", route, name),
                format!(
                    ".{} has {} bytes, the history without the rejected calls gives {} (first difference at {:?})",
                    name,
                    bytes.len(),
                    rbytes.len(),
                    bytes.iter().zip(rbytes).position(|(a, b)| a != b)
                ),
            ));
        }
    }
    out
}

fn run(pals: &[Palette], h: &Hist, ctx: &mut Ctx) {
    let case = Case::from_hist(h);
    let pal = &pals[(h[0] as usize) * 13 + h[1] as usize];
    let mut hh = Fnv::new();
    hh.bytes(h);
    let obs = match catch(|| observe(pal, &case)) {
        Ok(o) => o,
        Err(p) => {
            ctx.case_done(hh.finish(), true, 1);
            ctx.violation(format!("harness-or-drop-panic:{}", p.sig()), || case.to_json(), || format!("{}:{} {}", p.file, p.line, p.msg));
            return;
        }
    };
    ctx.lib_calls += (case.ops.len() * 2 + 2) as u64;
    ctx.traces += 1;
    let mut oh = Fnv::new();
    for (_, _, b) in &obs.devs {
        oh.bytes(b);
    }
    for r in &obs.results {
        oh.str(&format!("{:?}", r));
    }
    ctx.case_done(hh.finish(), case.ops.contains(&WOp::R), oh.finish());
    if case.ops.len() >= 3 && case.ops.contains(&WOp::R) {
        ctx.sample(|| case.to_json());
    }
    for (sig, detail) in judge(&case, &obs) {
        ctx.violation(sig, || case.to_json(), || detail);
    }
    // the same history ended by the consuming write_shapes with shapes of the offered type: refused, nothing written
    if case.route < 2 && case.ops.iter().any(|o| matches!(o, WOp::W(_))) && !case.ops.contains(&WOp::R) {
        for k in 1..=2u8 {
            let cj = || {
                let mut v = case.to_json();
                v["ending"] = json!(Ending::WriteShapesOther(k).name());
                v
            };
            match catch(|| ending_other_verdicts(pal, &case, k)) {
                Ok(v) => {
                    ctx.lib_calls += case.ops.len() as u64 + 2;
                    for (sig, d) in v {
                        ctx.violation(sig, cj, || d);
                    }
                }
                Err(p) => ctx.violation(format!("harness-or-drop-panic:{}", p.sig()), cj, || p.msg.clone()),
            }
        }
    }
}

/// history, then `write_shapes(self, [other; k])`: the call is refused with the mismatch error and the files are
/// those of the history followed by drop
pub fn ending_other_verdicts(pal: &Palette, case: &Case, k: u8) -> Vec<(String, String)> {
    let route = ROUTES[case.route as usize];
    let env = WEnv::new(case.route == 0);
    let results = exec_writer(pal, &case.ops, Ending::WriteShapesOther(k), &env, |_, _, _| {});
    let renv = WEnv::new(case.route == 0);
    let _ = exec_writer(pal, &case.ops, Ending::Drop, &renv, |_, _, _| {});
    let mut out = vec![];
    let expect = format!("MismatchShapeType(requested={},actual={})", case.file_ty.code(), case.offered.code());
    let end = results.get(case.ops.len());
    if end != Some(&CallRes::Err(expect.clone())) {
        out.push((format!("{}:write_shapes-of-another-type-result", route), format!("write_shapes(self, [{}; {}]) on a {} file returned {:?}, expected Err({})", case.offered.name(), k, case.file_ty.name(), end, expect)));
    }
    if env.shp.data() != renv.shp.data() || env.shx.as_ref().map(|x| x.data()) != renv.shx.as_ref().map(|x| x.data()) {
        out.push((format!("{}:write_shapes-of-another-type-changed-the-files", route), format!(".shp {} vs {} bytes (history then drop)", env.shp.len(), renv.shp.len())));
    }
    out
}

fn enabled(h: &Hist) -> Vec<u8> {
    let ops = &h[CFG..];
    let complete = h[2] >= 2;
    let nr = ops.iter().filter(|b| **b == 3).count();
    let mut v = vec![0u8, 1];
    // (over a shape writer that already has its type, the very first call may be the rejected one)
    if !ops.is_empty() || h[2] == 3 {
        if !complete {
            v.push(2);
        }
        if nr < 2 {
            v.push(3);
        }
    }
    v
}

fn selftest(pals: &[Palette]) -> (u64, u64) {
    let mut inj = 0;
    let mut det = 0;
    for route in 0..3u8 {
        let case = Case {
            file_ty: Ty::Polygon,
            offered: Ty::PointZ,
            route,
            ops: vec![WOp::W(0), WOp::R, WOp::W(1)],
        };
        let fi = ALL13.iter().position(|t| *t == case.file_ty).unwrap();
        let oi = ALL13.iter().position(|t| *t == case.offered).unwrap();
        let pal = &pals[fi * 13 + oi];
        let fresh = || observe(pal, &case);
        if !judge(&case, &fresh()).is_empty() {
            return (1, 0);
        }
        let mut t = |f: &dyn Fn(&mut Obs)| {
            let mut o = fresh();
            f(&mut o);
            inj += 1;
            det += (!judge(&case, &o).is_empty()) as u64;
        };
        t(&|o| o.results[1] = CallRes::Ok);
        t(&|o| o.results[1] = CallRes::Err("MismatchShapeType(requested=11,actual=5)".into()));
        t(&|o| {
            let last = o.devs.len() - 1;
            o.devs[last].1.push(Op::Write { call: 1, pos: 0, bytes: vec![1] })
        });
        t(&|o| o.devs[0].2[40] ^= 1);
        t(&|o| {
            let last = o.devs.len() - 1;
            o.devs[last].2.push(0)
        });
    }
    (inj, det)
}

/// C10 over faulted runs: a rejected write changes nothing also when a destination operation failed once
/// before or after it.  Compared with the same history minus the rejected calls under the same faults
/// (a rejected write issues no operation, so the fault indices mean the same in both runs).
pub fn judge_frun(pal: &Palette, case: &crate::frun::FCase, run: &crate::frun::FRun) -> Vec<(String, String)> {
    let mut out = vec![];
    let first_w = case.ops.iter().position(|o| matches!(o, WOp::W(_)));
    let first_r = case.ops.iter().position(|o| *o == WOp::R);
    // the file must have its type before the first rejected call: its first write succeeded
    match (first_w, first_r) {
        (Some(w), Some(r)) if w < r && run.results[w] == CallRes::Ok => {}
        _ => return out,
    }
    let other = match case.other {
        Some(o) => o,
        None => return out,
    };
    let expect = format!("MismatchShapeType(requested={},actual={})", case.ty.code(), other.code());
    let stripped = crate::frun::FCase { ops: case.ops.iter().copied().filter(|o| *o != WOp::R).collect(), ..case.clone() };
    let reference = crate::frun::run(pal, &stripped);
    let ctxt = || format!("faults {:?} fired in calls {:?}; results {:?}", case.faults, run.fired, run.results);
    let mut kept = vec![];
    for (i, (op, r)) in case.ops.iter().zip(&run.results).enumerate() {
        if *op == WOp::R {
            if *r != CallRes::Err(expect.clone()) {
                out.push(("fault-run:rejected-write-result".to_string(), format!("{}: op {} returned {:?}, expected Err({})", ctxt(), i, r, expect)));
            }
            for (name, log) in [("shp", &run.shp_log), ("shx", &run.shx_log)] {
                if log.iter().any(|e| e.call() == i as u32 && matches!(e, Op::Write { .. })) {
                    out.push((format!("fault-run:rejected-write-wrote-bytes:{}", name), format!("{}: op {} was rejected but wrote to the .{}", ctxt(), i, name)));
                }
            }
        } else {
            kept.push(r.clone());
        }
    }
    if kept[..] != reference.results[..kept.len()] {
        out.push(("fault-run:other-calls-differ".to_string(), format!("{}: without the rejected calls the other calls return {:?}", ctxt(), reference.results)));
    } else if run.shp != reference.shp || run.shx != reference.shx {
        out.push((
            "fault-run:final-files-differ".to_string(),
            format!("{}: the files differ from those of the same history without the rejected calls under the same faults (.shp {} vs {} bytes, first difference {:?}; .shx {} vs {} bytes)", ctxt(), run.shp.len(), reference.shp.len(), run.shp.iter().zip(&reference.shp).position(|(a, b)| a != b), run.shx.len(), reference.shx.len()),
        ));
    }
    out
}

pub fn check(tier: Tier) -> i32 {
    let started = Instant::now();
    let depth = tier.pick(5, 8);
    let mut pv = vec![];
    for f in ALL13 {
        for o in ALL13 {
            pv.push(Palette::new(f, if f == o { None } else { Some(o) }));
        }
    }
    let pals: Arc<Vec<Palette>> = Arc::new(pv);
    let mut inits = vec![];
    for f in 0..13u8 {
        for o in 0..13u8 {
            if f != o {
                for r in 0..4u8 {
                    inits.push(vec![f, o, r]);
                }
            }
        }
    }
    let p2 = pals.clone();
    let res = hist::explore(inits, CFG, depth, Arc::new(enabled), Arc::new(move |h, ctx| run(&p2, h, ctx)));
    // (a) a rejected write after EVERY number of accepted records up to the bound:
    //     no byte may reach a destination during it, whatever the record counter says
    // (b) a user-defined shape of another type with an absurd announced size
    let mut extra = Ctx::new();
    {
        use crate::bridge::*;
        let maxn = tier.pick(1100usize, 3100);
        for (file_ty, offered) in [(Ty::Point, Ty::Polyline), (Ty::PolylineZ, Ty::PointM)] {
            let fi = ALL13.iter().position(|t| *t == file_ty).unwrap();
            let oi = ALL13.iter().position(|t| *t == offered).unwrap();
            let pal = &pals[fi * 13 + oi];
            let expect = format!("MismatchShapeType(requested={},actual={})", file_ty.code(), offered.code());
            for with_shx in [true, false] {
                let env = WEnv::new(with_shx);
                let mut w = match &env.shx {
                    Some(x) => shapefile::ShapeWriter::with_shx(env.shp.clone(), x.clone()),
                    None => shapefile::ShapeWriter::new(env.shp.clone()),
                };
                for n in 1..=maxn {
                    env.set_call(0);
                    let _ = write_shape(&mut w, &pal.lib[n % 2]);
                    env.set_call(1);
                    let before = (env.shp.log_len(), env.shx.as_ref().map(|x| x.log_len()).unwrap_or(0));
                    let r = write_shape(&mut w, pal.other.as_ref().unwrap());
                    let cj = json!({"file_type": file_ty.name(), "offered_type": offered.name(), "with_shx": with_shx, "accepted_before_the_rejected_write": n});
                    let mut hh = Fnv::new();
                    hh.str(&cj.to_string());
                    extra.case_done(hh.finish(), true, 5);
                    extra.lib_calls += 2;
                    let got = r.map_err(|e| err_kind(&e));
                    if got != Err(expect.clone()) {
                        extra.violation("count-sweep:rejected-write-result", || cj.clone(), || format!("{:?}", got));
                    }
                    let wrote = |d: &crate::dev::Dev, from: usize| d.log()[from..].iter().any(|o| matches!(o, Op::Write { .. }));
                    if wrote(&env.shp, before.0) || env.shx.as_ref().map(|x| wrote(x, before.1)).unwrap_or(false) {
                        extra.violation("count-sweep:rejected-write-wrote-bytes", || cj.clone(), || format!("the rejected write after {} accepted records wrote to a destination", n));
                    }
                    // keep the logs small
                    env.shp.0.borrow_mut().log.clear();
                    if let Some(x) = &env.shx {
                        x.0.borrow_mut().log.clear();
                    }
                }
            }
        }
        // (b)
        for size in [0usize, 3, 1 << 20, (1usize << 31) - 4, 1usize << 31, 1usize << 33, usize::MAX / 2] {
            for with_shx in [true, false] {
                let env = WEnv::new(with_shx);
                let mut w = match &env.shx {
                    Some(x) => shapefile::ShapeWriter::with_shx(env.shp.clone(), x.clone()),
                    None => shapefile::ShapeWriter::new(env.shp.clone()),
                };
                let pal = &pals[0 * 13 + 1];
                let _ = write_shape(&mut w, &pal.lib[0]);
                let before = env.shp.log_len();
                let r = catch(|| w.write_shape(&Absurd { size }).map_err(|e| err_kind(&e)));
                let cj = json!({"file_type": "Point", "offered": "user-defined Polygon-typed shape", "announced_size": size, "with_shx": with_shx});
                let mut hh = Fnv::new();
                hh.str(&cj.to_string());
                extra.case_done(hh.finish(), true, 6);
                let want = Err(format!("MismatchShapeType(requested={},actual={})", Ty::Point.code(), Ty::Polygon.code()));
                match r {
                    Ok(got) if got == want && env.shp.log_len() == before => {}
                    Ok(got) => extra.violation("user-shape:rejected-write", || cj.clone(), || format!("returned {:?}, {} operations on the .shp", got, env.shp.log_len() - before)),
                    Err(p) => extra.violation(format!("user-shape:{}", p.sig()), || cj.clone(), || p.msg.clone()),
                }
            }
        }
    }
    // (c) user-defined shapes (the traits are public) of every one of the 14 types, NullShape included, offered
    //     to a file of every other type
    {
        use crate::bridge::*;
        for (fi, file_ty) in ALL13.iter().enumerate() {
            for with_shx in [true, false] {
                let env = WEnv::new(with_shx);
                let mut w = match &env.shx {
                    Some(x) => shapefile::ShapeWriter::with_shx(env.shp.clone(), x.clone()),
                    None => shapefile::ShapeWriter::new(env.shp.clone()),
                };
                let pal = &pals[fi * 13 + (fi + 1) % 13];
                let _ = write_shape(&mut w, &pal.lib[0]);
                for_each_user_type(|code, name, offer| {
                    if code == file_ty.code() {
                        return;
                    }
                    let before = (env.shp.log_len(), env.shx.as_ref().map(|x| x.log_len()).unwrap_or(0));
                    let r = catch(|| offer(&mut w).map_err(|e| err_kind(&e)));
                    let after = (env.shp.log_len(), env.shx.as_ref().map(|x| x.log_len()).unwrap_or(0));
                    let cj = json!({"file_type": file_ty.name(), "offered": format!("user-defined shape of type {}", name), "with_shx": with_shx});
                    let mut hh = Fnv::new();
                    hh.str(&cj.to_string());
                    extra.case_done(hh.finish(), true, 7);
                    extra.lib_calls += 1;
                    let want = Err(format!("MismatchShapeType(requested={},actual={})", file_ty.code(), code));
                    match r {
                        Ok(got) if got == want && before == after => {}
                        Ok(got) => extra.violation("user-typed-shape:rejected-write", || cj.clone(), || format!("returned {:?} (expected {:?}), {} operations on the .shp, {} on the .shx", got, want, after.0 - before.0, after.1 - before.1)),
                        Err(p) => extra.violation(format!("user-typed-shape:{}", p.sig()), || cj.clone(), || p.msg.clone()),
                    }
                });
            }
        }
    }
    // the self-test runs the library too: on a tree that panics there it counts as failed (a verdict, if there is one,
    // takes precedence over it)
    // (d) the text of the mismatch error names the file's type and the offered type, for all 156 pairs
    {
        use crate::bridge::*;
        for (fi, file_ty) in ALL13.iter().enumerate() {
            for (oi, offered) in ALL13.iter().enumerate() {
                if fi == oi {
                    continue;
                }
                let pal = &pals[fi * 13 + oi];
                let env = WEnv::new(false);
                let mut w = shapefile::ShapeWriter::new(env.shp.clone());
                let _ = write_shape(&mut w, &pal.lib[0]);
                let text = write_shape(&mut w, pal.other.as_ref().unwrap()).err().map(|e| e.to_string());
                let cj = json!({"file_type": file_ty.name(), "offered_type": offered.name(), "error_text": true});
                let mut hh = Fnv::new();
                hh.str(&cj.to_string());
                extra.case_done(hh.finish(), true, 8);
                extra.lib_calls += 2;
                match text {
                    Some(t) if super::c06::text_names(&t, *file_ty) && super::c06::text_names(&t, *offered) => {}
                    other => extra.violation("rejected-write-error-text", || cj.clone(), || format!("a {} offered to a {} file: the error says {:?}, which does not name both types", offered.name(), file_ty.name(), other)),
                }
            }
        }
    }
    let st = catch(|| selftest(&pals)).unwrap_or((1, 0));
    let mut ctxs = res.ctxs;
    ctxs.push(extra);
    let mut agg = merge(ctxs);
    // a rejected write between faults: histories with one or two R after a W, every single fault (thorough: every pair)
    {
        let maxlen = tier.pick(4, 5);
        let hists: Vec<Vec<WOp>> = crate::frun::histories(&[WOp::W(0), WOp::W(1), WOp::F, WOp::R], maxlen)
            .into_iter()
            .filter(|h| {
                let nr = h.iter().filter(|o| **o == WOp::R).count();
                let fw = h.iter().position(|o| matches!(o, WOp::W(_)));
                let fr = h.iter().position(|o| *o == WOp::R);
                (1..=2).contains(&nr) && matches!((fw, fr), (Some(w), Some(r)) if w < r)
            })
            .collect();
        let other = |t: Ty| Some(ALL13[(ALL13.iter().position(|x| *x == t).unwrap() + 4) % 13]);
        let (a, _) = crate::frun::sweep(&ALL13, other, &[true, false], &hists, tier.pick(false, true), None, |pal, case, run, ctx| {
            let mut oh = Fnv::new();
            oh.bytes(&run.shp);
            ctx.case_done(case.hash(), true, oh.finish());
            for (sig, d) in judge_frun(pal, case, run) {
                ctx.violation(sig, || case.to_json(), || d);
            }
        });
        agg.absorb(a);
    }
    finish(
        RunInfo {
            prop: "C10",
            tier,
            level: "model_checking",
            engine: "E1 stateright BFS over operation histories on the real ShapeWriter / Writer over instrumented devices",
            rule: "all 13x12 ordered (file type, offered type) pairs x {ShapeWriter+shx, ShapeWriter, complete Writer, complete Writer built over a ShapeWriter that already has its type} x every history over {Wa, Wb, F, R=write of the offered type} (first op a W, <=2 R, no F on the complete Writer) up to the depth bound; every history without R also ended by the consuming write_shapes(self, [offered type; 1..2]); plus a rejected write after EVERY number 1..=bound of accepted records (per-call operation log), and user-defined shapes of another type announcing sizes up to usize::MAX/2, the text of the mismatch error names both types (all 156 pairs); and user-defined shapes of each of the 14 types (NullShape included) offered to a file of every other type; plus every history up to the fault-history bound with one or two R behind a W under every single one-shot fault (thorough: every pair) on .shp / .shx, compared with the same history minus the rejected calls under the same faults; non-trivial = contains an R",
            bounds: json!({"depth": depth, "fault_history_bound": tier.pick(4, 5), "type_pairs": 156, "routes": 4, "max_rejected_calls": 2}),
            exhaustive: true,
            assumptions: vec!["'changes nothing else' is judged by byte equality with the same history minus the rejected calls, run on the same tree; the .dbf date stamp (the only clock) is masked".into()],
            started,
            states: res.unique_states,
            transitions: res.states_generated,
            selftest: st,
            extra: Default::default(),
        },
        agg,
        false,
    )
}

/// Replays of the three case families that are not operation histories.
fn replay_extra(v: &Value) -> Option<Vec<(String, String)>> {
    use crate::bridge::*;
    let mut out = vec![];
    let with_shx = v.get("with_shx")?.as_bool()?;
    let file_ty = Ty::from_name(v.get("file_type")?.as_str()?)?;
    let env = WEnv::new(with_shx);
    let mut w = match &env.shx {
        Some(x) => shapefile::ShapeWriter::with_shx(env.shp.clone(), x.clone()),
        None => shapefile::ShapeWriter::new(env.shp.clone()),
    };
    let ops_now = |e: &WEnv| (e.shp.log_len(), e.shx.as_ref().map(|x| x.log_len()).unwrap_or(0));
    if let Some(n) = v.get("accepted_before_the_rejected_write").and_then(|x| x.as_u64()) {
        let offered = Ty::from_name(v.get("offered_type")?.as_str()?)?;
        let pal = Palette::new(file_ty, Some(offered));
        let expect = format!("MismatchShapeType(requested={},actual={})", file_ty.code(), offered.code());
        for i in 1..=n as usize {
            let _ = write_shape(&mut w, &pal.lib[i % 2]);
        }
        let before = ops_now(&env);
        let got = write_shape(&mut w, pal.other.as_ref().unwrap()).map_err(|e| err_kind(&e));
        if got != Err(expect) {
            out.push(("count-sweep:rejected-write-result".to_string(), format!("{:?}", got)));
        }
        let wrote = |d: &Dev, from: usize| d.log()[from..].iter().any(|o| matches!(o, Op::Write { .. }));
        if wrote(&env.shp, before.0) || env.shx.as_ref().map(|x| wrote(x, before.1)).unwrap_or(false) {
            out.push(("count-sweep:rejected-write-wrote-bytes".to_string(), format!("the rejected write after {} accepted records wrote to a destination", n)));
        }
        return Some(out);
    }
    if v.get("error_text").is_some() {
        let offered = Ty::from_name(v.get("offered_type")?.as_str()?)?;
        let pal = Palette::new(file_ty, Some(offered));
        let _ = write_shape(&mut w, &pal.lib[0]);
        let text = write_shape(&mut w, pal.other.as_ref().unwrap()).err().map(|e| e.to_string());
        return Some(match text {
            Some(t) if super::c06::text_names(&t, file_ty) && super::c06::text_names(&t, offered) => vec![],
            other => vec![("rejected-write-error-text".to_string(), format!("the error says {:?}, which does not name both types", other))],
        });
    }
    let offered = v.get("offered")?.as_str()?.to_string();
    let pal = Palette::new(file_ty, None);
    let _ = write_shape(&mut w, &pal.lib[0]);
    let before = ops_now(&env);
    if let Some(size) = v.get("announced_size").and_then(|x| x.as_u64()) {
        let r = catch(|| w.write_shape(&Absurd { size: size as usize }).map_err(|e| err_kind(&e)));
        let want = Err(format!("MismatchShapeType(requested={},actual={})", file_ty.code(), Ty::Polygon.code()));
        match r {
            Ok(got) if got == want && ops_now(&env) == before => {}
            Ok(got) => out.push(("user-shape:rejected-write".to_string(), format!("returned {:?}, {} operations on the .shp", got, env.shp.log_len() - before.0))),
            Err(p) => out.push((format!("user-shape:{}", p.sig()), p.msg)),
        }
        return Some(out);
    }
    let name = offered.strip_prefix("user-defined shape of type ")?.to_string();
    let mut found = false;
    for_each_user_type(|code, n, offer| {
        if n != name {
            return;
        }
        found = true;
        let r = catch(|| offer(&mut w).map_err(|e| err_kind(&e)));
        let after = ops_now(&env);
        let want = Err(format!("MismatchShapeType(requested={},actual={})", file_ty.code(), code));
        match r {
            Ok(got) if got == want && before == after => {}
            Ok(got) => out.push(("user-typed-shape:rejected-write".to_string(), format!("returned {:?} (expected {:?}), {} operations on the .shp, {} on the .shx", got, want, after.0 - before.0, after.1 - before.1))),
            Err(p) => out.push((format!("user-typed-shape:{}", p.sig()), p.msg)),
        }
    });
    if found {
        Some(out)
    } else {
        None
    }
}

pub fn replay(v: &Value) -> Vec<(String, String)> {
    if v.get("file_type").is_some() && v.get("ops").is_none() {
        return replay_extra(v).unwrap_or_else(|| vec![("bad-replay-file".into(), "cannot parse case".into())]);
    }
    if let Some(fc) = crate::frun::FCase::from_json(v) {
        let pal = fc.palette();
        return match catch(|| crate::frun::run(&pal, &fc)) {
            Ok(r) => judge_frun(&pal, &fc, &r),
            Err(p) => vec![(format!("fault-run:{}", p.sig()), p.msg)],
        };
    }
    let case = match Case::from_json(v) {
        Some(c) => c,
        None => return vec![("bad-replay-file".into(), "cannot parse case".into())],
    };
    let pal = Palette::new(case.file_ty, Some(case.offered));
    if let Some(Ending::WriteShapesOther(k)) = v.get("ending").and_then(|x| x.as_str()).and_then(Ending::from_name) {
        return match catch(|| ending_other_verdicts(&pal, &case, k)) {
            Ok(v) => v,
            Err(p) => vec![(format!("harness-or-drop-panic:{}", p.sig()), p.msg)],
        };
    }
    match catch(|| observe(&pal, &case)) {
        Ok(o) => judge(&case, &o),
        Err(p) => vec![(format!("harness-or-drop-panic:{}", p.sig()), p.msg)],
    }
}

macro_rules! user_types {
    ($($name:ident => $variant:ident),*) => {
        $(
            /// a user-defined shape of this type: empty content
            struct $name;
            impl shapefile::record::HasShapeType for $name {
                fn shapetype() -> shapefile::ShapeType {
                    shapefile::ShapeType::$variant
                }
            }
            impl shapefile::record::WritableShape for $name {
                fn size_in_bytes(&self) -> usize {
                    0
                }
                fn write_to<T: std::io::Write>(&self, _dest: &mut T) -> Result<(), shapefile::Error> {
                    Ok(())
                }
            }
            impl shapefile::record::EsriShape for $name {
                fn x_range(&self) -> [f64; 2] {
                    [0.0, 0.0]
                }
                fn y_range(&self) -> [f64; 2] {
                    [0.0, 0.0]
                }
            }
        )*
        /// calls `f(type code, type name, offer)` for each of the 14 user-defined types; `offer(writer)` writes one
        fn for_each_user_type(mut f: impl FnMut(i32, &'static str, &dyn Fn(&mut shapefile::ShapeWriter<Dev>) -> Result<(), shapefile::Error>)) {
            $(
                f(shapefile::ShapeType::$variant as i32, stringify!($variant), &|w: &mut shapefile::ShapeWriter<Dev>| w.write_shape(&$name));
            )*
        }
    };
}
user_types!(UNull => NullShape, UPoint => Point, UPolyline => Polyline, UPolygon => Polygon, UMultipoint => Multipoint, UPointZ => PointZ, UPolylineZ => PolylineZ,
    UPolygonZ => PolygonZ, UMultipointZ => MultipointZ, UPointM => PointM, UPolylineM => PolylineM, UPolygonM => PolygonM, UMultipointM => MultipointM, UMultipatch => Multipatch);

/// A user-defined shape (the traits are public) that claims to be a polygon of an absurd size.
struct Absurd {
    size: usize,
}
impl shapefile::record::HasShapeType for Absurd {
    fn shapetype() -> shapefile::ShapeType {
        shapefile::ShapeType::Polygon
    }
}
impl shapefile::record::WritableShape for Absurd {
    fn size_in_bytes(&self) -> usize {
        self.size
    }
    fn write_to<T: std::io::Write>(&self, _dest: &mut T) -> Result<(), shapefile::Error> {
        Ok(())
    }
}
impl shapefile::record::EsriShape for Absurd {
    fn x_range(&self) -> [f64; 2] {
        [0.0, 0.0]
    }
    fn y_range(&self) -> [f64; 2] {
        [0.0, 0.0]
    }
}

#[allow(unused)]
fn _unused(_: Dev) {}
