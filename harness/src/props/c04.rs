//! C04: the .shx written alongside a .shp addresses exactly its records.
//! Engine E2; byte-level oracle = RefCodec scan, reader-level oracle =
//! agreement of random access / iteration / size hints.

use crate::bridge::*;
use crate::dev::Dev;
use crate::engine::*;
use crate::iterprog::{self, Prog, PROGS};
use crate::model::*;
use crate::oracle::*;
use crate::structs::*;
use serde_json::{json, Value};
use shapefile::{Shape, ShapeReader, ShapeWriter};
use std::time::Instant;

#[derive(Clone, Debug)]
pub struct Case {
    pub ty: Ty,
    /// indices into the reduced set of the type
    pub seq: Vec<usize>,
    pub disk: bool,
    /// finalize placements: bit 0 = before the first write, bit i = after the i-th write
    pub fin_mask: u32,
    /// in-memory destinations already hold (longer) stale content, e.g. a rewound but not cleared buffer
    pub prefill: bool,
}

impl Case {
    pub fn to_json(&self) -> Value {
        json!({"ty": self.ty.name(), "seq": self.seq, "disk": self.disk, "fin_mask": self.fin_mask, "prefill": self.prefill})
    }
    pub fn from_json(v: &Value) -> Option<Case> {
        Some(Case {
            ty: Ty::from_name(v.get("ty")?.as_str()?)?,
            seq: v.get("seq")?.as_array()?.iter().map(|x| x.as_u64().map(|u| u as usize)).collect::<Option<Vec<_>>>()?,
            disk: v.get("disk")?.as_bool()?,
            fin_mask: v.get("fin_mask").and_then(|x| x.as_u64()).unwrap_or(0) as u32,
            prefill: v.get("prefill").and_then(|x| x.as_bool()).unwrap_or(false),
        })
    }
    fn hash(&self) -> u64 {
        let mut h = Fnv::new();
        h.u64(self.ty.code() as u64);
        for s in &self.seq {
            h.u64(*s as u64 + 1);
        }
        h.u64(self.disk as u64);
        h.u64(self.fin_mask as u64);
        h.u64(self.prefill as u64);
        h.finish()
    }
}

pub struct Obs {
    pub n: usize,
    pub shp: Vec<u8>,
    pub shx: Vec<u8>,
    pub shape_count: Result<usize, String>,
    pub seq_with: Result<Vec<MRead>, String>,
    pub seq_without: Result<Vec<MRead>, String>,
    /// read_nth_shape(i) for i in 0..n+2: Some(Ok), Some(Err), None
    pub nth: Vec<Option<Result<MRead, String>>>,
    /// the positions asked, parallel to `nth`
    pub nth_pos: Vec<usize>,
    /// size_hint before each next(), and after the last
    pub hints: Vec<(usize, Option<usize>)>,
    /// the iterator driven through std adaptors: (with index?, reader state 0 fresh / 1 after one next() / 2 after seek(1), program, answers)
    pub progs: Vec<(bool, u8, Prog, iterprog::Out<Result<MRead, String>>)>,
    /// by path: shape_count() of ShapeReader::from_path on the path the writer was given
    pub disk_count: Option<Result<usize, String>>,
}

pub fn mread_eq(a: &MRead, b: &MRead) -> bool {
    let mut ha = Fnv::new();
    let mut hb = Fnv::new();
    a.shape.hash_into(&mut ha);
    b.shape.hash_into(&mut hb);
    let bb = |x: &Option<[f64; 8]>| x.map(|v| v.map(|f| f.to_bits()));
    ha.finish() == hb.finish() && bb(&a.bbox) == bb(&b.bbox)
}

pub fn observe(case: &Case) -> Obs {
    let red = reduced_set(case.ty);
    let libs: Vec<Shape> = case.seq.iter().map(|i| to_lib(&red[*i])).collect();
    let n = libs.len();
    let mut disk_count: Option<Result<usize, String>> = None;
    let (shp, shx);
    if case.disk {
        let dir = super::c01_c02::scratch_dir();
        let tid: String = format!("{:?}", std::thread::current().id()).chars().filter(|c| c.is_ascii_digit()).collect();
        // (every third case names the .shp in capitals: the companion is the same path with the extension "shx";
        // every other third reaches the .shp through a symbolic link that lives in another directory)
        let path = if case.seq.len() % 3 == 1 && cfg!(unix) {
            let (da, db) = (dir.join(format!("c04-{}-a", tid)), dir.join(format!("c04-{}-b", tid)));
            let _ = std::fs::create_dir_all(&da);
            let _ = std::fs::create_dir_all(&db);
            let link = da.join("link.shp");
            let _ = std::fs::remove_file(&link);
            std::fs::write(db.join("real.shp"), b"").expect("scratch write");
            #[cfg(unix)]
            std::os::unix::fs::symlink(db.join("real.shp"), &link).expect("symlink");
            link
        } else if case.seq.len() % 3 == 2 {
            dir.join(format!("C04-{}.SHP", tid))
        } else if case.seq.iter().sum::<usize>() % 3 == 1 {
            // no extension at all
            dir.join(format!("c04-{}-noext", tid))
        } else if case.seq.iter().sum::<usize>() % 3 == 2 && cfg!(unix) {
            // a name that is not valid UTF-8
            #[cfg(unix)]
            {
                use std::os::unix::ffi::OsStrExt;
                let mut b = b"c04-\xff\xfe-".to_vec();
                b.extend(tid.as_bytes());
                b.extend(b".shp");
                dir.join(std::ffi::OsStr::from_bytes(&b))
            }
            #[cfg(not(unix))]
            dir.join(format!("c04-{}.shp", tid))
        } else {
            dir.join(format!("c04-{}.shp", tid))
        };
        std::fs::write(&path, vec![0xEEu8; 70_000]).expect("prefill");
        std::fs::write(path.with_extension("shx"), vec![0xEEu8; 9_000]).expect("prefill");
        {
            let mut w = ShapeWriter::from_path(&path).expect("create");
            if case.fin_mask & 1 != 0 {
                w.finalize().expect("finalize");
            }
            for (i, s) in libs.iter().enumerate() {
                write_shape(&mut w, s).expect("write");
                if i < 31 && case.fin_mask & (1 << (i + 1)) != 0 {
                    w.finalize().expect("finalize");
                }
            }
        }
        shp = std::fs::read(&path).unwrap_or_default();
        shx = std::fs::read(path.with_extension("shx")).unwrap_or_default();
        disk_count = Some(ShapeReader::from_path(&path).map_err(|e| err_kind(&e)).and_then(|r| r.shape_count().map_err(|e| err_kind(&e))));
        for stray in ["SHX", "Shx"] {
            let _ = std::fs::remove_file(path.with_extension(stray));
        }
        let _ = std::fs::remove_file(&path);
        let _ = std::fs::remove_file(path.with_extension("shx"));
        let _ = std::fs::remove_dir_all(dir.join(format!("c04-{}-a", tid)));
        let _ = std::fs::remove_dir_all(dir.join(format!("c04-{}-b", tid)));
    } else {
        let stale = if case.prefill { vec![0xEEu8; 6000] } else { vec![] };
        let (a, b) = (Dev::quiet(stale.clone()), Dev::quiet(stale));
        {
            let mut w = ShapeWriter::with_shx(a.clone(), b.clone());
            if case.fin_mask & 1 != 0 {
                w.finalize().expect("finalize");
            }
            for (i, s) in libs.iter().enumerate() {
                write_shape(&mut w, s).expect("write");
                if i < 31 && case.fin_mask & (1 << (i + 1)) != 0 {
                    w.finalize().expect("finalize");
                }
            }
        }
        shp = a.data();
        shx = b.data();
    }
    let open = || ShapeReader::with_shx(Dev::quiet(shp.clone()), Dev::quiet(shx.clone())).map_err(|e| err_kind(&e));
    let shape_count = open().and_then(|r| r.shape_count().map_err(|e| err_kind(&e)));
    let mut hints = vec![];
    let seq_with = open().and_then(|mut r| {
        let mut it = r.iter_shapes();
        let mut v = vec![];
        loop {
            hints.push(it.size_hint());
            if v.len() > n + 4 {
                return Err("iteration does not end".into());
            }
            match it.next() {
                None => break,
                Some(Ok(s)) => v.push(from_lib(&s)),
                Some(Err(e)) => return Err(format!("item {}: {}", v.len(), err_kind(&e))),
            }
        }
        Ok(v)
    });
    let seq_without = ShapeReader::new(Dev::quiet(shp.clone())).map_err(|e| err_kind(&e)).and_then(|mut r| {
        let mut v = vec![];
        for item in r.iter_shapes() {
            if v.len() > n + 4 {
                return Err("iteration does not end".into());
            }
            match item {
                Ok(s) => v.push(from_lib(&s)),
                Err(e) => return Err(format!("item {}: {}", v.len(), err_kind(&e))),
            }
        }
        Ok(v)
    });
    let mut nth = vec![];
    let mut nth_pos = vec![];
    if let Ok(mut r) = open() {
        // random access at every position (for very long files: both ends and the block boundaries)
        let positions: Vec<usize> = if n <= 64 { (0..n + 2).collect() } else { (0..8).chain(n / 2 - 2..n / 2 + 2).chain(996..1004.min(n)).chain(1020..1030.min(n)).chain(2996..3004.min(n)).chain(n - 4..n + 2).collect() };
        // (and the ends of the index type: nothing is there)
        for i in positions.into_iter().chain([i32::MAX as usize, u32::MAX as usize, usize::MAX - 1, usize::MAX]).chain((0..4).flat_map(|k| [(1usize << 32) + k, (1usize << 33) + k, (1usize << 63) + k])) {
            nth_pos.push(i);
            nth.push(r.read_nth_shape(i).map(|x| x.map(|s| from_lib(&s)).map_err(|e| err_kind(&e))));
        }
    }
    let mut progs = vec![];
    if n <= 8 {
        let conv = |o: iterprog::Out<Result<Shape, shapefile::Error>>| iterprog::Out { answers: o.answers.into_iter().map(|a| a.map(|x| x.map(|s| from_lib(&s)).map_err(|e| err_kind(&e)))).collect(), count: o.count };
        if let Ok(mut r) = open() {
            for pre in 0..3u8 {
                for p in PROGS {
                    let ready = match pre {
                        0 => r.seek(0).is_ok(),
                        1 => r.seek(0).is_ok() && r.iter_shapes().next().is_some(),
                        _ => r.seek(1).is_ok(),
                    };
                    if ready {
                        progs.push((true, pre, p, conv(iterprog::run(r.iter_shapes(), p, n + 3))));
                    }
                }
            }
        }
        for pre in 0..2u8 {
            for p in PROGS {
                if let Ok(mut r) = ShapeReader::new(Dev::quiet(shp.clone())) {
                    if pre == 1 && r.iter_shapes().next().is_none() {
                        continue;
                    }
                    progs.push((false, pre, p, conv(iterprog::run(r.iter_shapes(), p, n + 3))));
                }
            }
        }
    }
    Obs {
        n,
        shp,
        shx,
        shape_count,
        seq_with,
        seq_without,
        nth,
        nth_pos,
        hints,
        progs,
        disk_count,
    }
}

pub fn judge(case: &Case, o: &Obs) -> Vec<(String, String)> {
    let mut out = vec![];
    let tn = case.ty.name();
    let n = o.n;
    // a generic Write + Seek destination cannot be truncated: with stale content behind
    // the new files, the byte-level clauses are judged on what the headers declare
    let (shp_view, shx_view): (&[u8], &[u8]) = if case.prefill {
        let decl = |b: &[u8]| b.get(24..28).map(|x| i32::from_be_bytes(x.try_into().unwrap()) as i64 * 2).filter(|l| *l >= 100 && *l as usize <= b.len()).map(|l| l as usize);
        match (decl(&o.shp), decl(&o.shx)) {
            (Some(a), Some(b)) => (&o.shp[..a], &o.shx[..b]),
            _ => (&o.shp[..], &o.shx[..]),
        }
    } else {
        (&o.shp[..], &o.shx[..])
    };
    match shx_matches_shp(shp_view, shx_view) {
        Err(e) => out.push((format!("{}:bytes:{}", tn, clause_class(&e)), e)),
        Ok(df) => {
            if df.records.len() != n {
                out.push((format!("{}:bytes:record-count", tn), format!("{} records in the .shp, {} written", df.records.len(), n)));
            }
        }
    }
    if let Some(c) = &o.disk_count {
        if *c != Ok(n) {
            out.push((format!("{}:by-path:index-not-found-again", tn), format!("ShapeWriter::from_path then ShapeReader::from_path on the same path: shape_count() = {:?}, {} written", c, n)));
        }
    }
    if o.shape_count != Ok(n) {
        out.push((format!("{}:shape-count", tn), format!("shape_count() = {:?}, {} written", o.shape_count, n)));
    }
    match (&o.seq_with, &o.seq_without) {
        (Ok(a), Ok(b)) => {
            if a.len() != n || b.len() != n {
                out.push((format!("{}:iteration-count", tn), format!("{} items with index, {} without, {} written", a.len(), b.len(), n)));
            } else if !a.iter().zip(b).all(|(x, y)| mread_eq(x, y)) {
                out.push((format!("{}:iteration-with-vs-without-index", tn), "sequences differ".into()));
            }
            if o.nth.is_empty() {
                out.push((format!("{}:random-access-open", tn), "reader could not be reopened".into()));
            } else {
                for (x, &i) in o.nth.iter().zip(&o.nth_pos) {
                    if i < n.min(a.len()) {
                        match x {
                            Some(Ok(s)) if mread_eq(s, &a[i]) => {}
                            other => {
                                out.push((
                                    format!("{}:random-access-differs", tn),
                                    format!("read_nth_shape({}) = {} but iteration position {} holds another shape", i, match other { Some(Ok(_)) => "a different shape".to_string(), Some(Err(e)) => format!("Err({})", e), None => "None".into() }, i),
                                ));
                                break;
                            }
                        }
                    } else if i >= n && x.is_some() {
                        out.push((format!("{}:random-access-beyond-end", tn), format!("read_nth_shape({}) is Some for a file of {} shapes", i, n)));
                        break;
                    }
                }
            }
            // the std adaptors over the iterator: what they return over the plain sequence of the n shapes
            for (with, pre, p, got) in &o.progs {
                let start = if *pre == 0 { 0 } else { 1 };
                let (want, _) = iterprog::reference(start, n, *p, n + 3);
                let same = want.count == got.count
                    && want.answers.len() == got.answers.len()
                    && want.answers.iter().zip(&got.answers).all(|(w, g)| match (w, g) {
                        (None, None) => true,
                        (Some(k), Some(Ok(s))) => *k < a.len() && mread_eq(s, &a[*k]),
                        _ => false,
                    });
                if !same {
                    let shown: Vec<String> = got.answers.iter().map(|x| match x {
                        None => "None".to_string(),
                        Some(Err(e)) => format!("Err({})", e),
                        Some(Ok(s)) => match a.iter().position(|y| mread_eq(s, y)) {
                            Some(k) => format!("shape {}", k),
                            None => "a shape that was not written".into(),
                        },
                    }).collect();
                    out.push((
                        format!("{}:adaptor-iteration:{}", tn, if *with { "with-index" } else { "without-index" }),
                        format!("{} {} ({}): returned {:?} count {:?}; over shapes {}..{} it returns {:?} count {:?}", p.name(), ["on a fresh reader", "after one next()", "after seek(1)"][*pre as usize], if *with { "with index" } else { "without index" }, shown, got.count, start, n, want.answers, want.count),
                    ));
                    break;
                }
            }
            // size hints: before the k-th next() exactly n-k remain
            for (k, h) in o.hints.iter().enumerate() {
                let rem = n.saturating_sub(k);
                if *h != (rem, Some(rem)) {
                    out.push((format!("{}:size-hint", tn), format!("size_hint before next() #{} is {:?}, {} shapes remain", k, h, rem)));
                    break;
                }
            }
        }
        (a, b) => out.push((
            format!("{}:iteration-error", tn),
            format!("with index: {:?}; without: {:?}", a.as_ref().map(|v| v.len()), b.as_ref().map(|v| v.len())),
        )),
    }
    out
}

/// C04 over faulted runs: once the destination works again, the index drop leaves behind (both files up to
/// their declared lengths) addresses exactly the records of the shapes whose write returned Ok.
pub fn judge_frun(_pal: &crate::wexec::Palette, case: &crate::frun::FCase, run: &crate::frun::FRun) -> Vec<(String, String)> {
    let mut out = vec![];
    if !run.drop_undisturbed(case.ops.len()) || !case.with_shx {
        return out;
    }
    let ctxt = || format!("faults {:?} fired in calls {:?}; results {:?}", case.faults, run.fired, run.results);
    match shx_matches_shp(crate::frun::declared(&run.shp), crate::frun::declared(&run.shx)) {
        Err(e) => out.push((format!("fault-run:{}:bytes:{}", case.ty.name(), clause_class(&e)), format!("{}: {}", ctxt(), e))),
        Ok(df) => {
            if df.records.len() != run.accepted.len() {
                out.push((format!("fault-run:{}:bytes:record-count", case.ty.name()), format!("{}: {} records, {} writes returned Ok", ctxt(), df.records.len(), run.accepted.len())));
            }
        }
    }
    out
}

fn run_case(case: &Case, ctx: &mut Ctx) {
    let obs = match catch(|| observe(case)) {
        Ok(o) => o,
        Err(p) => {
            ctx.case_done(case.hash(), true, 1);
            ctx.violation(format!("{}:{}", case.ty.name(), p.sig()), || case.to_json(), || format!("{}:{} {}", p.file, p.line, p.msg));
            return;
        }
    };
    ctx.lib_calls += (case.seq.len() * 4 + 8) as u64;
    let mut oh = Fnv::new();
    oh.bytes(&obs.shx);
    ctx.case_done(case.hash(), case.seq.len() >= 2, oh.finish());
    if case.seq.len() >= 3 && case.seq.len() < 10 {
        ctx.sample(|| case.to_json());
    }
    for (sig, d) in judge(case, &obs) {
        ctx.violation(sig, || case.to_json(), || d);
    }
}

fn selftest() -> (u64, u64) {
    let case = Case {
        ty: Ty::PolygonM,
        seq: vec![1, 0, 2],
        disk: false,
        fin_mask: 0,
        prefill: false,
    };
    if !judge(&case, &observe(&case)).is_empty() {
        return (1, 0);
    }
    let mut inj = 0;
    let mut det = 0;
    let mut t = |f: &dyn Fn(&mut Obs)| {
        let mut o = observe(&case);
        f(&mut o);
        inj += 1;
        det += (!judge(&case, &o).is_empty()) as u64;
    };
    t(&|o| o.shx[100 + 8 + 3] ^= 2); // second offset
    t(&|o| o.shx[100 + 16 + 7] ^= 1); // third length
    t(&|o| o.shx[27] ^= 4); // length field
    t(&|o| o.shx[40] ^= 1); // header box
    t(&|o| {
        o.shx.truncate(o.shx.len() - 8);
    });
    t(&|o| o.shape_count = Ok(2));
    t(&|o| o.nth[3] = o.nth[2].clone());
    t(&|o| o.nth.swap(0, 1));
    t(&|o| o.hints[1] = (1, Some(1)));
    t(&|o| {
        let k = o.progs.iter().position(|(w, pre, p, _)| !*w && *pre == 1 && *p == Prog::StepBy(2)).unwrap();
        o.progs[k].3.answers.insert(0, None);
    });
    t(&|o| {
        let k = o.progs.iter().position(|(w, pre, p, _)| *w && *pre == 2 && *p == Prog::NthNext(0)).unwrap();
        o.progs[k].3.answers.swap(0, 1);
    });
    t(&|o| {
        if let Ok(v) = &mut o.seq_without {
            v.swap(0, 2)
        }
    });
    (inj, det)
}

pub fn check(tier: Tier) -> i32 {
    let started = Instant::now();
    if !super::c01_c02::scratch_usable() {
        return 2;
    }
    let maxn = tier.pick(4, 5);
    let mut cases: Vec<Case> = vec![];
    for ty in ALL13 {
        let k = reduced_set(ty).len();
        for n in 0..=maxn {
            for t in tuples(k, n) {
                cases.push(Case {
                    ty,
                    seq: t.clone(),
                    disk: false,
                    fin_mask: 0,
                    prefill: false,
                });
                if n <= 2 || (n == 3 && t[0] == 0) {
                    cases.push(Case {
                        ty,
                        seq: t.clone(),
                        disk: true,
                        fin_mask: 0,
                        prefill: false,
                    });
                }
                // every finalize placement around short sequences
                if (n <= 3 && t.iter().all(|i| *i < 3)) || t.iter().all(|i| *i < 2) {
                    for mask in 1u32..(1 << (n + 1)) {
                        cases.push(Case { ty, seq: t.clone(), disk: n <= 1, fin_mask: mask, prefill: false });
                        if n >= 1 && n <= 2 {
                            cases.push(Case { ty, seq: t.clone(), disk: false, fin_mask: mask, prefill: true });
                        }
                    }
                }
            }
        }
    }
    // record-count ladder around powers of two
    for ty in [Ty::Point, Ty::MultipointM, Ty::PolylineZ] {
        let k = reduced_set(ty).len();
        for n in COUNT_LADDER {
            cases.push(Case { ty, seq: (0..n).map(|i| (i * 7 + i / 3) % k).collect(), disk: n == 1025, fin_mask: if n == 1025 { 1 << 20 } else { 0 }, prefill: false });
        }
    }
    // every record count up to the bound (no count class is skipped)
    for ty in [Ty::Point, Ty::MultipointM] {
        let k = reduced_set(ty).len();
        for n in 5..=tier.pick(1100usize, 2100) {
            cases.push(Case { ty, seq: (0..n).map(|i| (i * 7 + i / 3) % k).collect(), disk: false, fin_mask: 0, prefill: false });
        }
    }
    // interleave so that the long files are spread over the blocks
    let nblocks = 256usize.min(cases.len());
    let (agg, capped) = par_blocks(nblocks, None, |b, ctx, tick| {
        for c in cases.iter().skip(b).step_by(nblocks) {
            run_case(c, ctx);
            tick();
        }
    });
    super::c01_c02::cleanup_scratch();
    // the same statement when the destination failed once or twice and works again
    let (mut agg, mut capped) = (agg, capped);
    {
        use crate::wexec::WOp;
        let hists = crate::frun::histories(&[WOp::W(0), WOp::W(1), WOp::F], tier.pick(3, 4));
        let (a, c) = crate::frun::sweep(&ALL13, |_| None, &[true], &hists, true, None, |pal, case, run, ctx| {
            let mut oh = Fnv::new();
            oh.bytes(&run.shx);
            ctx.case_done(case.hash(), true, oh.finish());
            for (sig, d) in judge_frun(pal, case, run) {
                ctx.violation(sig, || case.to_json(), || d);
            }
        });
        agg.absorb(a);
        capped |= c;
    }
    // the self-test runs the library too: on a tree that panics there it counts as failed (a verdict, if there is one,
    // takes precedence over it)
    let st = catch(|| selftest()).unwrap_or((1, 0));
    finish(
        RunInfo {
            prop: "C04",
            tier,
            level: "model_checking",
            engine: "E2 enumerator: every ordered tuple of different-size shapes written by the real ShapeWriter, .shx parsed independently (RefCodec), reader routes compared",
            rule: "13 types x every n in 0..=maxn x every ordered n-tuple over the type's reduced set of pairwise different-size structures; in-memory for all, from_path for n<=2 (and n=3 starting with structure 0; by turns under a plain name, a name in capitals, a name without extension, a name that is not valid UTF-8, and through a symbolic link in another directory); for n<=8 the iterator is also driven through 14 programs of std adaptors (nth, skip, step_by, last, count) with and without the index from a fresh reader, after one next() and after seek(1); plus every history over {write a, write b, finalize} up to the fault-history bound x 13 types with every single one-shot fault and every unordered pair of faults on .shp / .shx: whenever no fault fired in drop, the two files (up to their declared lengths) satisfy the byte-level clause for the shapes whose write returned Ok; non-trivial = n >= 2",
            bounds: json!({"max_records": maxn, "reduced_set_sizes": ALL13.iter().map(|t| reduced_set(*t).len()).collect::<Vec<_>>() }),
            exhaustive: true,
            assumptions: vec!["record sizes beyond the reduced set and n beyond the bound are not covered".into()],
            started,
            states: 0,
            transitions: 0,
            selftest: st,
            extra: Default::default(),
        },
        agg,
        capped,
    )
}

pub fn replay(v: &Value) -> Vec<(String, String)> {
    if let Some(fc) = crate::frun::FCase::from_json(v) {
        let pal = fc.palette();
        return match catch(|| crate::frun::run(&pal, &fc)) {
            Ok(r) => judge_frun(&pal, &fc, &r),
            Err(p) => vec![(format!("fault-run:{}:{}", fc.ty.name(), p.sig()), p.msg)],
        };
    }
    match Case::from_json(v) {
        None => vec![("bad-replay-file".into(), "cannot parse case".into())],
        Some(case) => match catch(|| observe(&case)) {
            Ok(o) => judge(&case, &o),
            Err(p) => vec![(format!("{}:{}", case.ty.name(), p.sig()), p.msg)],
        },
    }
}
