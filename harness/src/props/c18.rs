//! C18: a shape's announced byte size equals what its serialisation emits,
//! and the record header stores (size + 4) / 2 words.

use crate::bridge::*;
use crate::dev::Dev;
use crate::engine::*;
use crate::model::*;
use crate::with_concrete;
use serde_json::{json, Value};
use shapefile::record::WritableShape;
use shapefile::ShapeWriter;
use std::time::Instant;

#[derive(Clone, Debug)]
pub struct Case {
    pub ty: Ty,
    /// vertices per part as handed to the constructor
    pub lens: Vec<usize>,
    /// part kinds (polygon role / patch kind), same length
    pub kinds: Vec<u8>,
    /// rings handed over closed (first == last) or open
    pub closed: bool,
    /// measures: 0 distinct real data, 1 all NO_DATA, 2 all NaN, 3 only the first NO_DATA, 4 all -inf
    pub mvar: u8,
    /// the shape is not constructed but READ from a hand-assembled, size-consistent record whose part start
    /// array is this one (it need not start at 0, may be empty) over `lens[0]` points; .1: M block present
    pub foreign: Option<(Vec<i32>, bool)>,
    /// the record is written through a destination whose operation k fails once with this error kind
    /// (0 Interrupted, 1 WouldBlock, 2 TimedOut)
    pub fault: Option<(u8, u64)>,
}

impl Case {
    pub fn to_json(&self) -> Value {
        json!({"ty": self.ty.name(), "lens": self.lens, "kinds": self.kinds, "closed": self.closed, "mvar": self.mvar,
            "foreign": self.foreign.as_ref().map(|(p, m)| json!({"part_starts": p, "with_m": m})), "fault": self.fault.map(|(k, op)| json!([k, op]))})
    }
    pub fn from_json(v: &Value) -> Option<Case> {
        let arr = |k: &str| -> Option<Vec<u64>> { v.get(k)?.as_array()?.iter().map(|x| x.as_u64()).collect() };
        Some(Case {
            ty: Ty::from_name(v.get("ty")?.as_str()?)?,
            lens: arr("lens")?.into_iter().map(|x| x as usize).collect(),
            kinds: arr("kinds")?.into_iter().map(|x| x as u8).collect(),
            closed: v.get("closed")?.as_bool()?,
            mvar: v.get("mvar").and_then(|x| x.as_u64()).unwrap_or(0) as u8,
            foreign: match v.get("foreign") {
                Some(f) if f.is_object() => Some((f.get("part_starts")?.as_array()?.iter().map(|x| x.as_i64().map(|i| i as i32)).collect::<Option<Vec<_>>>()?, f.get("with_m")?.as_bool()?)),
                _ => None,
            },
            fault: match v.get("fault") {
                Some(Value::Array(a)) if a.len() == 2 => Some((a[0].as_u64()? as u8, a[1].as_u64()?)),
                _ => None,
            },
        })
    }
    fn hash(&self) -> u64 {
        let mut h = Fnv::new();
        h.str(&self.to_json().to_string());
        h.finish()
    }
    fn model(&self) -> MShape {
        let mut k = 0usize;
        let mut parts = vec![];
        for (l, kind) in self.lens.iter().zip(&self.kinds) {
            let mut pts: Vec<P4> = (0..*l).map(|i| dflt(k + i)).collect();
            for (i, p) in pts.iter_mut().enumerate() {
                p[3] = match self.mvar {
                    0 => p[3],
                    1 => NO_DATA,
                    2 => f64::NAN,
                    3 => if k + i == 0 { NO_DATA } else { p[3] },
                    _ => f64::NEG_INFINITY,
                };
            }
            k += l;
            if self.closed && *l >= 2 {
                let f = pts[0];
                *pts.last_mut().unwrap() = f;
            }
            parts.push(MPart { kind: *kind, pts });
        }
        MShape { ty: self.ty, parts }
    }
}

pub struct Obs {
    pub announced: usize,
    pub emitted: usize,
    /// content-length field of the record header, in words
    pub header_words: i32,
    pub write_ok: bool,
    /// the record (header included) comes out byte-identical through short-writing destinations
    pub short_write_same: bool,
}

/// A one-record file whose record is assembled by hand: `n` points, the given part start array, sizes consistent.
pub fn foreign_file(ty: Ty, starts: &[i32], n: usize, with_m: bool) -> Vec<u8> {
    let mut c: Vec<u8> = vec![];
    c.extend(ty.code().to_le_bytes());
    c.extend([0u8; 32]);
    c.extend((starts.len() as i32).to_le_bytes());
    c.extend((n as i32).to_le_bytes());
    for s in starts {
        c.extend(s.to_le_bytes());
    }
    if ty == Ty::Multipatch {
        for i in 0..starts.len() {
            c.extend(((i % 6) as i32).to_le_bytes());
        }
    }
    for i in 0..n {
        c.extend((i as f64).to_le_bytes());
        c.extend((2.0 * i as f64).to_le_bytes());
    }
    if ty.has_z() {
        c.extend([0u8; 16]);
        for i in 0..n {
            c.extend((100.0 + i as f64).to_le_bytes());
        }
    }
    if ty.carries_m() && with_m {
        c.extend([0u8; 16]);
        for i in 0..n {
            c.extend((1000.0 + i as f64).to_le_bytes());
        }
    }
    let mut f = crate::refmodel::codec::encode_header(((100 + 8 + c.len()) / 2) as i32, ty.code(), &[0.0; 8]);
    f.extend(1i32.to_be_bytes());
    f.extend(((c.len() / 2) as i32).to_be_bytes());
    f.extend(c);
    f
}

/// None: the reader refuses the hand-assembled record (then there is no shape to speak about)
pub fn subject(case: &Case) -> Option<shapefile::Shape> {
    match &case.foreign {
        None => Some(to_lib(&case.model())),
        Some((starts, with_m)) => {
            let f = foreign_file(case.ty, starts, case.lens[0], *with_m);
            let mut r = shapefile::ShapeReader::new(Dev::quiet(f)).ok()?;
            let x = r.iter_shapes().next()?;
            x.ok()
        }
    }
}

pub fn observe(case: &Case) -> Obs {
    let lib = match subject(case) {
        Some(l) => l,
        None => return Obs { announced: 0, emitted: 0, header_words: 2, write_ok: true, short_write_same: true },
    };
    if let Some((kind, k)) = case.fault {
        // the record written through a destination of which one operation fails once; when write_shape reports
        // success the file must be the one an undisturbed destination receives
        let (announced, emitted, write_ok) = with_concrete!(&lib, s => {
            let mut buf: Vec<u8> = vec![];
            let r = s.write_to(&mut buf);
            (s.size_in_bytes(), buf.len(), r.is_ok())
        }, unreachable!());
        let clean = Dev::quiet(vec![]);
        {
            let mut w = ShapeWriter::new(clean.clone());
            write_shape(&mut w, &lib).expect("write");
            write_shape(&mut w, &lib).expect("write");
        }
        let d = Dev::quiet(vec![]);
        d.set_fault_kind([std::io::ErrorKind::Interrupted, std::io::ErrorKind::WouldBlock, std::io::ErrorKind::TimedOut][kind as usize]);
        d.fail_at(k, crate::dev::FaultMode::OneShot);
        let (r1, r2, fired_in_writes);
        {
            let mut w = ShapeWriter::new(d.clone());
            r1 = write_shape(&mut w, &lib).is_ok();
            r2 = write_shape(&mut w, &lib).is_ok();
            fired_in_writes = d.faults_fired() > 0;
        }
        let b = d.data();
        // (a fault that only fires during the final drop cannot be reported and leaves the header as it was)
        let same = !(r1 && r2) || !fired_in_writes || b == clean.data();
        let header_words = if r1 && b.len() >= 108 { i32::from_be_bytes(b[104..108].try_into().unwrap()) } else { ((emitted + 4) / 2) as i32 };
        return Obs { announced, emitted, header_words, write_ok, short_write_same: same };
    }
    let (announced, emitted, write_ok) = with_concrete!(&lib, s => {
        let mut buf: Vec<u8> = vec![];
        let r = s.write_to(&mut buf);
        (s.size_in_bytes(), buf.len(), r.is_ok())
    }, unreachable!());
    let d = Dev::quiet(vec![]);
    {
        let mut w = ShapeWriter::new(d.clone());
        write_shape(&mut w, &lib).expect("write");
    }
    let b = d.data();
    let header_words = i32::from_be_bytes(b[104..108].try_into().unwrap());
    // the same through destinations that accept fewer bytes than offered per call
    let mut short_write_same = true;
    if emitted <= 4096 {
        for chunk in [3usize, 5] {
            let d2 = Dev::quiet(vec![]);
            d2.set_chunking(crate::dev::Chunking::Uniform(chunk));
            {
                let mut w = ShapeWriter::new(d2.clone());
                write_shape(&mut w, &lib).expect("write");
            }
            short_write_same &= d2.data() == b;
        }
    }
    Obs { announced, emitted, header_words, write_ok, short_write_same }
}

pub fn judge(case: &Case, o: &Obs) -> Vec<(String, String)> {
    let mut out = vec![];
    let tn = case.ty.name();
    if !o.write_ok {
        out.push((format!("{}:write-to-failed", tn), "write_to a Vec failed".into()));
    }
    if o.announced != o.emitted {
        out.push((format!("{}:announced-vs-emitted", tn), format!("size_in_bytes() = {}, write_to emitted {}", o.announced, o.emitted)));
    }
    if !o.short_write_same {
        if let Some((kind, k)) = case.fault {
            out.push((format!("{}:record-differs-after-a-reported-success", tn), format!("operation {} of the destination failed once ({}); both write_shape calls returned Ok, yet the file differs from the one an undisturbed destination receives (the stored lengths no longer describe what was emitted)", k, ["Interrupted", "WouldBlock", "TimedOut"][kind as usize])));
        } else {
            out.push((format!("{}:record-differs-under-short-writes", tn), "record header / content differ when the destination accepts 3 resp. 5 bytes per call".into()));
        }
    }
    if o.header_words as i64 * 2 != o.emitted as i64 + 4 {
        out.push((format!("{}:record-header-length", tn), format!("record header says {} words, content is {} + 4 bytes", o.header_words, o.emitted)));
    }
    out
}

fn vectors(alpha: &[usize], n: usize) -> Vec<Vec<usize>> {
    let mut cur = vec![vec![]];
    for _ in 0..n {
        let mut next = vec![];
        for c in &cur {
            for a in alpha {
                let mut x: Vec<usize> = c.clone();
                x.push(*a);
                next.push(x);
            }
        }
        cur = next;
    }
    cur
}

fn cases(tier: Tier) -> Vec<Case> {
    let mut out = vec![];
    let (maxp, maxl) = tier.pick((4usize, 5usize), (6, 8));
    for ty in ALL13 {
        match ty.family() {
            Family::Point => {
                for mvar in 0..5u8 {
                    out.push(Case { ty, lens: vec![1], kinds: vec![0], closed: false, mvar, foreign: None, fault: None });
                }
            }
            Family::Multipoint => {
                for n in (1..=4200).chain([65536, 65537, 70001, 131073]) {
                    for mvar in if n <= 4 { 0..5u8 } else { 0..1u8 } {
                        out.push(Case { ty, lens: vec![n], kinds: vec![0], closed: false, mvar, foreign: None, fault: None });
                    }
                }
            }
            fam => {
                let min = if fam == Family::Polyline { 2 } else { 1 };
                // dense grid: lengths min..=maxl, but the full product only up to 3 parts;
                // above that lengths from {min, min+1, maxl}
                for p in 1..=maxp {
                    let alpha: Vec<usize> = if p <= 3 { (min..=maxl).collect() } else { vec![min, min + 1, maxl] };
                    let mut all_lens = vectors(&alpha, p);
                    if fam != Family::Polyline && p >= 2 {
                        // empty parts anywhere but first (the constructors accept them)
                        let mut with_zero: Vec<usize> = vec![0];
                        with_zero.extend(alpha.iter().copied().filter(|l| *l <= min + 2));
                        for mut v in vectors(&with_zero, p - 1) {
                            if v.contains(&0) {
                                let mut x = vec![min + 1];
                                x.append(&mut v);
                                all_lens.push(x);
                            }
                        }
                    }
                    for lens in all_lens {
                        let kind_sets: Vec<Vec<u8>> = match fam {
                            Family::Polygon => vec![vec![0; p], (0..p).map(|i| (i % 2) as u8).collect()],
                            Family::Multipatch => vec![(0..p).map(|i| (i % 6) as u8).collect(), (0..p).map(|i| ((i + 3) % 6) as u8).collect()],
                            _ => vec![vec![0; p]],
                        };
                        for kinds in kind_sets {
                            for closed in [false, true] {
                                if closed && fam == Family::Polyline {
                                    continue;
                                }
                                for mvar in if ty.carries_m() && p <= 2 { 0..5u8 } else { 0..1u8 } {
                                    out.push(Case { ty, lens: lens.clone(), kinds: kinds.clone(), closed, mvar, foreign: None, fault: None });
                                }
                            }
                        }
                    }
                }
                // every single-part size up to 4200
                for n in (maxl + 1)..=4200usize {
                    if n >= min {
                        out.push(Case { ty, lens: vec![n], kinds: vec![0], closed: false, mvar: 0, foreign: None, fault: None });
                    }
                }
                // ladder of large shapes
                for n in [10usize, 100, 1000, 65536, 65537, 70001, 131073] {
                    out.push(Case { ty, lens: vec![n], kinds: vec![if fam == Family::Multipatch { 0 } else { 0 }], closed: false, mvar: 0, foreign: None, fault: None });
                }
                // EVERY part count up to 3000 for one type per family, and a ladder beyond
                let counts: Vec<usize> = if matches!(ty, Ty::Polyline | Ty::PolygonM | Ty::Multipatch) { (5..=3000).chain([4097, 5000, 8193]).collect() } else { vec![100, 1000, 2049, 4097] };
                for p in counts {
                    out.push(Case { ty, lens: vec![2; p], kinds: (0..p).map(|i| if fam == Family::Multipatch { (i % 6) as u8 } else { (i % 2) as u8 * (fam == Family::Polygon) as u8 }).collect(), closed: false, mvar: 0, foreign: None, fault: None });
                }
            }
        }
    }
    // shapes READ from hand-assembled records: every ascending part start array of 0..3 entries over 0..=n, n = 0..5
    for ty in ALL13 {
        if !ty.is_multipart() {
            continue;
        }
        for n in 0..=5usize {
            let mut arrays: Vec<Vec<i32>> = vec![vec![]];
            for len in 1..=3usize {
                for v in vectors(&(0..=n).collect::<Vec<_>>(), len) {
                    if v.windows(2).all(|w| w[0] <= w[1]) {
                        arrays.push(v.iter().map(|x| *x as i32).collect());
                    }
                }
            }
            for starts in arrays {
                for with_m in if ty.carries_m() { vec![true, false] } else { vec![true] } {
                    out.push(Case { ty, lens: vec![n], kinds: vec![0], closed: false, mvar: 0, foreign: Some((starts.clone(), with_m)), fault: None });
                }
            }
        }
    }
    // a record written through a destination of which one operation fails once (Interrupted / WouldBlock / TimedOut)
    for ty in ALL13 {
        let (lens, kinds): (Vec<usize>, Vec<u8>) = match ty.family() {
            Family::Point => (vec![1], vec![0]),
            Family::Multipoint => (vec![3], vec![0]),
            Family::Multipatch => (vec![3, 4], vec![0, 2]),
            Family::Polygon => (vec![4, 4], vec![0, 1]),
            _ => (vec![2, 3], vec![0, 0]),
        };
        for kind in 0..3u8 {
            for k in 0..40u64 {
                out.push(Case { ty, lens: lens.clone(), kinds: kinds.clone(), closed: false, mvar: 0, foreign: None, fault: Some((kind, k)) });
            }
        }
    }
    out
}

/// A user-defined shape announcing (and emitting) `size` bytes, written to a discarding destination: the stored
/// content length is (size + 4) / 2 words, also where size + 4 exceeds 2^31.
pub fn giant_verdicts(size: usize) -> Vec<(String, String)> {
    use super::c12::{Blob, Sink};
    let shp = Sink::new(None);
    let s2 = shp.clone();
    let r = catch(move || {
        let mut w = ShapeWriter::new(s2);
        w.write_shape(&Blob { size }).map_err(|e| err_kind(&e))
    });
    match r {
        Err(p) => vec![(format!("user-shape:{}", p.sig()), format!("a shape announcing {} bytes: {}", size, p.msg))],
        Ok(Err(e)) => vec![("user-shape:write-failed".to_string(), format!("a shape announcing {} bytes on a healthy destination: {}", size, e))],
        Ok(Ok(())) => {
            let d = shp.0.borrow();
            let words = i32::from_be_bytes(d.head[104..108].try_into().unwrap());
            let extent = d.extent;
            let mut out = vec![];
            if words as i64 * 2 != size as i64 + 4 {
                out.push(("user-shape:record-header-length".to_string(), format!("a shape announcing and emitting {} bytes: the record header stores {} words, {} + 4 bytes are {} words", size, words, size, (size + 4) / 2)));
            }
            if extent != 100 + 8 + 4 + size as u64 {
                out.push(("user-shape:emitted".to_string(), format!("{} bytes reached the destination, expected {}", extent, 100 + 8 + 4 + size as u64)));
            }
            out
        }
    }
}

const GIANT_SIZES: [usize; 6] = [1 << 20, (1 << 30) + 8, (1usize << 31) - 8, (1usize << 31) - 4, 1usize << 31, (3usize << 30) + 16];

fn selftest() -> (u64, u64) {
    let case = Case { ty: Ty::PolygonZ, lens: vec![3, 4], kinds: vec![0, 1], closed: false, mvar: 0, foreign: None, fault: None };
    if !judge(&case, &observe(&case)).is_empty() {
        return (1, 0);
    }
    let mut inj = 0;
    let mut det = 0;
    for f in [
        (|o: &mut Obs| o.announced += 8) as fn(&mut Obs),
        |o| o.emitted -= 4,
        |o| o.header_words += 2,
        |o| {
            o.announced += 4;
            o.emitted += 4
        },
        |o| o.short_write_same = false,
    ] {
        let mut o = observe(&case);
        f(&mut o);
        inj += 1;
        det += (!judge(&case, &o).is_empty()) as u64;
    }
    (inj, det)
}

pub fn check(tier: Tier) -> i32 {
    let started = Instant::now();
    let cs = cases(tier);
    let nb = (cs.len() + 63) / 64;
    let (agg, capped) = par_blocks(nb, None, |b, ctx, tick| {
        for c in &cs[b * 64..((b + 1) * 64).min(cs.len())] {
            match catch(|| observe(c)) {
                Ok(o) => {
                    let mut oh = Fnv::new();
                    oh.u64(o.emitted as u64);
                    oh.u64(c.ty.code() as u64);
                    ctx.lib_calls += 3;
                    ctx.case_done(c.hash(), c.lens.len() >= 2 || c.lens[0] >= 2, oh.finish());
                    if c.lens.len() == 3 {
                        ctx.sample(|| c.to_json());
                    }
                    for (sig, d) in judge(c, &o) {
                        ctx.violation(sig, || c.to_json(), || d);
                    }
                }
                Err(p) => {
                    ctx.case_done(c.hash(), true, 1);
                    ctx.violation(format!("{}:{}", c.ty.name(), p.sig()), || c.to_json(), || format!("{}:{} {}", p.file, p.line, p.msg));
                }
            }
            tick();
        }
    });
    // the self-test runs the library too: on a tree that panics there it counts as failed (a verdict, if there is one,
    // takes precedence over it)
    let st = catch(|| selftest()).unwrap_or((1, 0));
    let (mut agg, capped) = (agg, capped);
    {
        let mut g = Ctx::new();
        for size in GIANT_SIZES {
            let cj = json!({"user_shape_size": size});
            let mut hh = Fnv::new();
            hh.str(&cj.to_string());
            g.case_done(hh.finish(), true, 13);
            g.lib_calls += 1;
            for (sig, d) in giant_verdicts(size) {
                g.violation(sig, || cj.clone(), || d);
            }
        }
        agg.absorb(merge(vec![g]));
    }
    finish(
        RunInfo {
            prop: "C18",
            tier,
            level: "model_checking",
            engine: "E2 dense (parts, points-per-part) grid on the real WritableShape::size_in_bytes / write_to and ShapeWriter record header",
            rule: "13 types x every part-length vector with <= maxp parts and lengths min..=maxl (full product up to 3 parts, {min, min+1, maxl} above) x kind patterns x {open, closed rings}, plus a deterministic ladder (1 x {10,100,1000,65536} points; EVERY part count 5..3000 for Polyline / PolygonM / Multipatch and {2049, 4097, 5000, 8193} parts x 2 points); plus shapes READ from hand-assembled size-consistent records (multipart types, 0..5 points, every ascending part start array of 0..3 entries, M block present / absent) whenever the reader accepts them; plus user-defined shapes of 1 MiB .. 3 GiB (around 2^31) on a discarding destination: the stored content length; plus one shape per type written twice through a destination whose operation k (0..40) fails once with Interrupted / WouldBlock / TimedOut: when both writes report success the file equals the undisturbed one; non-trivial = more than one vertex",
            bounds: json!({"max_parts": tier.pick(4, 6), "max_len": tier.pick(5, 8), "cases": cs.len()}),
            exhaustive: true,
            assumptions: vec!["'random larger shapes' of the statement are replaced by the fixed ladder; sizes are affine in (parts, points), the grid pins every coefficient and the constant separately".into()],
            started,
            states: 0,
            transitions: 0,
            selftest: st,
            extra: Default::default(),
        },
        agg,
        capped,
    )
}

pub fn replay(v: &Value) -> Vec<(String, String)> {
    if let Some(size) = v.get("user_shape_size").and_then(|x| x.as_u64()) {
        return giant_verdicts(size as usize);
    }
    match Case::from_json(v) {
        None => vec![("bad-replay-file".into(), "cannot parse case".into())],
        Some(case) => match catch(|| observe(&case)) {
            Ok(o) => judge(&case, &o),
            Err(p) => vec![(format!("{}:{}", case.ty.name(), p.sig()), p.msg)],
        },
    }
}
