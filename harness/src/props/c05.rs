//! C05: stored bounding boxes are exact, per shape and in the file header.
//! Engine E2 with an independent numeric fold as oracle.

use crate::bridge::*;
use crate::dev::Dev;
use crate::engine::*;
use crate::model::*;
use crate::refmodel::codec::{self, DecodeOpts};
use crate::structs::*;
use serde_json::{json, Value};
use shapefile::{Shape, ShapeReader, ShapeWriter};
use std::time::Instant;

#[derive(Clone, Debug)]
pub struct Case {
    pub ty: Ty,
    pub shapes: Vec<MShape>,
    pub ndev: u8,
    /// finalize placements: bit 0 before the first write, bit i after the i-th write
    pub fin_mask: u32,
}

impl Case {
    pub fn to_json(&self) -> Value {
        json!({"ty": self.ty.name(), "ndev": self.ndev, "fin_mask": self.fin_mask, "shapes": self.shapes.iter().map(|s| s.to_json()).collect::<Vec<_>>()})
    }
    pub fn from_json(v: &Value) -> Option<Case> {
        Some(Case {
            ty: Ty::from_name(v.get("ty")?.as_str()?)?,
            ndev: v.get("ndev")?.as_u64()? as u8,
            fin_mask: v.get("fin_mask").and_then(|x| x.as_u64()).unwrap_or(0) as u32,
            shapes: v.get("shapes")?.as_array()?.iter().map(MShape::from_json).collect::<Option<Vec<_>>>()?,
        })
    }
    fn hash(&self) -> u64 {
        let mut h = Fnv::new();
        h.u64(self.shapes.len() as u64);
        for s in &self.shapes {
            s.hash_into(&mut h);
        }
        h.u64(self.fin_mask as u64);
        h.finish()
    }
}

pub struct Obs {
    /// shapes as constructed, with the bbox() the library reports
    pub built: Vec<MRead>,
    pub shp: Vec<u8>,
    /// ShapeReader::header().bbox as xmin ymin xmax ymax zmin zmax mmin mmax
    pub reader_header: Result<[f64; 8], String>,
}

pub fn observe(case: &Case) -> Obs {
    let libs: Vec<Shape> = case.shapes.iter().map(to_lib).collect();
    let built = libs.iter().map(from_lib).collect();
    let d = Dev::quiet(vec![]);
    {
        let mut w = ShapeWriter::new(d.clone());
        if case.fin_mask & 1 != 0 {
            w.finalize().expect("finalize");
        }
        for (i, s) in libs.iter().enumerate() {
            write_shape(&mut w, s).expect("write");
            if i < 31 && case.fin_mask & (1 << (i + 1)) != 0 {
                w.finalize().expect("finalize");
            }
        }
    }
    let shp = d.data();
    let reader_header = ShapeReader::new(Dev::quiet(shp.clone())).map_err(|e| err_kind(&e)).map(|r| {
        let b = r.header().bbox;
        [b.min.x, b.min.y, b.max.x, b.max.y, b.min.z, b.max.z, b.min.m, b.max.m]
    });
    Obs { built, shp, reader_header }
}

/// independent numeric fold: (min, max) per dimension over the vertices
fn extremes(shapes: &[&MShape]) -> [[f64; 2]; 4] {
    let mut e = [[f64::NAN, f64::NAN]; 4];
    for s in shapes {
        for p in &s.parts {
            for v in &p.pts {
                for d in 0..4 {
                    if e[d][0].is_nan() || v[d] < e[d][0] {
                        e[d][0] = v[d];
                    }
                    if e[d][1].is_nan() || v[d] > e[d][1] {
                        e[d][1] = v[d];
                    }
                }
            }
        }
    }
    e
}

const NAMES: [&str; 8] = ["xmin", "ymin", "xmax", "ymax", "zmin", "zmax", "mmin", "mmax"];

fn as8(e: &[[f64; 2]; 4]) -> [f64; 8] {
    [e[0][0], e[1][0], e[0][1], e[1][1], e[2][0], e[2][1], e[3][0], e[3][1]]
}

fn value_class(x: f64) -> &'static str {
    if x.is_infinite() {
        "inf"
    } else if x.abs() == f64::MAX {
        "f64max"
    } else if x == 0.0 {
        "zero"
    } else {
        "finite"
    }
}

pub fn judge(case: &Case, o: &Obs) -> Vec<(String, String)> {
    let mut out = vec![];
    let ty = case.ty;
    let tn = ty.name();
    let dims = ty.dims();
    let used = [true, true, true, true, dims[2], dims[2], dims[3], dims[3]];
    // (a) bbox() of every constructed multi-vertex shape
    let df = codec::decode_file(&o.shp, &DecodeOpts { strict: true });
    for (i, b) in o.built.iter().enumerate() {
        if let Some(bb) = &b.bbox {
            let want = as8(&extremes(&[&b.shape]));
            for k in 0..8 {
                if used[k] && !(bb[k] == want[k]) {
                    out.push((
                        format!("{}:shape-bbox:{}:{}", tn, NAMES[k], value_class(want[k])),
                        format!("shape {}: bbox().{} = {} but the extreme vertex value is {}", i, NAMES[k], fshow(bb[k]), fshow(want[k])),
                    ));
                    break;
                }
            }
            // (b) the box stored in the record
            if let Ok(df) = &df {
                if let Some(rec) = df.records.get(i) {
                    if let Some(sb) = &rec.read.bbox {
                        for k in 0..8 {
                            let u = if k >= 6 { used[k] && rec.has_m_block } else { used[k] };
                            if u && !(sb[k] == want[k]) {
                                out.push((
                                    format!("{}:record-box:{}:{}", tn, NAMES[k], value_class(want[k])),
                                    format!("record {}: stored {} = {} but the extreme vertex value is {}", i, NAMES[k], fshow(sb[k]), fshow(want[k])),
                                ));
                                break;
                            }
                        }
                    }
                }
            }
        }
    }
    // (c) header
    let df = match df {
        Ok(d) => d,
        Err(e) => {
            out.push((format!("{}:validator", tn), e));
            return out;
        }
    };
    let all: Vec<&MShape> = o.built.iter().map(|b| &b.shape).collect();
    let ex = as8(&extremes(&all));
    let every_m_real = all.iter().all(|s| s.parts.iter().all(|p| p.pts.iter().all(|v| !is_nodata(v[3]))));
    for (src, hb) in [("header-bytes", Ok(df.header.bbox)), ("reader-header", o.reader_header.clone())] {
        let hb = match hb {
            Ok(h) => h,
            Err(e) => {
                out.push((format!("{}:{}:unreadable", tn, src), e));
                continue;
            }
        };
        for k in 0..8 {
            let want: Option<f64> = match k {
                0..=3 => Some(ex[k]),
                4 | 5 => Some(if ty.has_z() { ex[k] } else { 0.0 }),
                _ => {
                    if ty.has_m_table() {
                        if every_m_real {
                            Some(ex[k])
                        } else {
                            None // no claim: file contains a no-data measure
                        }
                    } else if ty == Ty::Multipatch {
                        None // no claim for MultiPatch files
                    } else {
                        Some(0.0)
                    }
                }
            };
            if let Some(w) = want {
                if !(hb[k] == w) {
                    out.push((
                        format!("{}:{}:{}:{}", tn, src, NAMES[k], value_class(w)),
                        format!("{} {} = {} but the extreme over all {} shapes is {}", src, NAMES[k], fshow(hb[k]), all.len(), fshow(w)),
                    ));
                    break;
                }
            }
        }
    }
    out
}

fn run_case(case: &Case, ctx: &mut Ctx) {
    let obs = match catch(|| observe(case)) {
        Ok(o) => o,
        Err(p) => {
            ctx.case_done(case.hash(), true, 1);
            ctx.violation(format!("{}:{}", case.ty.name(), p.sig()), || case.to_json(), || format!("{}:{} {}", p.file, p.line, p.msg));
            return;
        }
    };
    ctx.lib_calls += (case.shapes.len() * 2 + 3) as u64;
    let mut oh = Fnv::new();
    oh.bytes(&obs.shp[36..100.min(obs.shp.len())]);
    ctx.case_done(case.hash(), case.ndev >= 1 || case.shapes.len() >= 2, oh.finish());
    if case.ndev == 2 && case.shapes.len() <= 3 {
        ctx.sample(|| case.to_json());
    }
    for (sig, d) in judge(case, &obs) {
        ctx.violation(sig, || case.to_json(), || d);
    }
}

fn c05_structures(ty: Ty) -> Vec<MShape> {
    match ty.family() {
        Family::Point => vec![MShape::point(ty, dflt(0))],
        Family::Multipoint => structures(ty, Scope::Reduced),
        Family::Polyline => structures(ty, Scope::Quick).into_iter().filter(|s| s.parts.len() <= 3).collect(),
        Family::Polygon => structures(ty, Scope::Quick)
            .into_iter()
            .filter(|s| s.parts.iter().all(|p| !p.pts.is_empty()) && s.parts.len() <= 2)
            .collect(),
        Family::Multipatch => structures(ty, Scope::Quick)
            .into_iter()
            .filter(|s| s.parts.iter().all(|p| (p.kind == 0 || p.kind == 5) && !p.pts.is_empty() && p.pts.len() <= 3))
            .collect(),
        Family::Null => vec![],
    }
}

/// the values tried in a slot of dimension d: F_xy, and for measures three real values close to the no-data
/// constant (-1e39): -9.99e38, -5e38 and -1e38, the threshold of the specification's wording
fn c05_values(d: usize) -> Vec<f64> {
    let mut v = f_xy();
    if d == 3 {
        v.extend([-9.99e38, -5e38, -1e38]);
    }
    v
}

macro_rules! lying_ranges {
    ($($name:ident => $variant:ident),*) => {
        $(
            /// a user-defined shape of this type that announces a Z range and an M range whatever its type carries
            struct $name;
            impl shapefile::record::HasShapeType for $name {
                fn shapetype() -> shapefile::ShapeType {
                    shapefile::ShapeType::$variant
                }
            }
            impl shapefile::record::WritableShape for $name {
                fn size_in_bytes(&self) -> usize {
                    0
                }
                fn write_to<T: std::io::Write>(&self, _dest: &mut T) -> Result<(), shapefile::Error> {
                    Ok(())
                }
            }
            impl shapefile::record::EsriShape for $name {
                fn x_range(&self) -> [f64; 2] {
                    [1.0, 2.0]
                }
                fn y_range(&self) -> [f64; 2] {
                    [3.0, 4.0]
                }
                fn z_range(&self) -> [f64; 2] {
                    [5.0, 9.0]
                }
                fn m_range(&self) -> [f64; 2] {
                    [-7.0, 11.0]
                }
            }
        )*
        /// (type code, name, header bytes of a file holding one such shape)
        fn user_range_headers() -> Vec<(i32, &'static str, Vec<u8>)> {
            let mut v = vec![];
            $(
                {
                    let d = Dev::quiet(vec![]);
                    {
                        let mut w = ShapeWriter::new(d.clone());
                        let _ = w.write_shape(&$name);
                    }
                    v.push((shapefile::ShapeType::$variant as i32, stringify!($variant), d.data()));
                }
            )*
            v
        }
    };
}
lying_ranges!(RPoint => Point, RPolyline => Polyline, RPolygon => Polygon, RMultipoint => Multipoint, RPointM => PointM, RPolylineM => PolylineM, RPolygonM => PolygonM, RMultipointM => MultipointM,
    RPointZ => PointZ, RPolylineZ => PolylineZ, RPolygonZ => PolygonZ, RMultipointZ => MultipointZ, RMultipatch => Multipatch);

/// header ranges of dimensions the type does not carry are 0, also when a (user-defined) shape announces some
pub fn user_range_verdicts() -> Vec<(Value, String, String)> {
    let mut out = vec![];
    for (code, name, shp) in user_range_headers() {
        let ty = match Ty::from_code(code) {
            Some(t) => t,
            None => continue,
        };
        if shp.len() < 100 {
            out.push((json!({"user_ranges": name}), format!("user-ranges:{}:no-header", name), format!("{} bytes", shp.len())));
            continue;
        }
        let f = |o: usize| f64::from_le_bytes(shp[o..o + 8].try_into().unwrap());
        let (z, m) = ((f(68), f(76)), (f(84), f(92)));
        let want_z = if ty.has_z() { (5.0, 9.0) } else { (0.0, 0.0) };
        let want_m = if ty.has_m_table() { (-7.0, 11.0) } else { (0.0, 0.0) };
        if z != want_z {
            out.push((json!({"user_ranges": name}), format!("user-ranges:{}:header-z", name), format!("a user-defined {} announcing Z [5, 9]: header Z range {:?}, expected {:?}", name, z, want_z)));
        }
        if ty != Ty::Multipatch && m != want_m {
            out.push((json!({"user_ranges": name}), format!("user-ranges:{}:header-m", name), format!("a user-defined {} announcing M [-7, 11]: header M range {:?}, expected {:?}", name, m, want_m)));
        }
    }
    out
}

fn lows() -> Vec<f64> {
    vec![f64::NEG_INFINITY, -f64::MAX, next_up(-f64::MAX), -2.5, -0.0]
}
fn highs() -> Vec<f64> {
    vec![f64::INFINITY, f64::MAX, next_down(f64::MAX), 1e300, 0.0]
}

struct Unit {
    ty: Ty,
    base: Vec<MShape>,
    dmax: u8,
}

fn enumerate(u: &Unit, ctx: &mut Ctx, tick: &dyn Fn()) {
    let ty = u.ty;
    let mut go = |shapes: Vec<MShape>, ndev: u8, ctx: &mut Ctx| {
        run_case(&Case { ty, shapes, ndev, fin_mask: 0 }, ctx);
        tick();
    };
    go(u.base.clone(), 0, ctx);
    let sl = slots(&u.base);
    if u.dmax >= 1 {
        for s in &sl {
            for e in c05_values(s.dim) {
                let mut sh = u.base.clone();
                apply(&mut sh, *s, e);
                go(sh, 1, ctx);
            }
        }
        // "every X (Y, Z, M) of the file is the same special value"
        for d in 0..4 {
            if !ty.dims()[d] {
                continue;
            }
            for e in c05_values(d) {
                let mut sh = u.base.clone();
                for s in sl.iter().filter(|s| s.dim == d) {
                    apply(&mut sh, *s, e);
                }
                go(sh, 1, ctx);
            }
        }
    }
    if u.base.len() >= 2 {
        // every finalize placement, the extreme of every dimension in each shape in turn
        for pos in 0..u.base.len() {
            let mut sh = u.base.clone();
            for d in 0..4 {
                if ty.dims()[d] {
                    sh[pos].parts[0].pts[0][d] = 9.0e5 + d as f64;
                    let other = (pos + 1) % sh.len();
                    sh[other].parts[0].pts[0][d] = -9.0e5 - d as f64;
                }
            }
            for mask in 1u32..(1 << (u.base.len() + 1)) {
                run_case(&Case { ty, shapes: sh.clone(), ndev: 2, fin_mask: mask }, ctx);
                tick();
            }
        }
    }
    if u.dmax >= 1 {
        // the box degenerates to a point: every vertex identical
        for v in [1.0f64, -2.5, 0.0, f64::MAX] {
            let mut sh = u.base.clone();
            for s in &sl {
                apply(&mut sh, *s, v);
            }
            go(sh, 1, ctx);
        }
    }
    if u.dmax >= 2 {
        // extremes that differ by one unit in the last place (strictness of the comparisons)
        for a in &sl {
            for b in &sl {
                if a == b || a.dim != b.dim {
                    continue;
                }
                for v in [1.0f64, -2.5, 1e300, -1e-300, 123456.78901234567] {
                    for w in [next_up(v), next_down(v)] {
                        // everything else of that dimension sits strictly between
                        let mut sh = u.base.clone();
                        for s in sl.iter().filter(|s| s.dim == a.dim) {
                            apply(&mut sh, *s, v);
                        }
                        apply(&mut sh, *b, w);
                        go(sh, 2, ctx);
                    }
                }
            }
        }
        for a in &sl {
            for b in &sl {
                if a == b || a.dim != b.dim {
                    continue;
                }
                for lo in lows() {
                    for hi in highs() {
                        let mut sh = u.base.clone();
                        apply(&mut sh, *a, lo);
                        apply(&mut sh, *b, hi);
                        go(sh, 2, ctx);
                    }
                }
            }
        }
    }
}

fn selftest() -> (u64, u64) {
    let ty = Ty::PolylineZ;
    let red = reduced_set(ty);
    let case = Case {
        ty,
        shapes: vec![red[0].clone(), red[1].clone()],
        ndev: 0,
        fin_mask: 0,
    };
    if !judge(&case, &observe(&case)).is_empty() {
        return (1, 0);
    }
    let mut inj = 0;
    let mut det = 0;
    let mut t = |f: &dyn Fn(&mut Obs)| {
        let mut o = observe(&case);
        f(&mut o);
        inj += 1;
        det += (!judge(&case, &o).is_empty()) as u64;
    };
    // header xmin one ulp up, header zmax to 0, header mmin to sentinel
    t(&|o| o.shp[36] ^= 1);
    t(&|o| o.shp[76..84].copy_from_slice(&0f64.to_le_bytes()));
    t(&|o| o.shp[84..92].copy_from_slice(&f64::MAX.to_le_bytes()));
    t(&|o| {
        if let Ok(h) = &mut o.reader_header {
            h[3] += 1.0
        }
    });
    t(&|o| {
        if let Some(b) = &mut o.built[1].bbox {
            b[4] -= 1.0
        }
    });
    // stored record box: first record's ymax (content starts at 100+8+4)
    t(&|o| o.shp[100 + 12 + 24] ^= 1);
    (inj, det)
}

pub fn check(tier: Tier) -> i32 {
    let started = Instant::now();
    let mut units = vec![];
    for ty in ALL13 {
        let st = c05_structures(ty);
        for s in &st {
            units.push(Unit {
                ty,
                base: vec![s.clone()],
                dmax: if s.n_points() <= tier.pick(6, 9) { 2 } else { 1 },
            });
        }
        // sequences over three selected structures
        let red = reduced_set(ty);
        let k = red.len().min(3);
        for n in 2..=3 {
            for t in tuples(k, n) {
                let base: Vec<MShape> = t.iter().map(|i| red[*i].clone()).collect();
                let np: usize = base.iter().map(|s| s.n_points()).sum();
                units.push(Unit {
                    ty,
                    base,
                    dmax: if np <= tier.pick(6, 10) { 2 } else { 1 },
                });
            }
        }
    }
    // every record count up to the bound, the extreme value in the last record (header clause)
    let count_types = [Ty::Point, Ty::PointZ, Ty::PolylineM];
    let maxn = tier.pick(1100usize, 3100);
    let count_units: Vec<(Ty, usize)> = count_types.iter().flat_map(|t| (4..=maxn).map(move |n| (*t, n))).collect();
    // large parts: [3 points, n points, 2 points] (multipoint: n points) with the extremes of every dimension at the
    // first / middle / last vertex of each part in turn, alone and as second of two shapes
    let big_types: Vec<Ty> = tier.pick(vec![Ty::MultipointM, Ty::PolylineZ, Ty::Polygon, Ty::Multipatch], vec![Ty::Multipoint, Ty::MultipointM, Ty::MultipointZ, Ty::Polyline, Ty::PolylineM, Ty::PolylineZ, Ty::Polygon, Ty::PolygonM, Ty::PolygonZ, Ty::Multipatch]);
    let big_sizes: Vec<usize> = tier.pick(vec![1025usize, 4097, 9999, 10000, 10001, 16385], vec![1025, 4097, 8193, 9999, 10000, 10001, 16385, 32769, 65537]);
    let big_units: Vec<(Ty, usize)> = big_types.iter().flat_map(|t| big_sizes.iter().map(move |n| (*t, *n))).collect();
    let run_big = |ty: Ty, n: usize, ctx: &mut Ctx, tick: &dyn Fn()| {
        let pts = |start: usize, n: usize| -> Vec<P4> { (0..n).map(|i| { let k = (start + i) as f64; [k * 0.5, 3.0 - k * 0.25, 100.0 + k, 1000.0 + k * 0.125] }).collect() };
        let fam = ty.family();
        let base = if fam == Family::Multipoint {
            MShape { ty, parts: vec![MPart { kind: 0, pts: pts(0, n) }] }
        } else {
            let (k_first, k_big) = if fam == Family::Multipatch { (2, 0) } else if fam == Family::Polygon { (0, 1) } else { (0, 0) };
            MShape { ty, parts: vec![MPart { kind: k_first, pts: pts(0, 3) }, MPart { kind: k_big, pts: pts(3, n) }, MPart { kind: k_first, pts: pts(3 + n, 2) }] }
        };
        let small = reduced_set(ty)[0].clone();
        for pi in 0..base.parts.len() {
            let len = base.parts[pi].pts.len();
            for vi in [0, len / 2, len - 1] {
                for (lo, hi) in [(true, false), (false, true)] {
                    let mut s = base.clone();
                    for d in 0..4 {
                        if ty.dims()[d] {
                            if hi {
                                s.parts[pi].pts[vi][d] = 9.0e6 + d as f64;
                            }
                            if lo {
                                s.parts[pi].pts[vi][d] = -9.0e6 - d as f64;
                            }
                        }
                    }
                    run_case(&Case { ty, shapes: vec![s.clone()], ndev: 1, fin_mask: 0 }, ctx);
                    run_case(&Case { ty, shapes: vec![small.clone(), s], ndev: 1, fin_mask: 0 }, ctx);
                    tick();
                }
            }
        }
    };
    // vertices stacked on the vertex before them (same X / Y, another Z / M: a vertical segment, a repeated
    // position with a new measure), the stacked vertex holding the extreme of Z resp. M; every vertex of every part
    let stacked_types: Vec<Ty> = ALL13.iter().copied().filter(|t| t.family() != Family::Point && (t.has_z() || t.carries_m())).collect();
    let run_stacked = |ty: Ty, ctx: &mut Ctx, tick: &dyn Fn()| {
        for base in c05_structures(ty) {
            for pi in 0..base.parts.len() {
                for vi in 1..base.parts[pi].pts.len() {
                    for d in 2..4 {
                        if !ty.dims()[d] {
                            continue;
                        }
                        for val in [9.0e6, -9.0e6] {
                            let mut s = base.clone();
                            let prev = s.parts[pi].pts[vi - 1];
                            s.parts[pi].pts[vi][0] = prev[0];
                            s.parts[pi].pts[vi][1] = prev[1];
                            s.parts[pi].pts[vi][d] = val;
                            run_case(&Case { ty, shapes: vec![s.clone()], ndev: 1, fin_mask: 0 }, ctx);
                            run_case(&Case { ty, shapes: vec![base.clone(), s], ndev: 1, fin_mask: 0 }, ctx);
                        }
                    }
                }
            }
            tick();
        }
    };
    let n_struct = units.len();
    let n_count_blocks = (count_units.len() + 15) / 16;
    let total_units = n_struct + n_count_blocks + big_units.len() + stacked_types.len();
    let run_count_case = |ty: Ty, n: usize, ctx: &mut Ctx| {
        let red = reduced_set(ty);
        let mut shapes: Vec<MShape> = (0..n).map(|i| red[(i * 3 + i / 5) % red.len()].clone()).collect();
        // the last record holds the maximum of every dimension, the one before the minimum
        for d in 0..4 {
            if ty.dims()[d] {
                let last = shapes.len() - 1;
                shapes[last].parts[0].pts[0][d] = 7.0e6 + d as f64;
                shapes[last - 1].parts[0].pts[0][d] = -7.0e6 - d as f64;
            }
        }
        run_case(&Case { ty, shapes, ndev: 2, fin_mask: if n % 7 == 0 { 1 << 3 } else { 0 } }, ctx);
    };
    let (agg, capped) = par_blocks(total_units, Some(started + std::time::Duration::from_secs(tier.pick(50, 1500))), |b, ctx, tick| {
        if b < n_struct {
            enumerate(&units[b], ctx, tick)
        } else if b < n_struct + n_count_blocks {
            for (ty, n) in count_units.iter().skip(b - n_struct).step_by(n_count_blocks) {
                run_count_case(*ty, *n, ctx);
                tick();
            }
        } else if b < n_struct + n_count_blocks + big_units.len() {
            let (ty, n) = big_units[b - n_struct - n_count_blocks];
            run_big(ty, n, ctx, tick);
        } else {
            run_stacked(stacked_types[b - n_struct - n_count_blocks - big_units.len()], ctx, tick);
        }
    });
    // the self-test runs the library too: on a tree that panics there it counts as failed (a verdict, if there is one,
    // takes precedence over it)
    let st = catch(|| selftest()).unwrap_or((1, 0));
    let (mut agg, capped) = (agg, capped);
    {
        let mut g = Ctx::new();
        let v = catch(user_range_verdicts).unwrap_or_else(|p| vec![(json!({"user_ranges": "all"}), format!("user-ranges:{}", p.sig()), p.msg)]);
        for i in 0..13u64 {
            g.case_done(0x5eed_0000 + i, true, 14);
        }
        g.lib_calls += 13;
        for (cj, sig, d) in v {
            g.violation(sig, || cj, || d);
        }
        agg.absorb(merge(vec![g]));
    }
    finish(
        RunInfo {
            prop: "C05",
            tier,
            level: "model_checking",
            engine: "E2 structure x extreme-value placement enumerator; oracle = independent numeric min/max fold + RefCodec for stored boxes and header bytes",
            rule: "13 types x structures (1-3 parts, 1-5 vertices) and sequences of 2-3 shapes x {no deviation; one slot x every value of F_xy (measures: also -9.99e38, -5e38, -1e38, real values next to the no-data constant); a whole dimension set to one value of F_xy; every ordered pair of distinct slots of one dimension x low x high values; every pair with values one ulp apart; all vertices identical; sequences of 2-3 shapes with every finalize placement and the extremes in each shape in turn}; plus files of EVERY record count 4..=bound with the minimum in the last-but-one and the maximum in the last record; plus shapes [3, n, 2 points] (multipoint: n) for n in {1025, 4097, 9999, 10000, 10001, 16385} (thorough up to 65537, 10 types) with the extremes of every dimension at the first / middle / last vertex of each part in turn; user-defined shapes of all 13 types announcing a Z and an M range (the header keeps 0 for what the type does not carry); every vertex of every structure stacked on the vertex before it (same X / Y) while holding the Z resp. M extreme; non-trivial = >=1 deviation or >=2 shapes",
            bounds: json!({"units": units.len(), "f_xy": f_xy().len(), "lows": lows().len(), "highs": highs().len(), "pair_scope_max_points": tier.pick(6, 9)}),
            exhaustive: true,
            assumptions: vec![
                "zeros compare numerically (+0 == -0); NaN never enters this check".into(),
                "no claim is checked for the header M range of MultiPatch files or of files containing a no-data measure".into(),
            ],
            started,
            states: 0,
            transitions: 0,
            selftest: st,
            extra: Default::default(),
        },
        agg,
        capped,
    )
}

pub fn replay(v: &Value) -> Vec<(String, String)> {
    if let Some(n) = v.get("user_ranges").and_then(|x| x.as_str()) {
        return user_range_verdicts().into_iter().filter(|(cj, _, _)| cj.get("user_ranges").and_then(|x| x.as_str()) == Some(n)).map(|(_, s, d)| (s, d)).collect();
    }
    match Case::from_json(v) {
        None => vec![("bad-replay-file".into(), "cannot parse case".into())],
        Some(case) => match catch(|| observe(&case)) {
            Ok(o) => judge(&case, &o),
            Err(p) => vec![(format!("{}:{}", case.ty.name(), p.sig()), p.msg)],
        },
    }
}
