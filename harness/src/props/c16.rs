//! C16: polygon and multipatch constructors close and orient rings, losing
//! no vertex.  Engine E2 over lattice vertex sequences; oracle = exact
//! integer shoelace (RefRing).

use crate::bridge::*;
use crate::engine::*;
use crate::model::*;
use serde_json::{json, Value};
use shapefile::polygon;
use shapefile::record::polygon::GenericPolygon;
use shapefile::{Multipatch, Patch, Point, PointM, PointZ, PolygonRing, Shape};
use std::time::Instant;

#[derive(Clone, Copy, Debug, PartialEq, Eq)]
pub enum Ctor {
    New,
    WithRings,
    Macro,
}

#[derive(Clone, Debug)]
pub struct Case {
    pub ty: Ty,
    pub ctor: Ctor,
    /// (role / patch kind, vertices as handed over)
    pub rings: Vec<(u8, Vec<P4>)>,
}

impl Case {
    pub fn to_json(&self) -> Value {
        json!({"ty": self.ty.name(), "ctor": format!("{:?}", self.ctor),
               "shape": MShape { ty: self.ty, parts: self.rings.iter().map(|(k, p)| MPart { kind: *k, pts: p.clone() }).collect() }.to_json()})
    }
    pub fn from_json(v: &Value) -> Option<Case> {
        let s = MShape::from_json(v.get("shape")?)?;
        Some(Case {
            ty: s.ty,
            ctor: match v.get("ctor")?.as_str()? {
                "New" => Ctor::New,
                "Macro" => Ctor::Macro,
                _ => Ctor::WithRings,
            },
            rings: s.parts.into_iter().map(|p| (p.kind, p.pts)).collect(),
        })
    }
    fn hash(&self) -> u64 {
        let mut h = Fnv::new();
        h.u64(self.ty.code() as u64);
        h.u64(self.ctor as u64);
        for (k, p) in &self.rings {
            h.u64(*k as u64 + 100);
            h.u64(p.len() as u64);
            for v in p {
                for c in v {
                    h.u64(c.to_bits());
                }
            }
        }
        h.finish()
    }
}

macro_rules! poly_macro_len {
    ($role:ident, $p:expr, $dimsel:tt, [$($i:expr),*]) => {
        poly_macro_len!(@$dimsel $role, $p, [$($i),*])
    };
    (@xy $role:ident, $p:expr, [$($i:expr),*]) => { Shape::Polygon(shapefile::polygon!{ $role( $( ($p[$i][0], $p[$i][1]) ),* ) }) };
    (@xym $role:ident, $p:expr, [$($i:expr),*]) => { Shape::PolygonM(shapefile::polygon!{ $role( $( ($p[$i][0], $p[$i][1], $p[$i][3]) ),* ) }) };
    (@xyzm $role:ident, $p:expr, [$($i:expr),*]) => { Shape::PolygonZ(shapefile::polygon!{ $role( $( ($p[$i][0], $p[$i][1], $p[$i][2], $p[$i][3]) ),* ) }) };
}
macro_rules! poly_macro {
    ($role:ident, $p:expr, $dimsel:tt) => {
        match $p.len() {
            1 => Some(poly_macro_len!($role, $p, $dimsel, [0])),
            2 => Some(poly_macro_len!($role, $p, $dimsel, [0, 1])),
            3 => Some(poly_macro_len!($role, $p, $dimsel, [0, 1, 2])),
            4 => Some(poly_macro_len!($role, $p, $dimsel, [0, 1, 2, 3])),
            5 => Some(poly_macro_len!($role, $p, $dimsel, [0, 1, 2, 3, 4])),
            _ => None,
        }
    };
}
macro_rules! patch_macro_len {
    ($kind:ident, $p:expr, [$($i:expr),*]) => { Shape::Multipatch(shapefile::multipatch!( $kind( $( ($p[$i][0], $p[$i][1], $p[$i][2], $p[$i][3]) ),* ) )) };
}
macro_rules! patch_macro {
    ($kind:ident, $p:expr) => {
        match $p.len() {
            1 => Some(patch_macro_len!($kind, $p, [0])),
            2 => Some(patch_macro_len!($kind, $p, [0, 1])),
            3 => Some(patch_macro_len!($kind, $p, [0, 1, 2])),
            4 => Some(patch_macro_len!($kind, $p, [0, 1, 2, 3])),
            _ => None,
        }
    };
}

fn ring_of<P: Pt>(role: u8, pts: &[P4]) -> PolygonRing<P> {
    let v: Vec<P> = pts.iter().map(P::mk).collect();
    if role == 0 {
        PolygonRing::Outer(v)
    } else {
        PolygonRing::Inner(v)
    }
}

/// Build through the requested public constructor; None if that route does not apply.
pub fn build(case: &Case) -> Option<Shape> {
    let r = &case.rings;
    match (case.ty, case.ctor) {
        (Ty::Multipatch, Ctor::New) if r.len() == 1 => Some(Shape::Multipatch(Multipatch::new(mk_patch(r[0].0, r[0].1.iter().map(PointZ::mk).collect())))),
        (Ty::Multipatch, Ctor::WithRings) => Some(Shape::Multipatch(Multipatch::with_parts(r.iter().map(|(k, p)| mk_patch(*k, p.iter().map(PointZ::mk).collect())).collect()))),
        (Ty::Multipatch, Ctor::Macro) if r.len() == 1 => {
            let p = &r[0].1;
            match r[0].0 {
                0 => patch_macro!(TriangleStrip, p),
                1 => patch_macro!(TriangleFan, p),
                2 => patch_macro!(OuterRing, p),
                3 => patch_macro!(InnerRing, p),
                4 => patch_macro!(FirstRing, p),
                _ => patch_macro!(Ring, p),
            }
        }
        (Ty::Polygon, Ctor::New) if r.len() == 1 => Some(Shape::Polygon(GenericPolygon::new(ring_of::<Point>(r[0].0, &r[0].1)))),
        (Ty::PolygonM, Ctor::New) if r.len() == 1 => Some(Shape::PolygonM(GenericPolygon::new(ring_of::<PointM>(r[0].0, &r[0].1)))),
        (Ty::PolygonZ, Ctor::New) if r.len() == 1 => Some(Shape::PolygonZ(GenericPolygon::new(ring_of::<PointZ>(r[0].0, &r[0].1)))),
        (Ty::Polygon, Ctor::WithRings) => Some(Shape::Polygon(GenericPolygon::with_rings(r.iter().map(|(k, p)| ring_of::<Point>(*k, p)).collect()))),
        (Ty::PolygonM, Ctor::WithRings) => Some(Shape::PolygonM(GenericPolygon::with_rings(r.iter().map(|(k, p)| ring_of::<PointM>(*k, p)).collect()))),
        (Ty::PolygonZ, Ctor::WithRings) => Some(Shape::PolygonZ(GenericPolygon::with_rings(r.iter().map(|(k, p)| ring_of::<PointZ>(*k, p)).collect()))),
        (Ty::Polygon, Ctor::Macro) if r.len() == 1 => {
            let p = &r[0].1;
            if r[0].0 == 0 {
                poly_macro!(Outer, p, xy)
            } else {
                poly_macro!(Inner, p, xy)
            }
        }
        (Ty::PolygonM, Ctor::Macro) if r.len() == 1 => {
            let p = &r[0].1;
            if r[0].0 == 0 {
                poly_macro!(Outer, p, xym)
            } else {
                poly_macro!(Inner, p, xym)
            }
        }
        (Ty::PolygonZ, Ctor::Macro) if r.len() == 1 => {
            let p = &r[0].1;
            if r[0].0 == 0 {
                poly_macro!(Outer, p, xyzm)
            } else {
                poly_macro!(Inner, p, xyzm)
            }
        }
        _ => None,
    }
}

fn same_vertex(a: &P4, b: &P4, dims: [bool; 4]) -> bool {
    // IEEE ==, on the fields the point type has
    (0..4).all(|i| !dims[i] || a[i] == b[i])
}
fn bits_eq(a: &[P4], b: &[P4], dims: [bool; 4]) -> bool {
    a.len() == b.len() && a.iter().zip(b).all(|(x, y)| p4_bits_eq(x, y, dims))
}

/// RefRing: what the statement demands of one constructed ring.
pub fn check_ring(input: &[P4], role: u8, built: &MPart, dims: [bool; 4], is_polygon: bool) -> Option<String> {
    let mut expect: Vec<P4> = input.to_vec();
    let closed = match (input.first(), input.last()) {
        (Some(a), Some(b)) => same_vertex(a, b, dims),
        _ => true,
    };
    if !closed {
        expect.push(input[0]);
    }
    let mut rev = expect.clone();
    rev.reverse();
    let kept = bits_eq(&built.pts, &expect, dims);
    let reversed = bits_eq(&built.pts, &rev, dims);
    if !is_polygon {
        // multipatch ring kinds are closed, never reordered
        return if kept { None } else { Some(format!("patch-vertices: built {} vertices, expected the input{} ({} vertices), kept as is", built.pts.len(), if closed { "" } else { " closed by a copy of its first vertex" }, expect.len())) };
    }
    if !kept && !reversed {
        return Some(format!(
            "ring-vertices: built ring has {} vertices and is neither the input{} ({} vertices) nor its reversal",
            built.pts.len(),
            if closed { "" } else { " closed by a copy of its first vertex" },
            expect.len()
        ));
    }
    if let (Some(a), Some(b)) = (built.pts.first(), built.pts.last()) {
        if !same_vertex(a, b, dims) {
            return Some("ring-not-closed: first vertex != last vertex".into());
        }
    }
    if built.kind != role {
        return Some(format!("declared-role: ring declared {} came out {}", role, built.kind));
    }
    if let Some(s) = exact_shoelace_sign(&built.pts) {
        // where double arithmetic cannot represent the terms of the area sum, the computed sign is a matter of
        // rounding: reported under its own clause
        if (role == 0 && s < 0) || (role == 1 && s > 0) {
            let class = if trapezoid_sum_is_exact_in_f64(&built.pts) && trapezoid_sum_is_exact_in_f64(&expect) && trapezoid_sum_is_exact_in_f64(&rev) { "orientation" } else { "orientation-inexact-arithmetic" };
            return Some(if role == 0 {
                format!("{}: outer ring is counter-clockwise (sign of the exact area sum: {})", class, s)
            } else {
                format!("{}: inner ring is clockwise (sign of the exact area sum: {})", class, s)
            });
        }
    }
    None
}

pub fn judge(case: &Case, built: &MRead) -> Vec<(String, String)> {
    let mut out = vec![];
    let tn = case.ty.name();
    let dims = case.ty.dims();
    let is_polygon = case.ty.family() == Family::Polygon;
    let ctor = format!("{:?}", case.ctor);
    if built.shape.parts.len() != case.rings.len() {
        return vec![(format!("{}:{}:ring-count", tn, ctor), format!("{} rings built from {}", built.shape.parts.len(), case.rings.len()))];
    }
    for (i, ((role, input), b)) in case.rings.iter().zip(&built.shape.parts).enumerate() {
        let ringish = is_polygon || *role >= 2;
        if ringish {
            if let Some(c) = check_ring(input, *role, b, dims, is_polygon) {
                let cc = crate::oracle::clause_class(&c);
                let sig = if cc == "orientation-inexact-arithmetic" { format!("inexact-arithmetic:orientation:{}:{}", tn, ctor) } else { format!("{}:{}:{}", tn, ctor, cc) };
                out.push((sig, format!("ring {}: {}", i, c)));
                break;
            }
            if !is_polygon && b.kind != *role {
                out.push((format!("{}:{}:patch-kind", tn, ctor), format!("patch {} kind {} became {}", i, role, b.kind)));
            }
        } else {
            // strips and fans: untouched
            if !bits_eq(&b.pts, input, dims) || b.kind != *role {
                out.push((format!("{}:{}:strip-or-fan-altered", tn, ctor), format!("patch {} (kind {}) was altered", i, role)));
                break;
            }
        }
    }
    out
}

/// rebuilding from its own rings changes nothing when every ring has non-zero area
fn rebuild_check(case: &Case, lib: &Shape, built: &MRead) -> Option<(String, String)> {
    if case.ty.family() != Family::Polygon {
        return None;
    }
    if !built.shape.parts.iter().all(|p| matches!(exact_shoelace_sign(&p.pts), Some(s) if s != 0)) {
        return None;
    }
    let again = match lib {
        Shape::Polygon(p) => Shape::Polygon(GenericPolygon::with_rings(p.rings().to_vec())),
        Shape::PolygonM(p) => Shape::PolygonM(GenericPolygon::with_rings(p.rings().to_vec())),
        Shape::PolygonZ(p) => Shape::PolygonZ(GenericPolygon::with_rings(p.rings().to_vec())),
        _ => return None,
    };
    if super::c04::mread_eq(&from_lib(&again), built) {
        None
    } else {
        let exact = built.shape.parts.iter().all(|p| {
            let mut r = p.pts.clone();
            r.reverse();
            trapezoid_sum_is_exact_in_f64(&p.pts) && trapezoid_sum_is_exact_in_f64(&r)
        });
        Some((if exact { format!("{}:rebuild-not-idempotent", case.ty.name()) } else { format!("inexact-arithmetic:rebuild-not-idempotent:{}", case.ty.name()) }, "with_rings(p.rings().to_vec()) differs from p".into()))
    }
}

fn run_case(case: &Case, ctx: &mut Ctx) {
    let r = catch(|| build(case).map(|l| (from_lib(&l), l)));
    match r {
        Ok(None) => {}
        Ok(Some((built, lib))) => {
            ctx.lib_calls += 2;
            let mut oh = Fnv::new();
            built.shape.hash_into(&mut oh);
            let nontrivial = case.rings.len() >= 2 || case.rings[0].1.len() >= 3;
            ctx.case_done(case.hash(), nontrivial, oh.finish());
            if case.rings.len() == 2 && case.rings[0].1.len() == 3 {
                ctx.sample(|| case.to_json());
            }
            for (sig, d) in judge(case, &built) {
                ctx.violation(sig, || case.to_json(), || d);
            }
            if let Ok(Some((sig, d))) = catch(|| rebuild_check(case, &lib, &built)) {
                ctx.violation(sig, || case.to_json(), || d);
            }
        }
        Err(p) => {
            ctx.case_done(case.hash(), true, 1);
            ctx.violation(format!("{}:{:?}:{}", case.ty.name(), case.ctor, p.sig()), || case.to_json(), || format!("{}:{} {}", p.file, p.line, p.msg));
        }
    }
}

/// all sequences of length 1..=maxlen over the lattice {0..side}^2, by index
fn magnitude_values_for(thorough: bool) -> Vec<f64> {
    let p = |e: i32| 2f64.powi(e);
    if thorough {
        vec![0.0, 1.0, -1.0, p(52), -p(52), p(52) + 2.0, -(p(52) + 2.0), -p(130), p(130), p(-30), p(600), -p(600), p(300), p(-530), -p(-530), p(-1000)]
    } else {
        vec![0.0, 1.0, -1.0, p(52), -p(52), p(52) + 2.0, -p(130), p(-30), p(600), p(300), -p(-530), p(-1000)]
    }
}

fn lattice(side: usize) -> Vec<(f64, f64)> {
    let mut v = vec![];
    for x in 0..side {
        for y in 0..side {
            v.push((x as f64, y as f64));
        }
    }
    v
}

fn seq_from_index(mut idx: usize, len: usize, lat: &[(f64, f64)], zm_pattern: u8) -> Vec<P4> {
    let mut v = vec![];
    for _ in 0..len {
        let (x, y) = lat[idx % lat.len()];
        idx /= lat.len();
        v.push([x, y, 5.0, 7.0]);
    }
    match zm_pattern {
        1 => v.last_mut().unwrap()[3] = 8.0,
        2 => v.last_mut().unwrap()[2] = 6.0,
        _ => {}
    }
    v
}

fn zm_patterns(ty: Ty) -> Vec<u8> {
    match ty {
        Ty::PolygonM => vec![0, 1],
        Ty::PolygonZ | Ty::Multipatch => vec![0, 1, 2],
        _ => vec![0],
    }
}

enum Unit {
    /// zigzag strips of 2k vertices whose ordinates are just below 2^52: consecutive terms of the area sum are about
    /// +-2^53 and cancel, the running sum stays exact; and flat rings whose heights are a few units of the smallest
    /// subnormal
    Sawtooth { ty: Ty },
    /// triangles over a 10 x 10 grid of coordinates of very different magnitude, first vertex fixed
    Magnitudes { ty: Ty, first: usize, thorough: bool },
    /// single ring over L3: sequences [lo, hi) of a given length
    Single { ty: Ty, len: usize, lo: usize, hi: usize },
    /// two rings over the lattice of the given side: first ring index, all second rings
    Two { ty: Ty, side: usize, maxlen: usize, first: usize },
    /// three rings over L2, lengths <= 3: first ring index
    Three { ty: Ty, first: usize },
    /// deviations (closure / preservation only)
    Devs { ty: Ty },
    /// thin rings of every size in [lo, hi): n-2 unit steps along y = 16 and one long edge back
    /// (the long edge is the (n-1)-th edge: any block-wise area sum that loses an edge flips the sign)
    Slivers { ty: Ty, lo: usize, hi: usize },
    /// small rings translated far from the origin (extent / offset down to 2^-40)
    Offsets { ty: Ty },
    /// multipatch: single patches / pairs
    Patch1,
    Patch2 { first: usize },
}

fn all_seqs(side: usize, maxlen: usize) -> Vec<(usize, usize)> {
    // (len, index)
    let n = side * side;
    let mut v = vec![];
    for len in 1..=maxlen {
        for i in 0..n.pow(len as u32) {
            v.push((len, i));
        }
    }
    v
}

fn enumerate(u: &Unit, ctx: &mut Ctx, tick: &dyn Fn()) {
    match u {
        Unit::Single { ty, len, lo, hi } => {
            let lat = lattice(3);
            for idx in *lo..*hi {
                for zm in zm_patterns(*ty) {
                    let pts = seq_from_index(idx, *len, &lat, zm);
                    for role in 0..2u8 {
                        for ctor in [Ctor::New, Ctor::WithRings, Ctor::Macro] {
                            run_case(&Case { ty: *ty, ctor, rings: vec![(role, pts.clone())] }, ctx);
                        }
                    }
                }
                tick();
            }
        }
        Unit::Two { ty, side, maxlen, first } => {
            let lat = lattice(*side);
            let seqs = all_seqs(*side, *maxlen);
            let (l1, i1) = seqs[*first];
            for zm in zm_patterns(*ty) {
                let a = seq_from_index(i1, l1, &lat, zm);
                for (l2, i2) in &seqs {
                    let b = seq_from_index(*i2, *l2, &lat, 0);
                    for roles in 0..4u8 {
                        run_case(&Case { ty: *ty, ctor: Ctor::WithRings, rings: vec![(roles & 1, a.clone()), (roles >> 1, b.clone())] }, ctx);
                    }
                }
                tick();
            }
        }
        Unit::Three { ty, first } => {
            let lat = lattice(2);
            let seqs = all_seqs(2, 3);
            let (l1, i1) = seqs[*first];
            let a = seq_from_index(i1, l1, &lat, 0);
            for (l2, i2) in &seqs {
                let b = seq_from_index(*i2, *l2, &lat, 0);
                for (l3, i3) in &seqs {
                    let c = seq_from_index(*i3, *l3, &lat, 0);
                    for roles in 0..8u8 {
                        run_case(&Case { ty: *ty, ctor: Ctor::WithRings, rings: vec![(roles & 1, a.clone()), ((roles >> 1) & 1, b.clone()), (roles >> 2, c.clone())] }, ctx);
                    }
                }
                tick();
            }
        }
        Unit::Slivers { ty, lo, hi } => {
            for n in *lo..*hi {
                // (0,h),(1,h),...,(n-3,h),(n-3,h+2) then closed, h = 4n: the closing edge is the long one, and the ring
                // lies so far above the x axis that every single unit edge contributes more to the area sum than
                // the area itself: losing any one term flips the sign
                let h = 4.0 * n as f64;
                let mut pts: Vec<P4> = (0..n - 2).map(|i| [i as f64, h, 5.0, 7.0]).collect();
                pts.push([(n - 3) as f64, h + 2.0, 5.0, 7.0]);
                pts.push([0.0, h + 2.0, 5.0, 7.0]);
                for rev in [false, true] {
                    let mut p = pts.clone();
                    if rev {
                        p.reverse();
                    }
                    for role in 0..2u8 {
                        run_case(&Case { ty: *ty, ctor: Ctor::WithRings, rings: vec![(role, p.clone())] }, ctx);
                    }
                }
                tick();
            }
        }
        Unit::Magnitudes { ty, first, thorough } => {
            // coordinates of very different magnitude and sign: 2^52 and beyond (where a double has no fraction bits
            // left), values below the no-data threshold (which is about measures, not about positions), and the far
            // ends of the exponent range, where products approach overflow resp. the subnormal range
            let v = magnitude_values_for(*thorough);
            let n = v.len();
            let pt = |i: usize| -> P4 { [v[i / n], v[i % n], 5.0, 7.0] };
            let a = pt(*first);
            for j in 0..n * n {
                for k in 0..n * n {
                    let p = vec![a, pt(j), pt(k)];
                    for role in 0..2u8 {
                        run_case(&Case { ty: *ty, ctor: Ctor::WithRings, rings: vec![(role, p.clone())] }, ctx);
                    }
                }
                tick();
            }
        }
        Unit::Sawtooth { ty } => {
            for k in 3..=40usize {
                let a = 4503599627370496.0 - 2.0 * k as f64 - 5.0;
                // up the left side zigzagging between x = 0 and 1, down the right side between x = 2 and 3
                let mut p: Vec<P4> = (0..k).map(|i| [(i % 2) as f64, a + i as f64, 5.0, 7.0]).collect();
                p.extend((0..k).rev().map(|i| [2.0 + (i % 2) as f64, a + i as f64, 5.0, 7.0]));
                for rev in [false, true] {
                    let mut q = p.clone();
                    if rev {
                        q.reverse();
                    }
                    for role in 0..2u8 {
                        run_case(&Case { ty: *ty, ctor: Ctor::WithRings, rings: vec![(role, q.clone())] }, ctx);
                    }
                }
                tick();
            }
            // a single zigzag between x = 0 and 1 whose ordinates wander irregularly inside a band of a few units just
            // below 2^52 (the ring may cross itself: orientation is defined by the sign of the exact area): terms of
            // about +-2^53 with all their bits, an area of a few units; the running sum taken edge after edge is
            // exact, any other grouping of the additions is not
            for teeth in (5..=45usize).step_by(2) {
                for m in 1..8usize {
                    for modulus in [5usize, 7, 8, 11] {
                        let base = 4503599627370496.0 - 4096.0 + 850.0;
                        let p: Vec<P4> = (0..teeth).map(|i| [(i % 2) as f64, base + ((i * m) % modulus) as f64, 5.0, 7.0]).collect();
                        for rev in [false, true] {
                            let mut q = p.clone();
                            if rev {
                                q.reverse();
                            }
                            for role in 0..2u8 {
                                run_case(&Case { ty: *ty, ctor: Ctor::WithRings, rings: vec![(role, q.clone())] }, ctx);
                            }
                        }
                    }
                }
                tick();
            }
            // every triangle over x in {0, 1, 2^600} x y in {0, u, 2u, 3u, 4u, 5u, 8u, 9u}, u = 2^-1074
            let u = f64::from_bits(1);
            let xs = [0.0, 1.0, 2f64.powi(600)];
            let ys = [0.0, u, 2.0 * u, 3.0 * u, 4.0 * u, 5.0 * u, 8.0 * u, 9.0 * u];
            let pts: Vec<P4> = xs.iter().flat_map(|x| ys.iter().map(move |y| [*x, *y, 5.0, 7.0])).collect();
            for a in &pts {
                for b in &pts {
                    for c in &pts {
                        for role in 0..2u8 {
                            run_case(&Case { ty: *ty, ctor: Ctor::WithRings, rings: vec![(role, vec![*a, *b, *c])] }, ctx);
                        }
                    }
                }
                tick();
            }
        }
        Unit::Offsets { ty } => {
            let lat = lattice(3);
            let offs = [0.0f64, 134217728.0, -134217728.0, 1099511627776.0];
            for len in 3..=4usize {
                for idx in 0..9usize.pow(len as u32) {
                    let base = seq_from_index(idx, len, &lat, 0);
                    for ox in offs {
                        for oy in offs {
                            if ox == 0.0 && oy == 0.0 {
                                continue;
                            }
                            let p: Vec<P4> = base.iter().map(|v| [v[0] + ox, v[1] + oy, v[2], v[3]]).collect();
                            for role in 0..2u8 {
                                run_case(&Case { ty: *ty, ctor: Ctor::WithRings, rings: vec![(role, p.clone())] }, ctx);
                            }
                        }
                    }
                }
                tick();
            }
        }
        Unit::Devs { ty } => {
            // a last vertex that differs from the first by a few units in the last place of one
            // coordinate is a different vertex: the ring is open and must be closed
            {
                let dims = ty.dims();
                let first = [10.1f64, -3.3, 5.5, 7.7];
                for d in 0..4 {
                    if !dims[d] {
                        continue;
                    }
                    for ulps in [1i64, 2, 4, 8, -1, -4] {
                        let mut last = first;
                        last[d] = f64::from_bits((first[d].to_bits() as i64 + ulps) as u64);
                        let p = vec![first, [12.0, -3.3, 5.5, 7.7], [10.1, 0.0, 5.5, 7.7], last];
                        for role in 0..2u8 {
                            let kind = if *ty == Ty::Multipatch { 2 + role * 3 } else { role };
                            for ctor in [Ctor::New, Ctor::WithRings] {
                                run_case(&Case { ty: *ty, ctor, rings: vec![(kind, p.clone())] }, ctx);
                            }
                        }
                    }
                }
            }
            // rings of 1..4 vertices (open and closed), every slot x every value of F_xy
            let lat = lattice(3);
            let bases: Vec<Vec<P4>> = vec![
                seq_from_index(4, 1, &lat, 0),
                seq_from_index(1 + 9 * 5, 2, &lat, 0),
                vec![[0.0, 0.0, 5.0, 7.0], [0.0, 2.0, 5.0, 7.0], [2.0, 0.0, 5.0, 7.0]],
                vec![[0.0, 0.0, 5.0, 7.0], [2.0, 0.0, 5.0, 7.0], [0.0, 2.0, 5.0, 7.0], [0.0, 0.0, 5.0, 7.0]],
            ];
            let dims = ty.dims();
            for base in &bases {
                for vi in 0..base.len() {
                    for d in 0..4 {
                        if !dims[d] {
                            continue;
                        }
                        for val in f_xy() {
                            let mut p = base.clone();
                            p[vi][d] = val;
                            for role in 0..2u8 {
                                for ctor in [Ctor::New, Ctor::WithRings] {
                                    run_case(&Case { ty: *ty, ctor, rings: vec![(role, p.clone())] }, ctx);
                                }
                                // as a second ring behind a plain one
                                run_case(&Case { ty: *ty, ctor: Ctor::WithRings, rings: vec![(0, bases[3].clone()), (role, p.clone())] }, ctx);
                            }
                        }
                    }
                }
                tick();
            }
        }
        Unit::Patch1 => {
            let lat = lattice(2);
            for (len, idx) in all_seqs(2, 4) {
                for zm in zm_patterns(Ty::Multipatch) {
                    let p = seq_from_index(idx, len, &lat, zm);
                    for kind in 0..6u8 {
                        for ctor in [Ctor::New, Ctor::WithRings, Ctor::Macro] {
                            run_case(&Case { ty: Ty::Multipatch, ctor, rings: vec![(kind, p.clone())] }, ctx);
                        }
                    }
                }
            }
            tick();
        }
        Unit::Patch2 { first } => {
            let lat = lattice(2);
            let seqs = all_seqs(2, 3);
            let (l1, i1) = seqs[*first];
            for zm in zm_patterns(Ty::Multipatch) {
                let a = seq_from_index(i1, l1, &lat, zm);
                for (l2, i2) in &seqs {
                    let b = seq_from_index(*i2, *l2, &lat, 0);
                    for k1 in 0..6u8 {
                        for k2 in 0..6u8 {
                            run_case(&Case { ty: Ty::Multipatch, ctor: Ctor::WithRings, rings: vec![(k1, a.clone()), (k2, b.clone())] }, ctx);
                        }
                    }
                }
            }
            tick();
        }
    }
}

fn selftest() -> (u64, u64) {
    let case = Case { ty: Ty::PolygonZ, ctor: Ctor::WithRings, rings: vec![(0, vec![[0.0, 0.0, 5.0, 7.0], [2.0, 0.0, 5.0, 7.0], [0.0, 2.0, 5.0, 7.0]]), (1, vec![[0.0, 0.0, 5.0, 7.0], [0.0, 1.0, 5.0, 7.0], [1.0, 0.0, 5.0, 7.0], [0.0, 0.0, 5.0, 8.0]])] };
    let fresh = || from_lib(&build(&case).unwrap());
    if !judge(&case, &fresh()).is_empty() {
        return (1, 0);
    }
    // the arbitrary-precision area sign against the i128 one: every closed ring of 3 vertices over {0,1,2}^2,
    // as it is (i128 path) and with x scaled by 2^70 and y by 2^-40 (big-integer path; the sign cannot change),
    // and the exactness classifier on rings it must accept / refuse
    {
        let lat = lattice(3);
        for idx in 0..9usize.pow(3) {
            let mut r = seq_from_index(idx, 3, &lat, 0);
            r.push(r[0]);
            let small = exact_shoelace(&r).map(|s| s.signum() as i32);
            let scaled: Vec<P4> = r.iter().map(|p| [p[0] * 1180591620717411303424.0, p[1] * 9.094947017729282e-13, p[2], p[3]]).collect();
            if exact_shoelace_sign(&r) != small || exact_shoelace_sign(&scaled) != small || !trapezoid_sum_is_exact_in_f64(&r) {
                return (1, 0);
            }
        }
        let a = 4503599627370496.0f64;
        if trapezoid_sum_is_exact_in_f64(&[[-a, 1.0, 0.0, 0.0], [-(a + 2.0), 0.0, 0.0, 0.0], [a, a, 0.0, 0.0], [-a, 1.0, 0.0, 0.0]]) {
            return (1, 0);
        }
        if exact_shoelace_sign(&[[-a, 1.0, 0.0, 0.0], [-(a + 2.0), 0.0, 0.0, 0.0], [a, a, 0.0, 0.0], [-a, 1.0, 0.0, 0.0]]) != Some(-1) {
            return (1, 0);
        }
    }
    let mut inj = 0;
    let mut det = 0;
    let mut t = |f: &dyn Fn(&mut MRead)| {
        let mut b = fresh();
        f(&mut b);
        inj += 1;
        det += (!judge(&case, &b).is_empty()) as u64;
    };
    t(&|b| b.shape.parts[0].pts.reverse()); // outer ring counter-clockwise
    t(&|b| {
        b.shape.parts[0].pts.pop();
    }); // not closed / vertex lost
    t(&|b| b.shape.parts[1].pts.swap(1, 2)); // vertices permuted
    t(&|b| b.shape.parts[1].kind = 0); // role changed
    t(&|b| {
        b.shape.parts[1].pts.pop();
    }); // M-only difference not closed
    t(&|b| b.shape.parts[0].pts[1][2] = 9.0); // vertex altered
    t(&|b| {
        let x = b.shape.parts[0].pts[1];
        b.shape.parts[0].pts.insert(1, x)
    }); // vertex duplicated
    (inj, det)
}

pub fn check(tier: Tier) -> i32 {
    let started = Instant::now();
    let mut units = vec![];
    let ptypes = [Ty::Polygon, Ty::PolygonM, Ty::PolygonZ];
    for ty in ptypes {
        for len in 1..=tier.pick(5usize, 6) {
            let total = 9usize.pow(len as u32);
            let chunk = 2048;
            let mut lo = 0;
            while lo < total {
                units.push(Unit::Single { ty, len, lo, hi: (lo + chunk).min(total) });
                lo += chunk;
            }
        }
        for first in 0..all_seqs(2, 4).len() {
            units.push(Unit::Two { ty, side: 2, maxlen: 4, first });
        }
        if tier == Tier::Thorough {
            for first in 0..all_seqs(3, 3).len() {
                units.push(Unit::Two { ty, side: 3, maxlen: 3, first });
            }
        }
        units.push(Unit::Devs { ty });
        units.push(Unit::Offsets { ty });
        units.push(Unit::Sawtooth { ty });
        if ty == Ty::Polygon || tier == Tier::Thorough {
            let thorough = tier == Tier::Thorough;
            let n = magnitude_values_for(thorough).len();
            for first in 0..n * n {
                units.push(Unit::Magnitudes { ty, first, thorough });
            }
        }
    }
    {
        let max = tier.pick(9000usize, 20000);
        let mut lo = 4;
        while lo < max {
            let hi = (lo + (200000 / lo).clamp(8, 500)).min(max);
            units.push(Unit::Slivers { ty: Ty::PolygonM, lo, hi });
            lo = hi;
        }
        // beyond: around 2^14, 2^15 (thorough 2^16, 2^17) vertices
        for c in tier.pick(vec![16384usize, 32768], vec![16384, 32768, 65536, 131072]) {
            units.push(Unit::Slivers { ty: Ty::PolygonM, lo: c - 2, hi: c + 6 });
        }
    }
    for ty in if tier == Tier::Quick { vec![Ty::Polygon] } else { ptypes.to_vec() } {
        for first in 0..all_seqs(2, 3).len() {
            units.push(Unit::Three { ty, first });
        }
    }
    units.push(Unit::Patch1);
    for first in 0..all_seqs(2, 3).len() {
        units.push(Unit::Patch2 { first });
    }
    units.push(Unit::Devs { ty: Ty::Multipatch });
    let deadline = Some(started + std::time::Duration::from_secs(tier.pick(50, 1700)));
    let (agg, capped) = par_blocks(units.len(), deadline, |b, ctx, tick| enumerate(&units[b], ctx, tick));
    // the self-test runs the library too: on a tree that panics there it counts as failed (a verdict, if there is one,
    // takes precedence over it)
    let st = catch(|| selftest()).unwrap_or((1, 0));
    finish(
        RunInfo {
            prop: "C16",
            tier,
            level: "model_checking",
            engine: "E2 enumerator over lattice vertex sequences on the real Polygon*/Multipatch constructors and macros; oracle = exact i128 shoelace and vertex-sequence comparison (RefRing)",
            rule: "single ring: every vertex sequence of length 1..5 (thorough 6) over {0,1,2}^2 x declared role x {new, with_rings, polygon!} x {Polygon, PolygonM, PolygonZ} x Z/M patterns {all equal, last differs only in M, only in Z}; two rings: every pair of sequences of length <= 4 over {0,1}^2 (thorough also <= 3 over {0,1,2}^2) x all role vectors; three rings: every triple of length <= 3 over {0,1}^2 x all role vectors; deviations: every slot of 4 base rings x F_xy, and a last vertex 1-8 ulps away from the first in one coordinate; thin rings of EVERY size 4..=bound and around 2^14, 2^15 (thorough 2^16, 2^17) vertices, placed so that every single edge term outweighs the area (one long edge, both orientations, both roles); every ring of 3-4 vertices over {0,1,2}^2 translated by offsets in {0, +-2^27, 2^40}^2; every triangle over the 12x12 (thorough 16x16) grid of coordinates {0, +-1, +-2^52, 2^52+2, -2^130, 2^-30, 2^600, 2^300, -2^-530, 2^-1000; thorough also -(2^52+2), 2^130, -2^600, 2^-530} (both roles), zigzag strips of 6..80 vertices with ordinates just below 2^52 (consecutive terms of about +-2^53 that cancel), single zigzags of 5..45 teeth whose ordinates wander inside a band of a few units (exact when summed edge after edge, not under another grouping of the additions), every triangle over {0, 1, 2^600} x {0..5, 8, 9 units of the smallest subnormal}; orientation judged by the sign of the exact area computed in arbitrary-precision integers; multipatch: every single patch (length <= 4) x 6 kinds x {new, with_parts, multipatch!}, every pair (length <= 3) x 36 kind pairs; non-trivial = >= 2 rings or a ring of >= 3 vertices",
            bounds: json!({"lattice": "3x3 (single ring), 2x2 (two / three rings)", "max_ring_len": tier.pick(5, 6), "units": units.len()}),
            exhaustive: true,
            assumptions: vec!["orientation is judged for every finite ring against the sign of the exact area sum (arbitrary-precision integers); rings on which f64 cannot represent a term of that sum are reported under the clause 'inexact-arithmetic', which is a listed known finding; closure and vertex preservation also on F_xy values; equality of vertices is IEEE == on the fields the point type has (so -0.0 closes +0.0)".into()],
            started,
            states: 0,
            transitions: 0,
            selftest: st,
            extra: Default::default(),
        },
        agg,
        capped,
    )
}

pub fn replay(v: &Value) -> Vec<(String, String)> {
    match Case::from_json(v) {
        None => vec![("bad-replay-file".into(), "cannot parse case".into())],
        Some(case) => match catch(|| build(&case).map(|l| (from_lib(&l), l))) {
            Ok(Some((b, lib))) => {
                let mut v = judge(&case, &b);
                if let Some(x) = rebuild_check(&case, &lib, &b) {
                    v.push(x);
                }
                v
            }
            Ok(None) => vec![],
            Err(p) => vec![(format!("{}:{:?}:{}", case.ty.name(), case.ctor, p.sig()), p.msg)],
        },
    }
}

#[allow(unused)]
fn _t(_: Patch) {}
