pub mod c01_c02;
pub mod c09;
pub mod c10;
pub mod c04;
pub mod c05;
pub mod c06;
pub mod c18;
pub mod c19;
