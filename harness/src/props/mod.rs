pub mod c01_c02;
