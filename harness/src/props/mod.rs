pub mod c01_c02;
pub mod c09;
pub mod c10;
