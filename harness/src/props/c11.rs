//! C11: a crash at any point of writing never makes a reader see a wrong
//! shape.  Workloads (writer histories) x every crash point and torn write
//! on .shp and, independently, .shx.  fault_enumeration.

use crate::bridge::*;
use crate::dev::{crash_images, Dev, Op};
use crate::engine::*;
use crate::model::*;
use crate::wexec::*;
use serde_json::{json, Value};
use shapefile::ShapeReader;
use std::collections::HashMap;
use std::time::Instant;

#[derive(Clone, Debug)]
pub struct Workload {
    pub ty: Ty,
    pub ops: Vec<WOp>,
    /// shape a is replaced by a shape whose last part has this many points (0 = off)
    pub big: usize,
    /// large workloads are split: this unit handles the crash points whose number is = slice.0 mod slice.1
    pub slice: (usize, usize),
}

impl Workload {
    pub fn to_json(&self) -> Value {
        json!({"ty": self.ty.name(), "ops": ops_name(&self.ops), "big": self.big})
    }
}

/// One crash case for replay: workload + (k, b) on each device
#[derive(Clone, Debug)]
pub struct Case {
    pub w: Workload,
    pub shp_cut: (usize, usize),
    /// None: reader opened without the index
    pub shx_cut: Option<(usize, usize)>,
}

impl Case {
    pub fn to_json(&self) -> Value {
        json!({"workload": self.w.to_json(), "shp_cut": [self.shp_cut.0, self.shp_cut.1], "shx_cut": self.shx_cut.map(|c| vec![c.0, c.1])})
    }
    pub fn from_json(v: &Value) -> Option<Case> {
        let w = v.get("workload")?;
        let pair = |x: &Value| -> Option<(usize, usize)> {
            let a = x.as_array()?;
            Some((a.first()?.as_u64()? as usize, a.get(1)?.as_u64()? as usize))
        };
        Some(Case {
            w: Workload { ty: Ty::from_name(w.get("ty")?.as_str()?)?, ops: ops_from_name(w.get("ops")?.as_str()?)?, big: w.get("big").and_then(|x| x.as_u64()).unwrap_or(0) as usize, slice: (0, 1) },
            shp_cut: pair(v.get("shp_cut")?)?,
            shx_cut: match v.get("shx_cut") {
                Some(Value::Array(_)) => Some(pair(v.get("shx_cut")?)?),
                _ => None,
            },
        })
    }
}

pub struct Run {
    pub shp_log: Vec<Op>,
    pub shx_log: Vec<Op>,
    /// palette indices of the shapes written, in order
    pub written: Vec<u8>,
    /// for every successful finalize: (number of .shp log entries when it had completed on the .shp, shapes written before it)
    pub finalized: Vec<(usize, usize)>,
}

pub fn run_workload(pal: &Palette, w: &Workload) -> Run {
    let env = WEnv::new(true);
    let mut written = vec![];
    let mut finalized = vec![];
    let envr = &env;
    let results = exec_writer(pal, &w.ops, Ending::Drop, &env, |_, op, r| match (op, r) {
        (WOp::W(k), CallRes::Ok) => written.push(k),
        (WOp::F, CallRes::Ok) => {
            // the .shp part of finalize is complete when its flush is in the log:
            // find the last .shp entry of this call
            finalized.push((envr.shp.log_len(), written.len()));
        }
        _ => {}
    });
    assert!(results.iter().all(|r| *r == CallRes::Ok), "workload failed on a healthy device: {:?}", results);
    // the final drop finalizes too
    finalized.push((env.shp.log_len(), written.len()));
    Run { shp_log: env.shp.log(), shx_log: env.shx.as_ref().unwrap().log(), written, finalized }
}

/// distinct images with, per image, the strongest "must still be readable" requirement
pub struct Images {
    pub list: Vec<(Vec<u8>, (usize, usize), usize)>, // bytes, first (k,b) producing it, required shapes
    pub points: usize,
}

pub fn images(log: &[Op], finalized: &[(usize, usize)]) -> Images {
    let mut map: HashMap<Vec<u8>, usize> = HashMap::new();
    let mut list: Vec<(Vec<u8>, (usize, usize), usize)> = vec![];
    let mut points = 0;
    crash_images(log, |k, b, img| {
        points += 1;
        // a finalize has completed on this device if all its operations are within the first k
        let req = finalized.iter().filter(|(n_ops, _)| *n_ops <= k).map(|(_, n)| *n).max().unwrap_or(0);
        match map.get(img) {
            Some(&i) => {
                if req > list[i].2 {
                    list[i].2 = req;
                }
            }
            None => {
                map.insert(img.to_vec(), list.len());
                list.push((img.to_vec(), (k, b), req));
            }
        }
    });
    Images { list, points }
}

/// What a reader showed for one image (pair).
pub struct Seen {
    pub open_err: Option<String>,
    /// items of iteration: Ok(shape) / Err
    pub items: Vec<Result<MRead, String>>,
    pub ended: bool,
    /// with index only: read_nth_shape(i) for i in 0..n_written+1
    pub nth: Vec<Option<Result<MRead, String>>>,
}

pub fn read_image(shp: &[u8], shx: Option<&[u8]>, n_written: usize) -> Seen {
    let opened = match shx {
        Some(x) => ShapeReader::with_shx(Dev::quiet(shp.to_vec()), Dev::quiet(x.to_vec())),
        None => ShapeReader::new(Dev::quiet(shp.to_vec())),
    };
    let mut r = match opened {
        Ok(r) => r,
        Err(e) => return Seen { open_err: Some(err_kind(&e)), items: vec![], ended: true, nth: vec![] },
    };
    let mut items = vec![];
    let mut ended = false;
    {
        let mut it = r.iter_shapes();
        loop {
            if items.len() > n_written + 6 {
                break;
            }
            match it.next() {
                None => {
                    ended = true;
                    break;
                }
                Some(x) => items.push(x.map(|s| from_lib(&s)).map_err(|e| err_kind(&e))),
            }
        }
    }
    let mut nth = vec![];
    if shx.is_some() {
        for i in 0..n_written + 1 {
            nth.push(r.read_nth_shape(i).map(|x| x.map(|s| from_lib(&s)).map_err(|e| err_kind(&e))));
        }
    }
    Seen { open_err: None, items, ended, nth }
}

pub fn judge(pal: &Palette, written: &[u8], required: usize, with_index: bool, s: &Seen) -> Vec<(String, String)> {
    let mut out = vec![];
    let tag = if with_index { "with-shx" } else { "no-shx" };
    if s.open_err.is_some() {
        if required > 0 && !with_index {
            out.push((format!("{}:finalized-shapes-unreadable", tag), format!("open failed ({}) although a finalize covering {} shapes had completed on the .shp", s.open_err.as_ref().unwrap(), required)));
        }
        return out;
    }
    if !s.ended {
        out.push((format!("{}:iteration-does-not-end", tag), format!("{} items", s.items.len())));
    }
    // the Ok items, in order, must be a prefix of the written shapes
    let mut n_ok = 0usize;
    let mut seen_err = false;
    for (i, it) in s.items.iter().enumerate() {
        match it {
            Ok(m) => {
                if seen_err {
                    out.push((format!("{}:shape-after-error", tag), format!("item {} is a shape although an earlier item was an error: the yielded shapes are not a prefix", i)));
                    break;
                }
                match written.get(n_ok) {
                    Some(k) if super::c01_c02::cmp_read(&pal.built[*k as usize], m).is_none() => n_ok += 1,
                    Some(k) => {
                        out.push((
                            format!("{}:wrong-shape", tag),
                            format!("item {} is not written shape {}: {}", i, n_ok, super::c01_c02::cmp_read(&pal.built[*k as usize], m).unwrap_or_default()),
                        ));
                        break;
                    }
                    None => {
                        out.push((format!("{}:invented-shape", tag), format!("item {} is a {} although only {} shapes were written", i, m.shape.ty.name(), written.len())));
                        break;
                    }
                }
            }
            Err(_) => seen_err = true,
        }
    }
    if !with_index && n_ok < required {
        out.push((
            format!("{}:finalized-shapes-unreadable", tag),
            format!("only {} shapes readable although a finalize covering {} shapes had completed on the .shp", n_ok, required),
        ));
    }
    for (i, x) in s.nth.iter().enumerate() {
        if let Some(Ok(m)) = x {
            match written.get(i) {
                Some(k) if super::c01_c02::cmp_read(&pal.built[*k as usize], m).is_none() => {}
                _ => {
                    out.push((format!("{}:random-access-wrong-shape", tag), format!("read_nth_shape({}) returned a shape that is not written shape {}", i, i)));
                    break;
                }
            }
        }
    }
    out
}

pub fn workloads(tier: Tier) -> Vec<Workload> {
    // quick: one type per record layout class (point; 2-D multi-vertex whose record ends with the XY array; M; Z; multipatch)
    let types: Vec<Ty> = tier.pick(vec![Ty::Point, Ty::Multipoint, Ty::Polyline, Ty::PolygonM, Ty::MultipointZ, Ty::Multipatch], ALL13.to_vec());
    let mut out = vec![];
    // every history over {Wa, Wb, F} with <= 3 writes and <= 2 finalizes (any placement)
    let maxlen = 5;
    let mut cur: Vec<Vec<WOp>> = vec![vec![]];
    let mut all: Vec<Vec<WOp>> = vec![];
    for _ in 0..maxlen {
        let mut next = vec![];
        for c in &cur {
            for op in [WOp::W(0), WOp::W(1), WOp::F] {
                let mut x = c.clone();
                x.push(op);
                let nw = x.iter().filter(|o| matches!(o, WOp::W(_))).count();
                let nf = x.iter().filter(|o| **o == WOp::F).count();
                if nw <= 3 && nf <= 2 {
                    next.push(x);
                }
            }
        }
        all.extend(next.iter().cloned());
        cur = next;
    }
    // keep histories with at least one write; drop those that differ only by which shape is written first
    // when there is a single write (Wa/Wb symmetric enough): keep all, they are cheap
    let all: Vec<Vec<WOp>> = all.into_iter().filter(|h| h.iter().any(|o| matches!(o, WOp::W(_)))).collect();
    let pick: Vec<Vec<WOp>> = if tier == Tier::Quick {
        // quick: <= 2 writes, or 3 writes with <= 1 finalize, first write = a
        all.into_iter()
            .filter(|h| {
                let nw = h.iter().filter(|o| matches!(o, WOp::W(_))).count();
                let nf = h.len() - nw;
                let first_w = h.iter().find(|o| matches!(o, WOp::W(_)));
                first_w == Some(&WOp::W(0)) && (nw <= 2 || nf <= 1) && h.len() <= 4
            })
            .collect()
    } else {
        all
    };
    for ty in types {
        for ops in &pick {
            out.push(Workload { ty, ops: ops.clone(), big: 0, slice: (0, 1) });
        }
    }
    // long parts: a record that is far larger than any internal block
    for (ty, big) in [(Ty::Polyline, 1000usize), (Ty::Multipoint, 1500), (Ty::PolygonM, 2000)] {
        for i in 0..16 {
            out.push(Workload { ty, ops: vec![WOp::W(0), WOp::F, WOp::W(1), WOp::W(0)], big, slice: (i, 16) });
        }
    }
    // a record of more than 16 MiB (thorough: 70 MB) between two small ones
    for (ty, big) in tier.pick(vec![(Ty::Polyline, 1_100_001usize)], vec![(Ty::Polyline, 1_100_001), (Ty::MultipointZ, 2_200_001)]) {
        out.push(Workload { ty, ops: vec![WOp::W(1), WOp::W(0), WOp::W(1)], big, slice: (0, 1) });
    }
    // thousands of records: 10001 writes, a finalize, one more write (thorough: also 20001 and a multi-vertex type)
    for (ty, n) in tier.pick(vec![(Ty::Point, 10001usize)], vec![(Ty::Point, 10001), (Ty::Point, 20001), (Ty::PolylineZ, 10001)]) {
        let mut ops: Vec<WOp> = (0..n).map(|i| WOp::W((i % 2) as u8)).collect();
        ops.push(WOp::F);
        ops.push(WOp::W(0));
        for i in 0..16 {
            out.push(Workload { ty, ops: ops.clone(), big: 0, slice: (i, 16) });
        }
    }
    out
}

fn palette_for(w: &Workload) -> Palette {
    let mut pal = Palette::new(w.ty, None);
    if w.big > 0 {
        let m = crate::structs::sized(w.ty, w.big);
        pal.lib[0] = to_lib(&m);
        pal.built[0] = from_lib(&pal.lib[0]);
        pal.model[0] = m;
    }
    pal
}

fn run_unit(w: &Workload, ctx: &mut Ctx, tick: &dyn Fn()) {
    let pal = palette_for(w);
    let run = match catch(|| run_workload(&pal, w)) {
        Ok(r) => r,
        Err(p) => {
            ctx.violation(format!("workload:{}", p.sig()), || w.to_json(), || p.msg.clone());
            return;
        }
    };
    // cases are distinct by construction here (images are deduplicated by
    // content per workload, workloads are distinct): count structurally instead of hashing
    ctx.track_hashes = false;
    if w.ops.len() > 500 {
        run_unit_many(w, &pal, &run, ctx, tick);
        return;
    }
    if w.big >= 100_000 {
        run_unit_tail(w, &pal, &run, ctx, tick);
        return;
    }
    if w.big > 0 {
        run_unit_streaming(w, &pal, &run, ctx, tick);
        return;
    }
    let shp_imgs = images(&run.shp_log, &run.finalized);
    let mut shx_imgs = images(&run.shx_log, &[]);
    if w.big > 0 {
        // the .shp has tens of thousands of crash points here: pair them with the index as persisted
        // after each complete operation only
        shx_imgs.list.retain(|(_, (_, b), _)| *b == 0);
    }
    let total = shp_imgs.list.len() as u64 * (1 + shx_imgs.list.len() as u64);
    ctx.structural_distinct += total;
    ctx.structural_nontrivial += total.saturating_sub(2);
    ctx.bump("shp_crash_points", shp_imgs.points as u64);
    ctx.bump("shx_crash_points", shx_imgs.points as u64);
    ctx.bump("shp_distinct_images", shp_imgs.list.len() as u64);
    ctx.bump("shx_distinct_images", shx_imgs.list.len() as u64);
    let mut wh = Fnv::new();
    wh.str(&w.to_json().to_string());
    let wh = wh.finish();
    let mut eval = |shp: &(Vec<u8>, (usize, usize), usize), shx: Option<&(Vec<u8>, (usize, usize), usize)>, ctx: &mut Ctx| {
        let case = || Case { w: w.clone(), shp_cut: shp.1, shx_cut: shx.map(|x| x.1) }.to_json();
        let mut h = Fnv::new();
        h.u64(wh);
        h.bytes(&shp.0);
        h.u64(0x5eed);
        if let Some(x) = shx {
            h.bytes(&x.0);
        }
        match catch(|| read_image(&shp.0, shx.map(|x| &x.0[..]), run.written.len())) {
            Ok(seen) => {
                ctx.lib_calls += 2 + seen.items.len() as u64 + seen.nth.len() as u64;
                let mut oh = Fnv::new();
                oh.u64(seen.open_err.is_some() as u64);
                for it in &seen.items {
                    oh.u64(it.is_ok() as u64 + 1);
                }
                ctx.case_done(h.finish(), shp.1 .1 > 0 || shx.map(|x| x.1 .1 > 0).unwrap_or(false) || shp.1 .0 > 0, oh.finish());
                for (sig, d) in judge(&pal, &run.written, shp.2, shx.is_some(), &seen) {
                    ctx.violation(format!("{}:{}", w.ty.name(), sig), case, || d);
                }
            }
            Err(p) => {
                ctx.case_done(h.finish(), true, 1);
                ctx.violation(format!("{}:{}", w.ty.name(), p.sig()), case, || format!("{}:{} {}", p.file, p.line, p.msg));
            }
        }
    };
    for shp in &shp_imgs.list {
        eval(shp, None, ctx);
        for shx in &shx_imgs.list {
            eval(shp, Some(shx), ctx);
        }
        tick();
    }
    if w.ops.len() >= 3 {
        ctx.sample(|| json!({"workload": w.to_json(), "shp_log_ops": run.shp_log.len(), "shx_log_ops": run.shx_log.len(), "shp_images": shp_imgs.list.len(), "shx_images": shx_imgs.list.len()}));
    }
}

/// The image after the first k operations of the log plus the first b bytes of operation k (if it is a write).
pub fn image_at(log: &[Op], k: usize, b: usize) -> Vec<u8> {
    let mut img: Vec<u8> = vec![];
    let mut put = |img: &mut Vec<u8>, pos: usize, bytes: &[u8]| {
        if img.len() < pos + bytes.len() {
            img.resize(pos + bytes.len(), 0);
        }
        img[pos..pos + bytes.len()].copy_from_slice(bytes);
    };
    for op in log.iter().take(k) {
        if let Op::Write { pos, bytes, .. } = op {
            put(&mut img, *pos as usize, bytes);
        }
    }
    if b > 0 {
        if let Some(Op::Write { pos, bytes, .. }) = log.get(k) {
            put(&mut img, *pos as usize, &bytes[..b.min(bytes.len())]);
        }
    }
    img
}

/// Workloads of thousands of records: the crash points in windows of +-1 record around the record counts
/// 1000, 1024, 4096, 8192, 10000 (and every further multiple of 10000), around every finalize, and in the last
/// three calls and drop; per point the cuts b in {0, 1, 4, 7}; the index as persisted at the operation
/// boundaries of the same window, complete, or absent.
fn run_unit_many(w: &Workload, pal: &Palette, run: &Run, ctx: &mut Ctx, tick: &dyn Fn()) {
    let n_calls = w.ops.len();
    let mut marks: Vec<usize> = vec![1000, 1024, 4096, 8192];
    let mut m = 10000;
    while m <= n_calls + 1 {
        marks.push(m);
        m += 10000;
    }
    // call index -> number of the record it writes (1-based), for W calls
    let mut rec_of_call = vec![0usize; n_calls + 2];
    let mut r = 0;
    for (i, op) in w.ops.iter().enumerate() {
        if matches!(op, WOp::W(_)) {
            r += 1;
            rec_of_call[i] = r;
        }
    }
    let in_window = |call: usize| -> bool {
        if call + 3 >= n_calls {
            return true; // the last three calls, the ending and drop
        }
        match w.ops.get(call) {
            Some(WOp::F) => true,
            Some(WOp::W(_)) => marks.iter().any(|m| rec_of_call[call] + 1 >= *m && rec_of_call[call] <= *m + 1),
            _ => false,
        }
    };
    // selected cuts of the index: operation boundaries inside windows, by call
    let mut shx_cuts: Vec<(usize, usize)> = vec![]; // (k, call)
    for (k, op) in run.shx_log.iter().enumerate() {
        if in_window(op.call() as usize) {
            shx_cuts.push((k, op.call() as usize));
        }
    }
    shx_cuts.push((run.shx_log.len(), n_calls + 1));
    let mut counter = 0usize;
    let mut n_points = 0u64;
    let mut n_pairs = 0u64;
    let mut img: Vec<u8> = vec![];
    let nk = run.shp_log.len();
    for k in 0..=nk {
        let call = run.shp_log.get(k).map(|o| o.call() as usize).unwrap_or(n_calls + 1);
        if in_window(call) {
            let wlen = match run.shp_log.get(k) {
                Some(Op::Write { bytes, .. }) => bytes.len(),
                _ => 0,
            };
            for b in [0usize, 1, 4, 7] {
                if b > 0 && b >= wlen {
                    continue;
                }
                counter += 1;
                if counter % w.slice.1 != w.slice.0 {
                    continue;
                }
                n_points += 1;
                let mut cut = img.clone();
                if b > 0 {
                    if let Some(Op::Write { pos, bytes, .. }) = run.shp_log.get(k) {
                        let pos = *pos as usize;
                        if cut.len() < pos + b {
                            cut.resize(pos + b, 0);
                        }
                        cut[pos..pos + b].copy_from_slice(&bytes[..b]);
                    }
                }
                let req = run.finalized.iter().filter(|(n_ops, _)| *n_ops <= k).map(|(_, n)| *n).max().unwrap_or(0);
                let near: Vec<Option<usize>> = std::iter::once(None)
                    .chain(shx_cuts.iter().filter(|(_, c)| *c + 1 >= call && *c <= call + 1 || *c == n_calls + 1).map(|(k2, _)| Some(*k2)))
                    .collect();
                for sk in near {
                    let shx_img = sk.map(|k2| image_at(&run.shx_log, k2, 0));
                    let case = || Case { w: w.clone(), shp_cut: (k, b), shx_cut: sk.map(|k2| (k2, 0)) }.to_json();
                    n_pairs += 1;
                    match catch(|| read_image(&cut, shx_img.as_deref(), run.written.len())) {
                        Ok(seen) => {
                            ctx.evals += 1;
                            ctx.lib_calls += 2 + seen.items.len() as u64 + seen.nth.len() as u64;
                            for (sig, d) in judge(pal, &run.written, req, sk.is_some(), &seen) {
                                ctx.violation(format!("{}:many-records:{}", w.ty.name(), sig), case, || d);
                            }
                        }
                        Err(p) => {
                            ctx.evals += 1;
                            ctx.violation(format!("{}:many-records:{}", w.ty.name(), p.sig()), case, || format!("{}:{} {}", p.file, p.line, p.msg));
                        }
                    }
                }
                tick();
            }
        }
        if let Some(Op::Write { pos, bytes, .. }) = run.shp_log.get(k) {
            let pos = *pos as usize;
            if img.len() < pos + bytes.len() {
                img.resize(pos + bytes.len(), 0);
            }
            img[pos..pos + bytes.len()].copy_from_slice(bytes);
        }
    }
    ctx.structural_distinct += n_pairs;
    ctx.structural_nontrivial += n_pairs;
    ctx.bump("shp_crash_points", n_points);
}

/// Records of tens of megabytes (millions of write operations): the crash points of the last 8 operations of the
/// .shp (cuts b in {0, 4}) and the complete file; index absent or complete.
fn run_unit_tail(w: &Workload, pal: &Palette, run: &Run, ctx: &mut Ctx, tick: &dyn Fn()) {
    let nk = run.shp_log.len();
    let shx_list: Vec<(Vec<u8>, usize)> = vec![(image_at(&run.shx_log, run.shx_log.len(), 0), run.shx_log.len())];
    let mut img = image_at(&run.shp_log, nk.saturating_sub(8), 0);
    let mut n_pairs = 0u64;
    for k in nk.saturating_sub(8)..=nk {
        let wlen = match run.shp_log.get(k) {
            Some(Op::Write { bytes, .. }) => bytes.len(),
            _ => 0,
        };
        for b in [0usize, 4] {
            if b > 0 && b >= wlen {
                continue;
            }
            let mut cut = img.clone();
            if b > 0 {
                if let Some(Op::Write { pos, bytes, .. }) = run.shp_log.get(k) {
                    let pos = *pos as usize;
                    if cut.len() < pos + b {
                        cut.resize(pos + b, 0);
                    }
                    cut[pos..pos + b].copy_from_slice(&bytes[..b]);
                }
            }
            let req = run.finalized.iter().filter(|(n_ops, _)| *n_ops <= k).map(|(_, n)| *n).max().unwrap_or(0);
            for shx in std::iter::once(None).chain(shx_list.iter().map(Some)) {
                let case = || Case { w: w.clone(), shp_cut: (k, b), shx_cut: shx.map(|x| (x.1, 0)) }.to_json();
                n_pairs += 1;
                match catch(|| read_image(&cut, shx.map(|x| &x.0[..]), run.written.len())) {
                    Ok(seen) => {
                        ctx.evals += 1;
                        ctx.lib_calls += 2 + seen.items.len() as u64 + seen.nth.len() as u64;
                        for (sig, d) in judge(pal, &run.written, req, shx.is_some(), &seen) {
                            ctx.violation(format!("{}:huge-record:{}", w.ty.name(), sig), case, || d);
                        }
                    }
                    Err(p) => {
                        ctx.evals += 1;
                        ctx.violation(format!("{}:huge-record:{}", w.ty.name(), p.sig()), case, || format!("{}:{} {}", p.file, p.line, p.msg));
                    }
                }
            }
            tick();
        }
        if let Some(Op::Write { pos, bytes, .. }) = run.shp_log.get(k) {
            let pos = *pos as usize;
            if img.len() < pos + bytes.len() {
                img.resize(pos + bytes.len(), 0);
            }
            img[pos..pos + bytes.len()].copy_from_slice(bytes);
        }
    }
    ctx.structural_distinct += n_pairs;
    ctx.structural_nontrivial += n_pairs;
}

/// Large workloads: tens of thousands of .shp crash points of tens of KiB each; images are
/// evaluated as they are produced (no deduplication, nothing stored), paired with the index as
/// persisted after each complete operation.
fn run_unit_streaming(w: &Workload, pal: &Palette, run: &Run, ctx: &mut Ctx, tick: &dyn Fn()) {
    let mut shx_list: Vec<(Vec<u8>, (usize, usize))> = vec![];
    crash_images(&run.shx_log, |k, b, img| {
        if b == 0 && shx_list.last().map(|x| x.0 != img).unwrap_or(true) {
            shx_list.push((img.to_vec(), (k, b)));
        }
    });
    let mut n_points = 0u64;
    let mut counter = 0usize;
    crash_images(&run.shp_log, |k, b, img| {
        // every operation boundary, and cuts after 1, 4 and 7 bytes of every write
        if !(b == 0 || b == 1 || b == 4 || b == 7) {
            return;
        }
        counter += 1;
        if counter % w.slice.1 != w.slice.0 {
            return;
        }
        n_points += 1;
        let req = run.finalized.iter().filter(|(n_ops, _)| *n_ops <= k).map(|(_, n)| *n).max().unwrap_or(0);
        for shx in std::iter::once(None).chain(shx_list.iter().map(Some)) {
            let case = || Case { w: w.clone(), shp_cut: (k, b), shx_cut: shx.map(|x| x.1) }.to_json();
            match catch(|| read_image(img, shx.map(|x| &x.0[..]), run.written.len())) {
                Ok(seen) => {
                    ctx.evals += 1;
                    ctx.lib_calls += 2 + seen.items.len() as u64 + seen.nth.len() as u64;
                    for (sig, d) in judge(pal, &run.written, req, shx.is_some(), &seen) {
                        ctx.violation(format!("{}:{}", w.ty.name(), sig), case, || d);
                    }
                }
                Err(p) => {
                    ctx.evals += 1;
                    ctx.violation(format!("{}:{}", w.ty.name(), p.sig()), case, || format!("{}:{} {}", p.file, p.line, p.msg));
                }
            }
        }
        tick();
    });
    let total = n_points * (1 + shx_list.len() as u64);
    ctx.structural_distinct += total;
    ctx.structural_nontrivial += total.saturating_sub(2);
    ctx.bump("shp_crash_points", n_points);
}

fn selftest() -> (u64, u64) {
    let w = Workload { ty: Ty::PolylineM, ops: vec![WOp::W(0), WOp::F, WOp::W(1)], big: 0, slice: (0, 1) };
    let pal = Palette::new(w.ty, None);
    let run = run_workload(&pal, &w);
    let shp = Dev::new();
    // final image = the complete file
    let mut fin: Vec<u8> = vec![];
    crash_images(&run.shp_log, |_, _, img| fin = img.to_vec());
    let _ = shp;
    let base = read_image(&fin, None, 2);
    if !judge(&pal, &run.written, 2, false, &base).is_empty() {
        return (1, 0);
    }
    let mut inj = 0;
    let mut det = 0;
    let mut t = |f: &dyn Fn(&mut Seen), required: usize| {
        let mut s = read_image(&fin, None, 2);
        f(&mut s);
        inj += 1;
        det += (!judge(&pal, &run.written, required, false, &s).is_empty()) as u64;
    };
    t(&|s| s.items.swap(0, 1), 2);
    t(&|s| {
        let x = s.items[0].clone();
        s.items.push(x)
    }, 2);
    t(&|s| {
        s.items.pop();
    }, 2);
    t(&|s| s.items.insert(1, Err("IoError".into())), 0);
    t(&|s| s.ended = false, 0);
    t(&|s| {
        if let Ok(m) = &mut s.items[1] {
            m.shape.parts[0].pts[0][0] = 7.0
        }
    }, 0);
    (inj, det)
}

/// C11 over faulted runs: what is persisted when the writer has been dropped after a destination failure (and at
/// every finalize that succeeded on the way) shows a reader nothing but a prefix of the shapes whose write
/// returned Ok, and everything a completed finalize covers.
pub fn judge_frun(pal: &Palette, case: &crate::frun::FCase, run: &crate::frun::FRun) -> Vec<(String, String)> {
    let mut out = vec![];
    if !case.with_shx {
        return out;
    }
    // images: after each successful finalize, and the final state
    // (both files as they are at the same moment: a crash combined with an earlier failed write is judged at call
    // boundaries only; the independent prefixes of the two files are the fault-free workloads' business)
    let mut points: Vec<(usize, usize, usize)> = run.finalized.iter().zip(&run.finalized_shx).map(|((k, n), kx)| (*k, *n, *kx)).collect();
    if !run.drop_undisturbed(case.ops.len()) {
        points.push((run.shp_log.len(), run.finalized.last().map(|x| x.1).unwrap_or(0), run.shx_log.len()));
    }
    points.dedup();
    for (k, req, kx) in points {
        let shp = image_at(&run.shp_log, k, 0);
        let shx = image_at(&run.shx_log, kx, 0);
        for with_index in [false, true] {
            match catch(|| read_image(&shp, if with_index { Some(&shx[..]) } else { None }, run.accepted.len())) {
                Ok(seen) => {
                    for (sig, d) in judge(pal, &run.accepted, req, with_index, &seen) {
                        out.push((format!("fault-run:{}:{}", case.ty.name(), sig), format!("faults {:?}{} fired in calls {:?}; results {:?}; .shp as persisted after {} operations: {}", case.faults, if case.zero_writes { " (writes accept 0 bytes)" } else { "" }, run.fired, run.results, k, d)));
                    }
                }
                Err(p) => out.push((format!("fault-run:{}:{}", case.ty.name(), p.sig()), p.msg)),
            }
        }
    }
    out
}

pub fn check(tier: Tier) -> i32 {
    let started = Instant::now();
    let ws = workloads(tier);
    let deadline = Some(started + std::time::Duration::from_secs(tier.pick(50, 1700)));
    let (agg, capped) = par_blocks(ws.len(), deadline, |b, ctx, tick| run_unit(&ws[b], ctx, tick));
    let (mut agg, mut capped) = (agg, capped);
    {
        let types: Vec<Ty> = tier.pick(vec![Ty::Point, Ty::Multipoint, Ty::Polyline, Ty::PolygonM, Ty::MultipointZ, Ty::Multipatch], ALL13.to_vec());
        let hists = crate::frun::histories(&[WOp::W(0), WOp::W(1), WOp::F], 3);
        let (a, c) = crate::frun::sweep(&types, |_| None, &[true], &hists, tier == Tier::Thorough, deadline, |pal, case, run, ctx| {
            let mut oh = Fnv::new();
            oh.bytes(&run.shp);
            ctx.case_done(case.hash(), true, oh.finish());
            for (sig, d) in judge_frun(pal, case, run) {
                ctx.violation(sig, || case.to_json(), || d);
            }
        });
        agg.absorb(a);
        capped |= c;
    }
    // the self-test runs the library too: on a tree that panics there it counts as failed (a verdict, if there is one,
    // takes precedence over it)
    let st = catch(|| selftest()).unwrap_or((1, 0));
    finish(
        RunInfo {
            prop: "C11",
            tier,
            level: "fault_enumeration",
            engine: "writer histories executed on the real ShapeWriter over logging devices; every crash image (operation prefix x torn write) of .shp and, independently, .shx fed to the real ShapeReader",
            rule: "workloads = histories over {Wa, Wb, F} with <= 3 writes and <= 2 finalizes at any placement (finalize before the first write included), ending in drop, plus a workload of 10001 writes, a finalize and one more write (thorough: also 20001, and PolylineZ) evaluated at the crash points in windows of +-1 record around the record counts 1000, 1024, 4096, 8192 and every multiple of 10000, around the finalize and in the last three calls and drop (cuts b in {0,1,4,7}; index absent, complete, or as persisted at the operation boundaries of the same window), plus a workload whose middle record has a part of 1 100 001 points (> 16 MiB; thorough also 2 200 001 MultipointZ points, 70 MB) evaluated at the crash points of the last 8 .shp operations and complete, plus every history of <= 3 operations under every single destination fault (an error, or a write accepting 0 bytes; thorough: every pair): the .shp as persisted after each successful finalize and after drop, read with and without the index; plus three workloads whose records have a part of 1000 / 1500 / 2000 points (for these: every operation boundary and cuts after 1, 4, 7 bytes of every write on the .shp, the .shx as persisted after each complete operation); crash points = for each device every k (operations applied) and every b (bytes of operation k+1 applied, 0 < b < len), images deduplicated by content (so cases are distinct by construction and are counted structurally, not hashed); evaluated: every .shp image without index, and every (.shp image, .shx image) pair with index; non-trivial = some operation applied or a torn write",
            bounds: json!({"workloads": ws.len(), "types": tier.pick(6, 13), "max_writes": 3, "max_finalizes": 2, "max_len": tier.pick(4, 5)}),
            exhaustive: true,
            assumptions: vec![
                "failure model of the statement: a prefix of each device's operation sequence persists, the operation at the cut may be torn at any byte, no reordering of unsynced writes".into(),
                "the 'still readable after a completed finalize' clause is judged on the reader without index".into(),
            ],
            started,
            states: 0,
            transitions: 0,
            selftest: st,
            extra: Default::default(),
        },
        agg,
        capped,
    )
}

pub fn replay(v: &Value) -> Vec<(String, String)> {
    if let Some(fc) = crate::frun::FCase::from_json(v) {
        let pal = fc.palette();
        return match catch(|| crate::frun::run(&pal, &fc)) {
            Ok(r) => judge_frun(&pal, &fc, &r),
            Err(p) => vec![(format!("fault-run:{}:{}", fc.ty.name(), p.sig()), p.msg)],
        };
    }
    let case = match Case::from_json(v) {
        Some(c) => c,
        None => return vec![("bad-replay-file".into(), "cannot parse case".into())],
    };
    let pal = palette_for(&case.w);
    let run = run_workload(&pal, &case.w);
    let find = |log: &[Op], cut: (usize, usize), fin: &[(usize, usize)]| -> Option<(Vec<u8>, usize)> {
        if cut.0 > log.len() {
            return None;
        }
        let req = fin.iter().filter(|(n, _)| *n <= cut.0).map(|(_, n)| *n).max().unwrap_or(0);
        Some((image_at(log, cut.0, cut.1), req))
    };
    let (shp, req) = match find(&run.shp_log, case.shp_cut, &run.finalized) {
        Some(x) => x,
        None => return vec![("bad-replay-file".into(), "shp cut not in this tree's operation log".into())],
    };
    let shx = match case.shx_cut {
        Some(c) => match find(&run.shx_log, c, &[]) {
            Some(x) => Some(x.0),
            None => return vec![("bad-replay-file".into(), "shx cut not in this tree's operation log".into())],
        },
        None => None,
    };
    match catch(|| read_image(&shp, shx.as_deref(), run.written.len())) {
        Ok(seen) => judge(&pal, &run.written, req, shx.is_some(), &seen).into_iter().map(|(s, d)| (format!("{}:{}", case.w.ty.name(), s), d)).collect(),
        Err(p) => vec![(format!("{}:{}", case.w.ty.name(), p.sig()), p.msg)],
    }
}
