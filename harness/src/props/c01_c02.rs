//! C01 (write-then-read round trip) and C02 (every written .shp is
//! well-formed, decided by the independent RefCodec).  Engine E2.

use crate::bridge::*;
use crate::dev::Dev;
use crate::engine::*;
use crate::model::*;
use crate::refmodel::codec;
use crate::structs::*;
use crate::with_ty;
use serde_json::{json, Value};
use shapefile::{Shape, ShapeReader, ShapeWriter};
use std::time::Instant;

#[derive(Clone, Copy, PartialEq, Eq, Debug)]
pub enum Which {
    C01,
    C02,
}

#[derive(Clone, Debug)]
pub struct Case {
    pub ty: Ty,
    pub shapes: Vec<MShape>,
    pub ndev: u8,
    /// finalize placements: bit 0 = before the first write, bit i = after the i-th write
    pub fin_mask: u32,
    pub disk: bool,
}

impl Case {
    pub fn to_json(&self) -> Value {
        json!({
            "ty": self.ty.name(),
            "shapes": self.shapes.iter().map(|s| s.to_json()).collect::<Vec<_>>(),
            "ndev": self.ndev,
            "fin_mask": self.fin_mask,
            "disk": self.disk,
        })
    }
    pub fn from_json(v: &Value) -> Option<Case> {
        Some(Case {
            ty: Ty::from_name(v.get("ty")?.as_str()?)?,
            shapes: v
                .get("shapes")?
                .as_array()?
                .iter()
                .map(MShape::from_json)
                .collect::<Option<Vec<_>>>()?,
            ndev: v.get("ndev")?.as_u64()? as u8,
            fin_mask: v.get("fin_mask").and_then(|x| x.as_u64()).unwrap_or(0) as u32,
            disk: v.get("disk").and_then(|x| x.as_bool()).unwrap_or(false),
        })
    }
    fn hash(&self) -> u64 {
        let mut h = Fnv::new();
        h.u64(self.ty.code() as u64);
        h.u64(self.shapes.len() as u64);
        for s in &self.shapes {
            s.hash_into(&mut h);
        }
        h.u64(self.fin_mask as u64 + 1);
        h.u64(self.disk as u64);
        h.finish()
    }
    fn nontrivial(&self) -> bool {
        self.shapes.len() >= 2 || self.shapes.iter().any(|s| s.parts.len() >= 2) || self.ndev >= 1 || self.fin_mask != 0
    }
}

pub struct Obs {
    /// the shapes as constructed by the public constructors
    pub written: Vec<MRead>,
    pub shp: Vec<u8>,
    pub shx: Vec<u8>,
    /// (route, result)
    pub routes: Vec<(String, Result<Vec<MRead>, String>)>,
    pub lib_calls: u64,
}

fn collect_generic<T: std::io::Read + std::io::Seek>(
    it: shapefile::reader::ShapeIterator<'_, T, Shape>,
    cap: usize,
) -> Result<Vec<MRead>, String> {
    let mut v = vec![];
    for (i, r) in it.enumerate() {
        if i > cap {
            return Err("iteration does not end".into());
        }
        match r {
            Ok(s) => v.push(from_lib(&s)),
            Err(e) => return Err(format!("item {}: {}", i, err_kind(&e))),
        }
    }
    Ok(v)
}

macro_rules! collect_as {
    ($rdr:expr, $T:ident, $cap:expr) => {{
        let mut v = vec![];
        let mut res: Result<(), String> = Ok(());
        for (i, r) in $rdr.iter_shapes_as::<$T>().enumerate() {
            if i > $cap {
                res = Err("iteration does not end".into());
                break;
            }
            match r {
                Ok(s) => v.push(from_lib(&Shape::from(s))),
                Err(e) => {
                    res = Err(format!("item {}: {}", i, err_kind(&e)));
                    break;
                }
            }
        }
        res.map(|_| v)
    }};
}

pub fn scratch_dir() -> std::path::PathBuf {
    let base = std::env::var("TMPDIR").ok().unwrap_or_else(|| {
        if std::path::Path::new("/dev/shm").is_dir() {
            "/dev/shm".into()
        } else {
            "/tmp".into()
        }
    });
    let d = std::path::PathBuf::from(base).join(format!("vcheck-{}", std::process::id()));
    let _ = std::fs::create_dir_all(&d);
    d
}

/// The disk routes need a writable scratch directory; without one the run
/// is a machinery failure (exit 2), never a verdict about the library.
pub fn scratch_usable() -> bool {
    let p = scratch_dir().join("probe");
    let ok = std::fs::write(&p, b"x").is_ok() && std::fs::read(&p).map(|v| v == b"x").unwrap_or(false);
    let _ = std::fs::remove_file(&p);
    if !ok {
        eprintln!("vcheck: scratch directory {} is not writable (set TMPDIR)", scratch_dir().display());
    }
    ok
}

pub fn cleanup_scratch() {
    let _ = std::fs::remove_dir_all(scratch_dir());
}

/// Execute the case on the real library.
pub fn observe(case: &Case) -> Result<Obs, PanicInfo> {
    catch(|| {
        let libs: Vec<Shape> = case.shapes.iter().map(to_lib).collect();
        let written: Vec<MRead> = libs.iter().map(from_lib).collect();
        let n = libs.len();
        let mut calls = 0u64;
        let mut routes: Vec<(String, Result<Vec<MRead>, String>)> = vec![];
        let (shp, shx);
        if case.disk {
            let dir = scratch_dir();
            let tid = format!("{:?}", std::thread::current().id());
            let tid: String = tid.chars().filter(|c| c.is_ascii_digit()).collect();
            // (by turns a plain name, a name without any extension, a name that is not valid UTF-8)
            let path = match libs.len() % 3 {
                1 => dir.join(format!("c01-{}-noext", tid)),
                #[cfg(unix)]
                2 => {
                    use std::os::unix::ffi::OsStrExt;
                    let mut b = b"c01-\xff\xfe-".to_vec();
                    b.extend(tid.as_bytes());
                    b.extend(b".shp");
                    dir.join(std::ffi::OsStr::from_bytes(&b))
                }
                _ => dir.join(format!("c01-{}.shp", tid)),
            };
            // the path already holds longer files (a shapefile regenerated in place)
            std::fs::write(&path, vec![0xEEu8; 70_000]).expect("prefill");
            std::fs::write(path.with_extension("shx"), vec![0xEEu8; 9_000]).expect("prefill");
            {
                let mut w = ShapeWriter::from_path(&path).expect("create files");
                for s in &libs {
                    write_shape(&mut w, s).expect("write_shape on disk");
                    calls += 1;
                }
            }
            shp = std::fs::read(&path).unwrap();
            shx = std::fs::read(path.with_extension("shx")).unwrap();
            routes.push((
                "disk/read_shapes".into(),
                shapefile::read_shapes(&path)
                    .map(|v| v.iter().map(from_lib).collect())
                    .map_err(|e| err_kind(&e)),
            ));
            routes.push((
                "disk/read_shapes_as".into(),
                with_ty!(case.ty, T => shapefile::read_shapes_as::<_, T>(&path)
                    .map(|v| v.into_iter().map(|s| from_lib(&Shape::from(s))).collect())
                    .map_err(|e| err_kind(&e)), unreachable!()),
            ));
            let mut nth = vec![];
            let mut nth_err = None;
            match ShapeReader::from_path(&path) {
                Ok(mut r) => {
                    for i in 0..n {
                        match r.read_nth_shape(i) {
                            Some(Ok(s)) => nth.push(from_lib(&s)),
                            Some(Err(e)) => {
                                nth_err = Some(format!("nth {}: {}", i, err_kind(&e)));
                                break;
                            }
                            None => {
                                nth_err = Some(format!("nth {}: None", i));
                                break;
                            }
                        }
                    }
                    if nth_err.is_none() && r.read_nth_shape(n).is_some() {
                        nth_err = Some(format!("nth {} beyond the end is Some", n));
                    }
                }
                Err(e) => nth_err = Some(err_kind(&e)),
            }
            routes.push(("disk/from_path+read_nth_shape".into(), nth_err.map(Err).unwrap_or(Ok(nth))));
            calls += 3 + n as u64;
            // the complete writers: created by path with a table description, and created again from the description
            // of that finished data set (Writer::from_path_with_info)
            if n >= 1 && n <= 3 && libs.iter().map(|s| from_lib(s).shape.n_points()).sum::<usize>() < 2000 {
                let (p1, p2) = (dir.join(format!("c01w-{}-a.shp", tid)), dir.join(format!("c01w-{}-b.shp", tid)));
                let res = (|| -> Result<Vec<MRead>, String> {
                    {
                        let mut w = shapefile::Writer::from_path(&p1, crate::table::builder()).map_err(|e| format!("from_path: {}", err_kind(&e)))?;
                        for (i, s) in libs.iter().enumerate() {
                            crate::bridge::write_pair(&mut w, s, &crate::table::good_row(i)).map_err(|e| format!("write: {}", err_kind(&e)))?;
                        }
                    }
                    let info = shapefile::Reader::from_path(&p1).map_err(|e| format!("Reader::from_path: {}", err_kind(&e)))?.into_table_info();
                    {
                        let mut w = shapefile::Writer::from_path_with_info(&p2, info).map_err(|e| format!("from_path_with_info: {}", err_kind(&e)))?;
                        for (i, s) in libs.iter().enumerate() {
                            crate::bridge::write_pair(&mut w, s, &crate::table::good_row(i)).map_err(|e| format!("write: {}", err_kind(&e)))?;
                        }
                    }
                    let first = shapefile::read_shapes(&p1).map_err(|e| format!("read first: {}", err_kind(&e)))?;
                    let second = shapefile::read_shapes(&p2).map_err(|e| format!("read second: {}", err_kind(&e)))?;
                    if first.len() != second.len() {
                        return Err(format!("{} shapes in the first data set, {} in the second", first.len(), second.len()));
                    }
                    Ok(second.iter().map(from_lib).collect())
                })();
                routes.push(("disk/Writer::from_path_with_info+read_shapes".into(), res));
                calls += 2 * n as u64 + 5;
                for p in [&p1, &p2] {
                    for ext in ["shp", "shx", "dbf"] {
                        let _ = std::fs::remove_file(p.with_extension(ext));
                    }
                }
            }
            let _ = std::fs::remove_file(&path);
            let _ = std::fs::remove_file(path.with_extension("shx"));
        } else {
            let (dshp, dshx) = (Dev::quiet(vec![]), Dev::quiet(vec![]));
            {
                let mut w = ShapeWriter::with_shx(dshp.clone(), dshx.clone());
                if case.fin_mask & 1 != 0 {
                    w.finalize().expect("finalize of an empty writer");
                }
                for (i, s) in libs.iter().enumerate() {
                    write_shape(&mut w, s).expect("write_shape to memory");
                    calls += 1;
                    if i < 31 && case.fin_mask & (1 << (i + 1)) != 0 {
                        w.finalize().expect("finalize between writes");
                        calls += 1;
                    }
                }
            }
            shp = dshp.data();
            shx = dshx.data();
            let cap = n + 4;
            // generic, with and without index
            for with in [true, false] {
                let name = format!("mem/generic/iter/{}", if with { "shx" } else { "noshx" });
                let r = if with {
                    ShapeReader::with_shx(Dev::quiet(shp.clone()), Dev::quiet(shx.clone()))
                } else {
                    ShapeReader::new(Dev::quiet(shp.clone()))
                };
                calls += 1;
                routes.push((
                    name,
                    match r {
                        Ok(mut r) => collect_generic(r.iter_shapes(), cap),
                        Err(e) => Err(format!("open: {}", err_kind(&e))),
                    },
                ));
            }
            if n > 0 {
                // concrete, with and without index
                for with in [true, false] {
                    let name = format!("mem/concrete/iter/{}", if with { "shx" } else { "noshx" });
                    let r = if with {
                        ShapeReader::with_shx(Dev::quiet(shp.clone()), Dev::quiet(shx.clone()))
                    } else {
                        ShapeReader::new(Dev::quiet(shp.clone()))
                    };
                    calls += 1;
                    routes.push((
                        name,
                        match r {
                            Ok(mut r) => with_ty!(case.ty, T => collect_as!(r, T, cap), unreachable!()),
                            Err(e) => Err(format!("open: {}", err_kind(&e))),
                        },
                    ));
                }
                // random access, generic and concrete, on one reader each
                for concrete in [false, true] {
                    let name = format!("mem/{}/nth/shx", if concrete { "concrete" } else { "generic" });
                    let res = (|| -> Result<Vec<MRead>, String> {
                        let mut r = ShapeReader::with_shx(Dev::quiet(shp.clone()), Dev::quiet(shx.clone()))
                            .map_err(|e| format!("open: {}", err_kind(&e)))?;
                        let mut v = vec![];
                        for i in 0..n {
                            let item = if concrete {
                                with_ty!(case.ty, T => r.read_nth_shape_as::<T>(i).map(|x| x.map(Shape::from)), unreachable!())
                            } else {
                                r.read_nth_shape(i)
                            };
                            match item {
                                Some(Ok(s)) => v.push(from_lib(&s)),
                                Some(Err(e)) => return Err(format!("nth {}: {}", i, err_kind(&e))),
                                None => return Err(format!("nth {}: None", i)),
                            }
                        }
                        if r.read_nth_shape(n).is_some() {
                            return Err(format!("nth {} beyond the end is Some", n));
                        }
                        Ok(v)
                    })();
                    calls += n as u64 + 2;
                    routes.push((name, res));
                }
            }
        }
        Obs {
            written,
            shp,
            shx,
            routes,
            lib_calls: calls,
        }
    })
}

/// Compare what a reader returned for one record with the shape as
/// constructed.  Returns a clause name on disagreement.
pub fn cmp_read(exp: &MRead, got: &MRead) -> Option<String> {
    let (e, g) = (&exp.shape, &got.shape);
    if e.ty != g.ty {
        return Some(format!("type {} != {}", g.ty.name(), e.ty.name()));
    }
    if e.parts.len() != g.parts.len() {
        return Some(format!("part-count {} != {}", g.parts.len(), e.parts.len()));
    }
    let dims = e.ty.dims();
    let multi = e.ty.family() != Family::Point;
    for (pi, (ep, gp)) in e.parts.iter().zip(&g.parts).enumerate() {
        if ep.pts.len() != gp.pts.len() {
            return Some(format!("part-{}-length {} != {}", pi, gp.pts.len(), ep.pts.len()));
        }
        match e.ty.family() {
            Family::Multipatch => {
                if ep.kind != gp.kind {
                    return Some(format!("patch-kind part {}: {} != {}", pi, gp.kind, ep.kind));
                }
            }
            Family::Polygon => {
                if let Some(area) = exact_shoelace(&ep.pts) {
                    if area != 0 && ep.kind != gp.kind {
                        return Some(format!(
                            "ring-role part {}: read {} written {} (exact area {})",
                            pi, gp.kind, ep.kind, area
                        ));
                    }
                }
            }
            _ => {}
        }
        for (vi, (ev, gv)) in ep.pts.iter().zip(&gp.pts).enumerate() {
            for d in 0..3 {
                if dims[d] && ev[d].to_bits() != gv[d].to_bits() {
                    return Some(format!(
                        "coord-{} part {} vertex {}: {} != {}",
                        ["x", "y", "z"][d],
                        pi,
                        vi,
                        fshow(gv[d]),
                        fshow(ev[d])
                    ));
                }
            }
            if dims[3] {
                let want = if multi { norm_m(ev[3]) } else { ev[3] };
                if want.to_bits() != gv[3].to_bits() {
                    return Some(format!(
                        "measure part {} vertex {}: {} != {} (written {})",
                        pi,
                        vi,
                        fshow(gv[3]),
                        fshow(want),
                        fshow(ev[3])
                    ));
                }
            }
        }
    }
    match (&exp.bbox, &got.bbox) {
        (None, None) => {}
        (Some(eb), Some(gb)) => {
            let used = [true, true, true, true, dims[2], dims[2], dims[3], dims[3]];
            for i in 0..8 {
                if used[i] && eb[i].to_bits() != gb[i].to_bits() {
                    return Some(format!(
                        "bbox-{}: {} != {}",
                        ["xmin", "ymin", "xmax", "ymax", "zmin", "zmax", "mmin", "mmax"][i],
                        fshow(gb[i]),
                        fshow(eb[i])
                    ));
                }
            }
        }
        _ => return Some("bbox presence differs".into()),
    }
    None
}

fn clause_class(c: &str) -> String {
    // first token of the clause is the class: "coord-x", "measure", ...
    c.split(|ch: char| ch == ' ' || ch == ':').next().unwrap_or(c).to_string()
}

pub fn judge_c01(case: &Case, obs: &Obs) -> Vec<(String, String)> {
    let mut out = vec![];
    for (route, res) in &obs.routes {
        let rclass: String = route.split('/').take(3).collect::<Vec<_>>().join("/");
        match res {
            Err(e) => out.push((
                format!("{}:{}:route-error", case.ty.name(), rclass),
                format!("route {} failed: {}", route, e),
            )),
            Ok(v) => {
                if v.len() != obs.written.len() {
                    out.push((
                        format!("{}:{}:count", case.ty.name(), rclass),
                        format!("route {} returned {} shapes, {} written", route, v.len(), obs.written.len()),
                    ));
                    continue;
                }
                for (i, (e, g)) in obs.written.iter().zip(v).enumerate() {
                    if let Some(c) = cmp_read(e, g) {
                        out.push((
                            format!("{}:{}:{}", case.ty.name(), rclass, clause_class(&c)),
                            format!("route {} shape {}: {}", route, i, c),
                        ));
                        break;
                    }
                }
            }
        }
    }
    out
}

/// C02: the raw .shp must pass the strict validator and decode, bit for
/// bit, to the geometry handed to the writer.
pub fn judge_c02(case: &Case, obs: &Obs) -> Vec<(String, String)> {
    let mut out = vec![];
    let tn = case.ty.name();
    let df = match codec::decode_file(&obs.shp, &codec::DecodeOpts { strict: true }) {
        Ok(d) => d,
        Err(e) => {
            let class = e.split(':').next().unwrap_or("?").chars().filter(|c| !c.is_ascii_digit()).collect::<String>();
            return vec![(format!("{}:validator:{}", tn, class.trim()), format!("strict validator: {}", e))];
        }
    };
    let want_ty = if obs.written.is_empty() { 0 } else { case.ty.code() };
    if df.header.ty_code != want_ty {
        out.push((
            format!("{}:header-type", tn),
            format!("header type {} expected {}", df.header.ty_code, want_ty),
        ));
    }
    if df.records.len() != obs.written.len() {
        out.push((
            format!("{}:record-count", tn),
            format!("{} records, {} written", df.records.len(), obs.written.len()),
        ));
        return out;
    }
    let dims = case.ty.dims();
    for (i, (rec, exp)) in df.records.iter().zip(&obs.written).enumerate() {
        // raw comparison: no normalisation of M on the writing side
        let (e, g) = (&exp.shape, &rec.read.shape);
        let mut bad: Option<String> = None;
        if e.ty != g.ty || e.parts.len() != g.parts.len() {
            bad = Some(format!("structure: type/parts {:?}/{} vs {:?}/{}", g.ty, g.parts.len(), e.ty, e.parts.len()));
        } else {
            'outer: for (pi, (ep, gp)) in e.parts.iter().zip(&g.parts).enumerate() {
                if ep.pts.len() != gp.pts.len() {
                    bad = Some(format!("structure: part {} has {} points, handed {}", pi, gp.pts.len(), ep.pts.len()));
                    break;
                }
                if e.ty.family() == Family::Multipatch && ep.kind != gp.kind {
                    bad = Some(format!("patch-kind: part {} kind {} handed {}", pi, gp.kind, ep.kind));
                    break;
                }
                for (vi, (ev, gv)) in ep.pts.iter().zip(&gp.pts).enumerate() {
                    for d in 0..4 {
                        if !dims[d] {
                            continue;
                        }
                        if d == 3 && !rec.has_m_block {
                            if !is_nodata(ev[3]) {
                                bad = Some(format!("m-block-absent: part {} vertex {} handed measure {}", pi, vi, fshow(ev[3])));
                                break 'outer;
                            }
                            continue;
                        }
                        if ev[d].to_bits() != gv[d].to_bits() {
                            bad = Some(format!(
                                "coord-{}: part {} vertex {} stored {} handed {}",
                                ["x", "y", "z", "m"][d],
                                pi,
                                vi,
                                fshow(gv[d]),
                                fshow(ev[d])
                            ));
                            break 'outer;
                        }
                    }
                }
            }
        }
        if bad.is_none() {
            if let (Some(eb), Some(gb)) = (&exp.bbox, &rec.read.bbox) {
                let used = [true, true, true, true, dims[2], dims[2], dims[3] && rec.has_m_block, dims[3] && rec.has_m_block];
                for k in 0..8 {
                    if used[k] && eb[k].to_bits() != gb[k].to_bits() {
                        bad = Some(format!("stored-box: field {} stored {} shape says {}", k, fshow(gb[k]), fshow(eb[k])));
                        break;
                    }
                }
            }
        }
        if let Some(b) = bad {
            out.push((
                format!("{}:decode:{}", tn, clause_class(&b)),
                format!("record {}: {}", i, b),
            ));
            break;
        }
    }
    out
}

struct Unit {
    ty: Ty,
    kind: UnitKind,
}
enum UnitKind {
    /// single-shape files of structures[lo..hi], deviations up to dmax
    Single { lo: usize, hi: usize, dmax: u8 },
    /// sequences: tuples[lo..hi] over the reduced set, deviations up to dmax
    Seq { lo: usize, hi: usize, dmax: u8 },
    /// d = 2 on single-shape files of reduced structure idx
    Pairs { idx: usize },
    /// C02: empty files
    Empty,
    /// size ladder: large parts / many parts, d = 0, alone and after a small shape
    Ladder { idx: usize },
    /// every finalize placement around sequences of 1..3 shapes, d = 0
    Finalize,
    /// every part length n in [lo, hi), d = 0 (no size class is skipped up to the bound)
    Sizes { lo: usize, hi: usize },
    /// every record count n in [lo, hi), d = 0
    Counts { lo: usize, hi: usize },
    /// disk route, d = 0, sequences
    Disk,
    /// polygons: an outer square with one small hole (unit square or triangle, both orientations given, at every
    /// position of a 3 x 3 grid) translated far from the origin (offsets up to 2^40 and odd ones): the hole is tiny
    /// against the magnitude of its coordinates
    OffsetRings,
    /// multi-vertex measured shapes whose measures are [real, no-data, no-data, ..] resp. [no-data, .., real], with
    /// every single deviation on top (so that e.g. real, NaN, no-data occurs in every order)
    MPatterns,
    /// sizes crossed with values and with structure: a special measure / Z at the start, middle or end of a part of
    /// 300..20000 points; two long parts of every ordered pair of lengths around 2^8, 2^10, 2^14; thin rings of
    /// about 2^14 vertices whose area is smaller than any single edge term
    BigCross,
}

struct Tables {
    structs: Vec<(Ty, Vec<MShape>)>,
    reduced: Vec<(Ty, Vec<MShape>)>,
    tuples: Vec<Vec<usize>>, // over 0..6, filtered per type by length of the reduced set
    tier: Tier,
}

fn tables(tier: Tier) -> Tables {
    let scope = tier.pick(Scope::Quick, Scope::Thorough);
    let mut t = Tables {
        structs: vec![],
        reduced: vec![],
        tuples: vec![],
        tier,
    };
    for ty in ALL13 {
        t.structs.push((ty, structures(ty, scope)));
        t.reduced.push((ty, reduced_set(ty)));
    }
    t.tuples = tuples(6, 2);
    t.tuples.extend(tuples(6, 3));
    t.tuples.extend(tuples(3, 4));
    t.tuples.extend(tuples(2, 5));
    if tier == Tier::Thorough {
        t.tuples.extend(tuples(4, 4));
    }
    t
}

fn lookup<'a>(v: &'a [(Ty, Vec<MShape>)], ty: Ty) -> &'a Vec<MShape> {
    &v.iter().find(|(t, _)| *t == ty).unwrap().1
}

fn units(which: Which, tier: Tier, t: &Tables) -> Vec<Unit> {
    let mut u = vec![];
    for ty in ALL13 {
        let n = lookup(&t.structs, ty).len();
        // d <= 1 over all structures, except that multipatch / polygon
        // structures with many parts get d = 0 in the quick tier via chunking below
        let chunk = 8;
        let mut lo = 0;
        while lo < n {
            let hi = (lo + chunk).min(n);
            u.push(Unit {
                ty,
                kind: UnitKind::Single { lo, hi, dmax: 1 },
            });
            lo = hi;
        }
        let nt = t.tuples.len();
        let mut lo = 0;
        while lo < nt {
            let hi = (lo + 16).min(nt);
            u.push(Unit {
                ty,
                kind: UnitKind::Seq {
                    lo,
                    hi,
                    dmax: 1,
                },
            });
            lo = hi;
        }
        if tier == Tier::Thorough {
            for idx in 0..lookup(&t.reduced, ty).len() {
                u.push(Unit {
                    ty,
                    kind: UnitKind::Pairs { idx },
                });
            }
        }
        if which == Which::C02 {
            u.push(Unit {
                ty,
                kind: UnitKind::Empty,
            });
        }
        for idx in 0..ladder(ty).len() {
            u.push(Unit {
                ty,
                kind: UnitKind::Ladder { idx },
            });
        }
        u.push(Unit {
            ty,
            kind: UnitKind::Finalize,
        });
        if matches!(ty, Ty::Point | Ty::PolylineZ) {
            let max = tier.pick(1600usize, 3100);
            let mut lo = 4;
            while lo < max {
                let hi = (lo + (20000 / lo).clamp(4, 200)).min(max);
                u.push(Unit { ty, kind: UnitKind::Counts { lo, hi } });
                lo = hi;
            }
        }
        if ty == Ty::Point {
            // record numbers that need a third byte (and, thorough, 2^17 and 2^18)
            u.push(Unit { ty, kind: UnitKind::Counts { lo: 65535, hi: 65538 } });
            // one long history: whatever a writer does every N records (N up to the length) shows in the file it leaves
            u.push(Unit { ty, kind: UnitKind::Counts { lo: 300_001, hi: 300_002 } });
            if tier == Tier::Thorough {
                u.push(Unit { ty, kind: UnitKind::Counts { lo: 131071, hi: 131074 } });
                u.push(Unit { ty, kind: UnitKind::Counts { lo: 262143, hi: 262146 } });
                u.push(Unit { ty, kind: UnitKind::Counts { lo: 1_048_577, hi: 1_048_578 } });
            }
        }
        if matches!(ty, Ty::Multipoint | Ty::PolylineM | Ty::PolygonZ | Ty::Multipatch) {
            let max = tier.pick(4200usize, 9000);
            let mut lo = 2;
            while lo < max {
                // blocks of roughly equal work (work grows with n)
                let hi = (lo + (60000 / lo).clamp(8, 400)).min(max);
                u.push(Unit { ty, kind: UnitKind::Sizes { lo, hi } });
                lo = hi;
            }
        }
        u.push(Unit {
            ty,
            kind: UnitKind::Disk,
        });
        if ty.family() == Family::Polygon {
            u.push(Unit { ty, kind: UnitKind::OffsetRings });
        }
        if ty.carries_m() && ty.family() != Family::Point {
            u.push(Unit { ty, kind: UnitKind::MPatterns });
        }
        if matches!(ty, Ty::MultipointM | Ty::PolylineZ | Ty::PolygonM | Ty::Multipatch | Ty::Polygon) || (tier == Tier::Thorough && ty.family() != Family::Point) {
            u.push(Unit { ty, kind: UnitKind::BigCross });
        }
    }
    u
}

fn run_case(which: Which, case: &Case, ctx: &mut Ctx) {
    let obs = match observe(case) {
        Ok(o) => o,
        Err(p) => {
            ctx.case_done(case.hash(), case.nontrivial(), 1);
            ctx.violation(
                format!("{}:{}", case.ty.name(), p.sig()),
                || case.to_json(),
                || format!("panic at {}:{}: {}", p.file, p.line, p.msg),
            );
            return;
        }
    };
    ctx.lib_calls += obs.lib_calls;
    let verdicts = match which {
        Which::C01 => judge_c01(case, &obs),
        Which::C02 => judge_c02(case, &obs),
    };
    let mut oh = Fnv::new();
    oh.bytes(&obs.shp);
    ctx.case_done(case.hash(), case.nontrivial(), oh.finish());
    if case.shapes.iter().map(|s| s.n_points()).sum::<usize>() < 40 {
        ctx.sample(|| case.to_json());
    }
    for (sig, detail) in verdicts {
        ctx.violation(sig, || case.to_json(), || detail);
    }
}

fn enumerate_unit(which: Which, t: &Tables, u: &Unit, ctx: &mut Ctx, tick: &dyn Fn()) {
    let ty = u.ty;
    let mut go = |case: Case, ctx: &mut Ctx| {
        run_case(which, &case, ctx);
        tick();
    };
    let with_devs = |base: &[MShape], dmax: u8, ctx: &mut Ctx, go: &mut dyn FnMut(Case, &mut Ctx)| {
        go(
            Case {
                ty,
                shapes: base.to_vec(),
                ndev: 0,
                fin_mask: 0,
                disk: false,
            },
            ctx,
        );
        if dmax >= 1 {
            for slot in slots(base) {
                for val in alphabet_for_dim(slot.dim) {
                    let mut shapes = base.to_vec();
                    apply(&mut shapes, slot, val);
                    go(
                        Case {
                            ty,
                            shapes,
                            ndev: 1,
                            fin_mask: 0,
                            disk: false,
                        },
                        ctx,
                    );
                }
            }
        }
    };
    match &u.kind {
        UnitKind::Single { lo, hi, dmax } => {
            let st = lookup(&t.structs, ty);
            for s in &st[*lo..*hi] {
                // big structures: deviations only in the thorough tier
                let big = s.parts.len() >= 3 && s.n_points() > 9;
                let d = if big && t.tier == Tier::Quick { 0 } else { *dmax };
                with_devs(std::slice::from_ref(s), d, ctx, &mut go);
            }
        }
        UnitKind::Seq { lo, hi, dmax } => {
            let red = lookup(&t.reduced, ty);
            for tup in &t.tuples[*lo..*hi] {
                if tup.iter().any(|i| *i >= red.len()) {
                    continue;
                }
                let base: Vec<MShape> = tup.iter().map(|i| red[*i].clone()).collect();
                with_devs(&base, *dmax, ctx, &mut go);
            }
        }
        UnitKind::Pairs { idx } => {
            let red = lookup(&t.reduced, ty);
            let base = vec![red[*idx].clone()];
            let sl = slots(&base);
            for (i, a) in sl.iter().enumerate() {
                for b in &sl[i + 1..] {
                    for va in alphabet_for_dim(a.dim) {
                        for vb in alphabet_for_dim(b.dim) {
                            let mut shapes = base.clone();
                            apply(&mut shapes, *a, va);
                            apply(&mut shapes, *b, vb);
                            go(
                                Case {
                                    ty,
                                    shapes,
                                    ndev: 2,
                                    fin_mask: 0,
                                    disk: false,
                                },
                                ctx,
                            );
                        }
                    }
                }
            }
        }
        UnitKind::Empty => {
            for fin in [0u32, 1] {
                go(
                    Case {
                        ty,
                        shapes: vec![],
                        ndev: 0,
                        fin_mask: fin,
                        disk: false,
                    },
                    ctx,
                );
            }
        }
        UnitKind::Ladder { idx } => {
            let big = ladder(ty)[*idx].clone();
            let small = lookup(&t.reduced, ty)[0].clone();
            for shapes in [vec![big.clone()], vec![small.clone(), big.clone(), small.clone()]] {
                go(Case { ty, shapes, ndev: 0, fin_mask: 0, disk: false }, ctx);
            }
        }
        UnitKind::Counts { lo, hi } => {
            let red = lookup(&t.reduced, ty);
            for n in *lo..*hi {
                let shapes: Vec<MShape> = (0..n).map(|i| red[(i * 5 + i / 7) % red.len()].clone()).collect();
                go(Case { ty, shapes, ndev: 0, fin_mask: 0, disk: false }, ctx);
            }
        }
        UnitKind::Sizes { lo, hi } => {
            for n in *lo..*hi {
                go(Case { ty, shapes: vec![sized(ty, n)], ndev: 0, fin_mask: 0, disk: false }, ctx);
            }
        }
        UnitKind::Finalize => {
            let red = lookup(&t.reduced, ty);
            let k = red.len().min(3);
            for n in 1..=5usize {
                // up to 3 writes over 3 shapes, 4 and 5 writes over 2 shapes
                for tup in tuples(if n <= 3 { k } else { k.min(2) }, n) {
                    for mask in 1u32..(1 << (n + 1)) {
                        go(Case { ty, shapes: tup.iter().map(|i| red[*i].clone()).collect(), ndev: 0, fin_mask: mask, disk: false }, ctx);
                    }
                }
            }
        }
        UnitKind::OffsetRings => {
            let offs = [134217728.0f64, 1073741825.0, 1000000000.0, 1099511627776.0, -1000000007.0];
            let holes: [&[(f64, f64)]; 3] = [&[(0.0, 0.0), (1.0, 0.0), (1.0, 1.0), (0.0, 1.0)], &[(0.0, 0.0), (0.0, 1.0), (1.0, 1.0), (1.0, 0.0)], &[(0.0, 0.0), (1.0, 0.0), (0.0, 1.0)]];
            for ox in offs {
                for oy in offs {
                    for hx in 1..4 {
                        for hy in 1..4 {
                            for hole in holes {
                                let outer: Vec<P4> = [(0.0, 0.0), (0.0, 6.0), (6.0, 6.0), (6.0, 0.0), (0.0, 0.0)].iter().map(|(x, y)| [x + ox, y + oy, 1.0, 2.0]).collect();
                                let inner: Vec<P4> = hole.iter().map(|(x, y)| [x + hx as f64 + ox, y + hy as f64 + oy, 1.0, 2.0]).collect();
                                let shape = MShape { ty, parts: vec![MPart { kind: 0, pts: outer }, MPart { kind: 1, pts: inner }] };
                                go(Case { ty, shapes: vec![shape], ndev: 0, fin_mask: 0, disk: false }, ctx);
                            }
                        }
                    }
                }
            }
        }
        UnitKind::BigCross => {
            let pts = |start: usize, n: usize| -> Vec<P4> { (0..n).map(|i| { let k = (start + i) as f64; [k * 0.5, 3.0 - k * 0.25, 100.0 + k, 1000.0 + k * 0.125] }).collect() };
            let fam = ty.family();
            let multi = |lens: &[usize]| -> MShape {
                if fam == Family::Multipoint {
                    return MShape { ty, parts: vec![MPart { kind: 0, pts: pts(0, lens.iter().sum()) }] };
                }
                let mut k = 0;
                let parts = lens.iter().enumerate().map(|(i, l)| {
                    let kind = if fam == Family::Multipatch { [2u8, 0, 3][i % 3] } else if fam == Family::Polygon { (i % 2) as u8 } else { 0 };
                    let p = MPart { kind, pts: pts(k, *l) };
                    k += l;
                    p
                }).collect();
                MShape { ty, parts }
            };
            // (i) one special value inside a long part
            let dims = ty.dims();
            for n in [300usize, 513, 1030, 2100, 4200, 9000, 16385, 20000] {
                let base = multi(&[3, n, 2]);
                let pi = if fam == Family::Multipoint { 0 } else { 1 };
                let off = if fam == Family::Multipoint { 3 } else { 0 };
                for pos in [0usize, n / 2, n - 1] {
                    for (d, vals) in [(3usize, vec![f64::NAN, f64::NEG_INFINITY, -2e39, NO_DATA, f64::INFINITY]), (2usize, vec![f64::NAN, f64::INFINITY])] {
                        if !dims[d] {
                            continue;
                        }
                        for v in vals {
                            let mut s = base.clone();
                            s.parts[pi].pts[off + pos][d] = v;
                            go(Case { ty, shapes: vec![s], ndev: 1, fin_mask: 0, disk: false }, ctx);
                        }
                    }
                }
            }
            // (i b) a long part inside a shape whose whole Z (M) dimension holds one value, except for one vertex
            //       that holds a value the range does not see (the zero of the other sign, NaN, another no-data)
            for n in [300usize, 513, 1030, 2100, 4200] {
                let pi = if fam == Family::Multipoint { 0 } else { 1 };
                let off = if fam == Family::Multipoint { 3 } else { 0 };
                for (d, common, odd) in [(2usize, 0.0f64, vec![-0.0f64, f64::NAN]), (2, 7.5, vec![f64::NAN]), (3usize, NO_DATA, vec![-f64::MAX, f64::NAN, -2e39, f64::NEG_INFINITY]), (3, 0.0, vec![-0.0, f64::NAN])] {
                    if !dims[d] {
                        continue;
                    }
                    let mut base = multi(&[3, n, 2]);
                    for part in base.parts.iter_mut() {
                        for p in part.pts.iter_mut() {
                            p[d] = common;
                        }
                    }
                    for pos in [1usize, n / 2, n - 1] {
                        for v in &odd {
                            let mut s = base.clone();
                            s.parts[pi].pts[off + pos][d] = *v;
                            go(Case { ty, shapes: vec![s], ndev: 1, fin_mask: 0, disk: false }, ctx);
                        }
                    }
                }
            }
            // (ii) two long parts, every ordered pair of lengths
            if fam != Family::Multipoint {
                let ls = [260usize, 300, 1030, 16384, 16390, 20000];
                for a in ls {
                    for b in ls {
                        go(Case { ty, shapes: vec![multi(&[a, b, 4])], ndev: 0, fin_mask: 0, disk: false }, ctx);
                        go(Case { ty, shapes: vec![multi(&[3, a, b])], ndev: 0, fin_mask: 0, disk: false }, ctx);
                    }
                }
            }
            // (ii b) three long parts with more than 2^16 points in total; an empty part inside such a record;
            //        very many parts
            if fam != Family::Multipoint {
                for lens in [vec![30000usize, 30000, 6000], vec![20000, 25000, 21000], vec![6000, 30000, 30000, 5]] {
                    go(Case { ty, shapes: vec![multi(&lens)], ndev: 0, fin_mask: 0, disk: false }, ctx);
                }
                if fam != Family::Polyline {
                    for lens in [vec![30000usize, 0, 36000], vec![40000, 30000, 0, 4]] {
                        go(Case { ty, shapes: vec![multi(&lens)], ndev: 0, fin_mask: 0, disk: false }, ctx);
                    }
                }
                for np in [16383usize, 16384, 16385, 20000, 32767, 32768, 32769, 40000, 65536, 65537] {
                    go(Case { ty, shapes: vec![multi(&vec![2; np])], ndev: 0, fin_mask: 0, disk: false }, ctx);
                }
            }
            // (iii) thin rings whose area is smaller than any single edge term
            if fam == Family::Polygon {
                for n in [1000usize, 8200, 16382, 16383, 16384, 16385, 16386, 16387, 16388, 20000, 32770] {
                    let h = 4.0 * n as f64;
                    let mut ring: Vec<P4> = (0..n - 2).map(|i| [i as f64, h, 1.0, 2.0]).collect();
                    ring.push([(n - 3) as f64, h + 2.0, 1.0, 2.0]);
                    ring.push([0.0, h + 2.0, 1.0, 2.0]);
                    for rev in [false, true] {
                        let mut r = ring.clone();
                        if rev {
                            r.reverse();
                        }
                        for role in 0..2u8 {
                            go(Case { ty, shapes: vec![MShape { ty, parts: vec![MPart { kind: role, pts: r.clone() }] }], ndev: 0, fin_mask: 0, disk: false }, ctx);
                        }
                    }
                }
            }
        }
        UnitKind::MPatterns => {
            let red = lookup(&t.reduced, ty);
            for base in red.iter() {
                if base.n_points() < 2 {
                    continue;
                }
                for pattern in 0..2u8 {
                    let mut s = base.clone();
                    let n = s.n_points();
                    let mut k = 0;
                    for p in s.parts.iter_mut() {
                        for q in p.pts.iter_mut() {
                            let real = if pattern == 0 { k == 0 } else { k == n - 1 };
                            if !real {
                                q[3] = NO_DATA;
                            }
                            k += 1;
                        }
                    }
                    with_devs(std::slice::from_ref(&s), 1, ctx, &mut go);
                }
            }
        }
        UnitKind::Disk => {
            let red = lookup(&t.reduced, ty);
            let mut seqs: Vec<Vec<usize>> = (0..red.len()).map(|i| vec![i]).collect();
            seqs.extend(t.tuples.iter().filter(|tp| tp.len() <= 3 && tp.iter().all(|i| *i < red.len().min(3))).cloned());
            for tup in seqs {
                go(
                    Case {
                        ty,
                        shapes: tup.iter().map(|i| red[*i].clone()).collect(),
                        ndev: 0,
                        fin_mask: 0,
                        disk: true,
                    },
                    ctx,
                );
            }
        }
    }
}

/// Oracle self-test: tamper with what the oracle sees; it must object.
fn selftest(which: Which) -> (u64, u64) {
    let ty = Ty::PolylineZ;
    let red = reduced_set(ty);
    let case = Case {
        ty,
        shapes: vec![red[0].clone(), red[1].clone()],
        ndev: 0,
        fin_mask: 0,
        disk: false,
    };
    let mut injected = 0;
    let mut detected = 0;
    let fresh = || observe(&case).expect("selftest case panicked");
    match which {
        Which::C01 => {
            // the untampered observation must be clean for the test to mean anything
            if !judge_c01(&case, &fresh()).is_empty() {
                return (1, 0);
            }
            // 1. swap two returned shapes on one route
            let mut o = fresh();
            if let Ok(v) = &mut o.routes[0].1 {
                v.swap(0, 1);
            }
            injected += 1;
            detected += (!judge_c01(&case, &o).is_empty()) as u64;
            // 2. flip the lowest bit of one Z
            let mut o = fresh();
            if let Ok(v) = &mut o.routes[1].1 {
                let z = &mut v[1].shape.parts[0].pts[0][2];
                *z = f64::from_bits(z.to_bits() ^ 1);
            }
            injected += 1;
            detected += (!judge_c01(&case, &o).is_empty()) as u64;
            // 3. drop the last shape of the random-access route
            let mut o = fresh();
            let last = o.routes.len() - 1;
            if let Ok(v) = &mut o.routes[last].1 {
                v.pop();
            }
            injected += 1;
            detected += (!judge_c01(&case, &o).is_empty()) as u64;
            // 4. a measure below the threshold reported unnormalised
            let mut o = fresh();
            o.written[0].shape.parts[0].pts[0][3] = -1e39;
            if let Ok(v) = &mut o.routes[0].1 {
                v[0].shape.parts[0].pts[0][3] = -1e39;
            }
            injected += 1;
            detected += (!judge_c01(&case, &o).is_empty()) as u64;
            // 5. box field off by one ulp
            let mut o = fresh();
            if let Ok(v) = &mut o.routes[0].1 {
                if let Some(b) = &mut v[0].bbox {
                    b[5] = f64::from_bits(b[5].to_bits() + 1);
                }
            }
            injected += 1;
            detected += (!judge_c01(&case, &o).is_empty()) as u64;
        }
        Which::C02 => {
            if !judge_c02(&case, &fresh()).is_empty() {
                return (1, 0);
            }
            // flip one byte in: file length, record number, content length,
            // type code, a part offset, a coordinate; append a byte
            let base = fresh();
            let first = 100usize;
            for (off, xor) in [
                (27usize, 1u8),
                (first + 3, 1),
                (first + 7, 1),
                (first + 8, 2),
                (first + 12 + 32 + 8 + 1, 1),
                (first + 12 + 32 + 8 + 4 + 3, 1),
                (base.shp.len() - 1, 0x80),
            ] {
                let mut o = fresh();
                o.shp[off] ^= xor;
                injected += 1;
                detected += (!judge_c02(&case, &o).is_empty()) as u64;
            }
            let mut o = fresh();
            o.shp.push(0);
            injected += 1;
            detected += (!judge_c02(&case, &o).is_empty()) as u64;
        }
    }
    (injected, detected)
}

/// C02 over faulted runs: once the destination works again, what drop leaves behind (up to the length the
/// header declares) is a well-formed file holding exactly the shapes whose write returned Ok.
pub fn judge_c02_frun(pal: &crate::wexec::Palette, case: &crate::frun::FCase, run: &crate::frun::FRun) -> Vec<(String, String)> {
    use crate::wexec::CallRes;
    let mut out = vec![];
    let n = case.ops.len();
    for (i, r) in run.results.iter().enumerate() {
        if let CallRes::Panic(p) = r {
            out.push((format!("fault-run:{}:panic", case.ty.name()), format!("call {} panicked: {}", i, p)));
        }
    }
    if !run.drop_undisturbed(n) {
        return out;
    }
    let shapes: Vec<MRead> = run.accepted.iter().map(|k| pal.built[*k as usize].clone()).collect();
    if let Some(c) = crate::oracle::shp_holds_exactly_opt(crate::frun::declared(&run.shp), case.ty, &shapes, true) {
        out.push((
            format!("fault-run:{}:{}", case.ty.name(), clause_class(&c)),
            format!("faults {:?} fired in calls {:?}; results {:?}; the writer was dropped with the destination working, the .shp ({} bytes, judged up to its declared length) should hold the {} accepted shapes: {}", case.faults, run.fired, run.results, run.shp.len(), shapes.len(), c),
        ));
    }
    out
}

pub fn check(which: Which, tier: Tier) -> i32 {
    let started = Instant::now();
    if !scratch_usable() {
        return 2;
    }
    let t = tables(tier);
    let us = units(which, tier, &t);
    let deadline = Some(started + std::time::Duration::from_secs(tier.pick(50, 1500)));
    let (agg, capped) = par_blocks(us.len(), deadline, |b, ctx, tick| {
        enumerate_unit(which, &t, &us[b], ctx, tick);
    });
    cleanup_scratch();
    let mut agg = agg;
    let mut capped = capped;
    if which == Which::C02 {
        // the same statement when the destination failed once or twice and works again
        use crate::wexec::WOp;
        let hists = crate::frun::histories(&[WOp::W(0), WOp::W(1), WOp::F], tier.pick(3, 4));
        let (a, c) = crate::frun::sweep(&ALL13, |_| None, &[true, false], &hists, true, deadline, |pal, case, run, ctx| {
            let mut oh = Fnv::new();
            oh.bytes(&run.shp);
            ctx.case_done(case.hash(), true, oh.finish());
            for (sig, d) in judge_c02_frun(pal, case, run) {
                ctx.violation(sig, || case.to_json(), || d);
            }
        });
        agg.absorb(a);
        capped |= c;
    }
    // the self-test runs the library too: on a tree that panics there it counts as failed (a verdict, if there is one,
    // takes precedence over it)
    let st = catch(|| selftest(which)).unwrap_or((1, 0));
    let prop = match which {
        Which::C01 => "C01",
        Which::C02 => "C02",
    };
    let nstructs: usize = t.structs.iter().map(|(_, v)| v.len()).sum();
    finish(
        RunInfo {
            prop,
            tier,
            level: "model_checking",
            engine: "E2 structure x deviation enumerator on the real ShapeWriter/ShapeReader",
            rule: "every structure of the builder grammar (per type: vertex counts, part-length vectors, ring templates x declared roles, patch kinds x lengths) x every file sequence (n=1 for all, n=2,3 ordered tuples over the reduced different-size set) x every deviation set of size <= d from the per-dimension float alphabets; plus, for one type per family, EVERY part length from 2 up to the size bound and (Point, PolylineZ) EVERY record count up to the count bound (d = 0), a size ladder of many-part shapes, and every finalize placement around 1-5 writes; polygons with a unit hole at every position of a 3x3 grid, given in both orientations, translated by offsets {2^27, 2^30+1, 10^9, 2^40, -(10^9+7)}^2; measured multi-vertex shapes with measures [real, no-data, ..] and [no-data, .., real] under every single deviation; sizes crossed with values and structure (a special measure / Z at the start, middle, end of a part of 300..20000 points; every ordered pair of two long parts over {260, 300, 1030, 16384, 16390, 20000}; three long parts of more than 2^16 points in total, an empty part inside such a record, shapes of 16383..20000, 32767..40000 and 65536 / 65537 parts; a long part inside a shape whose whole Z or M dimension holds one value except for one vertex holding the other zero, NaN or another no-data value; thin rings of about 2^14 vertices whose area is smaller than any edge term); (C02) every history over {write a, write b, finalize} up to the fault-history bound x {with, without .shx} x 13 types with every single one-shot fault and every unordered pair of faults (operation k of .shp / .shx fails once): whenever no fault fired in drop, the .shp up to its declared length is well-formed and holds exactly the shapes whose write returned Ok; distinct = hash of all coordinate bit patterns and structure; non-trivial = >=2 records or >=2 parts or >=1 deviation",
            bounds: json!({
                "types": 13,
                "structures_total": nstructs,
                "sequence_tuples": t.tuples.len(),
                "deviation_bound": tier.pick(1, 2),
                "float_alphabet_sizes": {"xy": f_xy().len(), "z": f_z().len(), "m": f_m().len()},
                "d2_scope": "single-shape files over the reduced structure set (thorough only)",
                "every_part_length_up_to": tier.pick(4200, 9000),
                "every_record_count_up_to": tier.pick(1600, 3100),
                "record_counts_beyond": tier.pick("65535..=65537, 300001", "65535..=65537, 131071..=131073, 262143..=262145, 300001, 1048577"),
                "fault_history_bound": tier.pick(3, 4),
                "routes": ["mem generic/concrete x iter shx/noshx", "mem generic/concrete read_nth", "disk from_path read_shapes/read_shapes_as/read_nth (d=0 sequences, C01)"],
            }),
            exhaustive: true,
            assumptions: vec![
                "floats outside the alphabet classes, >2 simultaneous special values, structures beyond the stated part/vertex bounds are not covered".into(),
                "ring role is compared only on lattice rings whose exact i128 shoelace sum is non-zero".into(),
            ],
            started,
            states: 0,
            transitions: 0,
            selftest: st,
            extra: Default::default(),
        },
        agg,
        capped,
    )
}

pub fn replay(which: Which, case: &Value) -> Vec<(String, String)> {
    if let Some(fc) = crate::frun::FCase::from_json(case) {
        let pal = fc.palette();
        return match catch(|| crate::frun::run(&pal, &fc)) {
            Ok(r) => judge_c02_frun(&pal, &fc, &r),
            Err(p) => vec![(format!("fault-run:{}:{}", fc.ty.name(), p.sig()), p.msg)],
        };
    }
    let case = match Case::from_json(case) {
        Some(c) => c,
        None => return vec![("bad-replay-file".into(), "cannot parse case".into())],
    };
    match observe(&case) {
        Err(p) => vec![(format!("{}:{}", case.ty.name(), p.sig()), format!("panic at {}:{}: {}", p.file, p.line, p.msg))],
        Ok(obs) => match which {
            Which::C01 => judge_c01(&case, &obs),
            Which::C02 => judge_c02(&case, &obs),
        },
    }
}
