//! C12: destination I/O failures surface from the failing call; finalize is
//! retryable; short writes change nothing.  fault_enumeration.

use crate::bridge::*;
use crate::dev::{Chunking, FaultMode, Op, INJECTED};
use crate::engine::*;
use crate::model::*;
use crate::wexec::*;
use serde_json::{json, Value};
use shapefile::ShapeWriter;
use std::time::Instant;

#[derive(Clone, Debug)]
pub enum Plan {
    /// fail operation k of the device (0 = .shp, 1 = .shx); `chunk` > 0: the
    /// devices also accept at most that many bytes per write call (k then
    /// counts operations of the chunked run)
    /// `kind`: 0 ErrorKind::Other, 1 Interrupted, 2 WouldBlock, 3 TimedOut; `burst` n >= 1: operations k..k+n fail
    /// (an operation that is tried again at once fails n times in a row); `prefill`: the destinations already hold
    /// longer stale content
    Fault { dev: u8, k: u64, persistent: bool, chunk: u64, kind: u8, burst: u8, prefill: bool, seek_moves: bool },
    /// two one-shot faults anywhere in the history as given (no call is inserted): operation k1 of dev1 and
    /// operation k2 of dev2, both counted on the run itself
    Pair { dev1: u8, k1: u64, dev2: u8, k2: u64 },
    /// a finalize fails at operation k1 of dev1, is called again and fails at
    /// operation k2 of dev2, and is called a third time
    Fault2 { dev1: u8, k1: u64, dev2: u8, k2: u64 },
    /// chunking schedule on both devices
    Chunk { kind: u8, arg: u64 },
}

#[derive(Clone, Debug)]
pub struct Case {
    pub ty: Ty,
    pub with_shx: bool,
    pub ops: Vec<WOp>,
    pub plan: Plan,
}

impl Case {
    pub fn to_json(&self) -> Value {
        let plan = match &self.plan {
            Plan::Fault { dev, k, persistent, chunk, kind, burst, prefill, seek_moves } => json!({"fault_on": (["shp", "shx"][*dev as usize]), "operation": k, "persistent": persistent, "chunk": chunk, "kind": kind_name(*kind), "burst": burst, "prefill": prefill, "seek_moves": seek_moves}),
            Plan::Pair { dev1, k1, dev2, k2 } => json!({"pair": [(["shp", "shx"][*dev1 as usize]), k1, (["shp", "shx"][*dev2 as usize]), k2]}),
            Plan::Fault2 { dev1, k1, dev2, k2 } => json!({"fault2": [(["shp", "shx"][*dev1 as usize]), k1, (["shp", "shx"][*dev2 as usize]), k2]}),
            Plan::Chunk { kind, arg } => json!({"chunking": (["uniform", "one-op-1-byte", "one-op-all-but-last"][*kind as usize]), "arg": arg}),
        };
        json!({"ty": self.ty.name(), "with_shx": self.with_shx, "ops": ops_name(&self.ops), "plan": plan})
    }
    pub fn from_json(v: &Value) -> Option<Case> {
        let p = v.get("plan")?;
        let plan = if let Some(d) = p.get("fault_on") {
            let kn = p.get("kind").and_then(|x| x.as_str()).unwrap_or("Other");
            Plan::Fault {
                dev: if d.as_str()? == "shp" { 0 } else { 1 },
                k: p.get("operation")?.as_u64()?,
                persistent: p.get("persistent")?.as_bool()?,
                chunk: p.get("chunk").and_then(|x| x.as_u64()).unwrap_or(0),
                kind: (0..n_kinds()).find(|i| kind_name(*i) == kn)?,
                seek_moves: p.get("seek_moves").and_then(|x| x.as_bool()).unwrap_or(false),
                burst: p.get("burst").and_then(|x| x.as_u64()).unwrap_or(1) as u8,
                prefill: p.get("prefill").and_then(|x| x.as_bool()).unwrap_or(false),
            }
        } else if let Some(a) = p.get("pair").and_then(|x| x.as_array()) {
            let d = |v: &Value| if v.as_str() == Some("shp") { 0u8 } else { 1u8 };
            Plan::Pair { dev1: d(a.first()?), k1: a.get(1)?.as_u64()?, dev2: d(a.get(2)?), k2: a.get(3)?.as_u64()? }
        } else if let Some(a) = p.get("fault2").and_then(|x| x.as_array()) {
            let d = |v: &Value| if v.as_str() == Some("shp") { 0u8 } else { 1u8 };
            Plan::Fault2 { dev1: d(a.first()?), k1: a.get(1)?.as_u64()?, dev2: d(a.get(2)?), k2: a.get(3)?.as_u64()? }
        } else {
            let kind = match p.get("chunking")?.as_str()? {
                "uniform" => 0,
                "one-op-1-byte" => 1,
                _ => 2,
            };
            Plan::Chunk { kind, arg: p.get("arg")?.as_u64()? }
        };
        Some(Case { ty: Ty::from_name(v.get("ty")?.as_str()?)?, with_shx: v.get("with_shx")?.as_bool()?, ops: ops_from_name(v.get("ops")?.as_str()?)?, plan })
    }
}

pub const KINDS: [(&str, std::io::ErrorKind); 5] = [
    ("Other", std::io::ErrorKind::Other),
    ("Interrupted", std::io::ErrorKind::Interrupted),
    ("WouldBlock", std::io::ErrorKind::WouldBlock),
    ("TimedOut", std::io::ErrorKind::TimedOut),
    // a write accepts 0 bytes (Ok(0)); on other operations an ordinary error
    ("ZeroWrite", std::io::ErrorKind::WriteZero),
];

/// kinds 0..5 are the named ones above; the others are the remaining variants of dev::ALL_KINDS
fn extra_kinds() -> Vec<std::io::ErrorKind> {
    crate::dev::ALL_KINDS.iter().copied().filter(|k| !KINDS.iter().any(|(_, x)| x == k)).collect()
}
pub fn n_kinds() -> u8 {
    (KINDS.len() + extra_kinds().len()) as u8
}
pub fn kind_of(i: u8) -> std::io::ErrorKind {
    if (i as usize) < KINDS.len() {
        KINDS[i as usize].1
    } else {
        extra_kinds()[i as usize - KINDS.len()]
    }
}
pub fn kind_name(i: u8) -> String {
    if (i as usize) < KINDS.len() {
        KINDS[i as usize].0.to_string()
    } else {
        format!("{:?}", kind_of(i))
    }
}

fn mk_env(with_shx: bool, prefill: bool) -> WEnv {
    let env = WEnv::new(with_shx);
    if prefill {
        env.shp.0.borrow_mut().data = vec![0xEE; 5000];
        if let Some(x) = &env.shx {
            x.0.borrow_mut().data = vec![0xEE; 3000];
        }
    }
    env
}

/// calls during which an injected fault fired, and whether the call had already written bytes to either device
fn fired_calls(env: &WEnv) -> Vec<(u32, bool)> {
    let shp = env.shp.log();
    let shx = env.shx.as_ref().map(|x| x.log()).unwrap_or_default();
    let mut v: Vec<(u32, bool)> = vec![];
    for log in [&shp, &shx] {
        for o in log.iter() {
            if let Op::Failed { call, .. } = o {
                if !v.iter().any(|(c, _)| c == call) {
                    let wrote = shp.iter().chain(shx.iter()).any(|w| matches!(w, Op::Write { call: c, .. } if c == call));
                    v.push((*call, wrote));
                }
            }
        }
    }
    v.sort();
    v
}

pub struct Baseline {
    pub results: Vec<CallRes>,
    pub shp_log: Vec<Op>,
    pub shx_log: Vec<Op>,
    pub shp: Vec<u8>,
    pub shx: Vec<u8>,
    pub write_calls: (u64, u64),
}

pub fn baseline(pal: &Palette, with_shx: bool, ops: &[WOp]) -> Baseline {
    baseline_chunked(pal, with_shx, ops, 0)
}

pub fn baseline_chunked(pal: &Palette, with_shx: bool, ops: &[WOp], chunk: u64) -> Baseline {
    baseline_full(pal, with_shx, ops, chunk, false)
}

pub fn baseline_full(pal: &Palette, with_shx: bool, ops: &[WOp], chunk: u64, prefill: bool) -> Baseline {
    let env = mk_env(with_shx, prefill);
    if chunk > 0 {
        env.shp.set_chunking(Chunking::Uniform(chunk as usize));
        if let Some(x) = &env.shx {
            x.set_chunking(Chunking::Uniform(chunk as usize));
        }
    }
    let results = exec_writer(pal, ops, Ending::Drop, &env, |_, _, _| {});
    let shx_log = env.shx.as_ref().map(|x| x.log()).unwrap_or_default();
    let wc = |l: &[Op]| l.iter().filter(|o| matches!(o, Op::Write { .. })).count() as u64;
    Baseline {
        results,
        write_calls: (wc(&env.shp.log()), wc(&shx_log)),
        shp_log: env.shp.log(),
        shx_log,
        shp: env.shp.data(),
        shx: env.shx.as_ref().map(|x| x.data()).unwrap_or_default(),
    }
}

pub struct Obs {
    pub results: Vec<CallRes>,
    /// call id during which the injected operation was issued in the fault-free run
    pub failing_call: Option<usize>,
    pub faults_fired: u32,
    /// for a one-shot fault inside an F: result of the retried F and final bytes of the retried history
    /// (result of the last retried finalize, all results, final .shp, final .shx, number of failed finalizes before it)
    pub retry: Option<(CallRes, Vec<CallRes>, Vec<u8>, Vec<u8>, usize)>,
    pub final_shp: Vec<u8>,
    pub final_shx: Vec<u8>,
    /// calls during which a fault fired (call id, had the call already written bytes)
    pub fired: Vec<(u32, bool)>,
    /// bytes written but not flushed, on both devices, after each call of the history
    pub unflushed_after: Vec<(u64, u64)>,
    pub unflushed_end: (u64, u64),
    /// two faults: the files of the undisturbed run of the history without the writes that failed before
    /// emitting a byte (None: a failed write had already emitted bytes, or a fault landed in drop)
    pub pair_expect: Option<(Vec<u8>, Vec<u8>)>,
}

fn chunk_env(env: &WEnv, chunk: u64) {
    if chunk > 0 {
        env.shp.set_chunking(Chunking::Uniform(chunk as usize));
        if let Some(x) = &env.shx {
            x.set_chunking(Chunking::Uniform(chunk as usize));
        }
    }
}

/// `base` must be the fault-free run under the same chunking as the plan.
pub fn observe(pal: &Palette, case: &Case, base: &Baseline) -> Obs {
    let prefill = matches!(&case.plan, Plan::Fault { prefill: true, .. });
    let env = mk_env(case.with_shx, prefill);
    let mut failing_call = None;
    let dev_of = |e: &WEnv, d: u8| if d == 0 { e.shp.clone() } else { e.shx.clone().expect("fault on a missing .shx") };
    match &case.plan {
        Plan::Fault { dev, k, persistent, chunk, kind, burst, seek_moves, .. } => {
            chunk_env(&env, *chunk);
            let d = dev_of(&env, *dev);
            d.set_fault_kind(kind_of(*kind));
            d.set_zero_write_on_fault(*kind == 4);
            d.set_seek_moves_on_fault(*seek_moves);
            if *persistent {
                d.fail_at(*k, FaultMode::Persistent);
            } else {
                d.fail_burst(*k, (*burst).max(1) as u64);
            }
            let log = if *dev == 0 { &base.shp_log } else { &base.shx_log };
            failing_call = log.get(*k as usize).map(|o| o.call() as usize);
        }
        Plan::Fault2 { dev1, k1, .. } => {
            let log = if *dev1 == 0 { &base.shp_log } else { &base.shx_log };
            failing_call = log.get(*k1 as usize).map(|o| o.call() as usize);
            dev_of(&env, *dev1).fail_at(*k1, FaultMode::OneShot);
        }
        Plan::Pair { dev1, k1, dev2, k2 } => {
            dev_of(&env, *dev1).fail_at(*k1, FaultMode::OneShot);
            dev_of(&env, *dev2).fail_at(*k2, FaultMode::OneShot);
        }
        Plan::Chunk { kind, arg } => {
            let c = match kind {
                0 => Chunking::Uniform(*arg as usize),
                1 => Chunking::One { op: *arg, max: 1 },
                _ => Chunking::OneAllButLast { op: *arg },
            };
            env.shp.set_chunking(c.clone());
            if let Some(x) = &env.shx {
                x.set_chunking(c);
            }
        }
    }
    let mut unflushed_after = vec![];
    let results = exec_writer(pal, &case.ops, Ending::Drop, &env, |_, _, _| {
        unflushed_after.push((env.shp.unflushed(), env.shx.as_ref().map(|x| x.unflushed()).unwrap_or(0)));
    });
    let fired = env.shp.faults_fired() + env.shx.as_ref().map(|x| x.faults_fired()).unwrap_or(0);
    let mut retry = None;
    let c_is_f = |c: usize| c < case.ops.len() && case.ops[c] == WOp::F;
    match (&case.plan, failing_call) {
        (Plan::Fault { dev, k, persistent: false, chunk, kind, burst, prefill, seek_moves }, Some(c)) if c_is_f(c) && *burst <= 1 => {
            // same history, the failed finalize called again right away
            let env2 = mk_env(case.with_shx, *prefill);
            chunk_env(&env2, *chunk);
            dev_of(&env2, *dev).set_fault_kind(kind_of(*kind));
            dev_of(&env2, *dev).set_zero_write_on_fault(*kind == 4);
            dev_of(&env2, *dev).set_seek_moves_on_fault(*seek_moves);
            dev_of(&env2, *dev).fail_burst(*k, (*burst).max(1) as u64);
            let mut ops2 = case.ops[..=c].to_vec();
            ops2.push(WOp::F);
            ops2.extend_from_slice(&case.ops[c + 1..]);
            let r2 = exec_writer(pal, &ops2, Ending::Drop, &env2, |_, _, _| {});
            retry = Some((r2[c + 1].clone(), r2.clone(), env2.shp.data(), env2.shx.as_ref().map(|x| x.data()).unwrap_or_default(), 1usize));
        }
        (Plan::Fault2 { dev1, k1, dev2, k2 }, Some(c)) if c_is_f(c) => {
            // finalize fails, is retried and fails again, is retried again
            let env2 = WEnv::new(case.with_shx);
            dev_of(&env2, *dev1).fail_at(*k1, FaultMode::OneShot);
            dev_of(&env2, *dev2).fail_at(*k2, FaultMode::OneShot);
            let mut ops2 = case.ops[..=c].to_vec();
            ops2.push(WOp::F);
            ops2.push(WOp::F);
            ops2.extend_from_slice(&case.ops[c + 1..]);
            let mut fired_in: Vec<u32> = vec![];
            let r2 = exec_writer(pal, &ops2, Ending::Drop, &env2, |_, _, _| {
                fired_in.push(env2.shp.faults_fired() + env2.shx.as_ref().map(|x| x.faults_fired()).unwrap_or(0));
            });
            // only meaningful if the second fault fired during the second finalize
            let second_in_retry = fired_in.get(c).copied() == Some(1) && fired_in.get(c + 1).copied() == Some(2);
            if second_in_retry {
                retry = Some((r2[c + 2].clone(), r2.clone(), env2.shp.data(), env2.shx.as_ref().map(|x| x.data()).unwrap_or_default(), 2usize));
            }
        }
        _ => {}
    }
    let fired_in = fired_calls(&env);
    let mut pair_expect = None;
    if let Plan::Pair { .. } = &case.plan {
        let n = case.ops.len();
        // (what a failed write had already emitted is overwritten by the next record or stays behind the declared end)
        let clean = fired_in.iter().all(|(c, _)| (*c as usize) < n);
        // when every write of the history failed, the type and box the empty file declares are not specified
        let some_write_ok = case.ops.iter().zip(&results).any(|(op, r)| matches!(op, WOp::W(_)) && *r == CallRes::Ok) || !case.ops.iter().any(|op| matches!(op, WOp::W(_)));
        if clean && fired == 2 && some_write_ok {
            let kept: Vec<WOp> = case.ops.iter().enumerate().filter(|(i, op)| !(matches!(op, WOp::W(_)) && fired_in.iter().any(|(c, _)| *c as usize == *i))).map(|(_, op)| *op).collect();
            let b = baseline(pal, case.with_shx, &kept);
            pair_expect = Some((b.shp, b.shx));
        }
    }
    Obs {
        pair_expect,
        results,
        failing_call,
        faults_fired: fired,
        retry,
        final_shp: env.shp.data(),
        final_shx: env.shx.as_ref().map(|x| x.data()).unwrap_or_default(),
        fired: fired_in,
        unflushed_after,
        unflushed_end: (env.shp.unflushed(), env.shx.as_ref().map(|x| x.unflushed()).unwrap_or(0)),
    }
}

pub fn judge(case: &Case, base: &Baseline, o: &Obs) -> Vec<(String, String)> {
    let mut out = vec![];
    let n = case.ops.len();
    // never a panic, drop included
    for (i, r) in o.results.iter().enumerate() {
        if let CallRes::Panic(p) = r {
            let what = if i < n { format!("{:?}", case.ops[i]) } else { "drop".into() };
            out.push((format!("panic-in-{}", if i < n { "call" } else { "drop" }), format!("call {} ({}) panicked: {}", i, what, p)));
        }
    }
    match &case.plan {
        Plan::Fault { .. } | Plan::Fault2 { .. } => {
            let base = base;
            let (dev, k) = match &case.plan {
                Plan::Fault { dev, k, .. } => (dev, k),
                Plan::Fault2 { dev1, k1, .. } => (dev1, k1),
                _ => unreachable!(),
            };
            let dn = ["shp", "shx"][*dev as usize];
            let c = match o.failing_call {
                Some(c) => c,
                None => return out,
            };
            if o.faults_fired == 0 {
                out.push(("harness:fault-did-not-fire".into(), format!("operation {} on .{} was never issued", k, dn)));
                return out;
            }
            // earlier calls: as in the fault-free run
            for i in 0..c.min(n) {
                if o.results[i] != base.results[i] {
                    out.push(("earlier-call-differs".into(), format!("call {} returned {:?}, fault-free run {:?}", i, o.results[i], base.results[i])));
                }
            }
            if c < n {
                let opn = match case.ops[c] {
                    WOp::F => "finalize",
                    _ => "write_shape",
                };
                let (kind, burst) = match &case.plan {
                    Plan::Fault { kind, burst, .. } => (*kind, *burst),
                    _ => (0, 1),
                };
                match &o.results[c] {
                    // "returned as an error by the very call": any error value qualifies
                    // (the library reports it as Error::IoError carrying the injected error)
                    CallRes::Err(_) => {}
                    // an interrupted operation may be tried again (std's write_all does so): then it is no failure,
                    // provided the run cannot be told from the undisturbed one: every call succeeds, the files are
                    // the same, and what a successful finalize wrote has been flushed
                    CallRes::Ok if kind == 1 => {
                        let all_ok = o.results.iter().all(|r| *r == CallRes::Ok);
                        let flushed = case.ops.iter().zip(&o.unflushed_after).all(|(op, u)| *op != WOp::F || *u == (0, 0)) && o.unflushed_end == (0, 0);
                        if !all_ok || !flushed || o.final_shp != base.shp || o.final_shx != base.shx {
                            out.push((
                                format!("interrupted-operation-neither-reported-nor-completed:{}:{}", opn, dn),
                                format!(
                                    "operation {} on .{} was answered ErrorKind::Interrupted {} time(s) during call {} ({}), which returned Ok; all calls ok: {}, everything a successful finalize wrote flushed: {} (unflushed at the end {:?}), files as undisturbed: {}",
                                    k, dn, burst, c, opn, all_ok, flushed, o.unflushed_end, o.final_shp == base.shp && o.final_shx == base.shx
                                ),
                            ));
                        }
                    }
                    other => out.push((
                        format!("failure-not-reported:{}:{}", opn, dn),
                        format!("operation {} on .{} failed ({}) during call {} ({}), which returned {:?}", k, dn, kind_name(kind), c, opn, other),
                    )),
                }
                // the failed finalize is not retried at once: the history goes on, and a later
                // finalize (at the latest the one drop performs) completes the files
                if let Plan::Fault { persistent: false, .. } = &case.plan {
                    if case.ops[c] == WOp::F {
                        // (a fault that fired during drop cannot be reported and leaves the files incomplete)
                        let later_ok = o.results.iter().enumerate().all(|(i, r)| i == c || *r == CallRes::Ok) && o.fired.iter().all(|(fc, _)| (*fc as usize) < n);
                        if later_ok && (o.final_shp != base.shp || o.final_shx != base.shx) {
                            out.push((
                                format!("files-differ-after-later-finalize:{}", dn),
                                format!(
                                    "finalize (call {}) failed once at operation {} on .{}; every later call succeeded, the writer was finalized again by a later call or by drop, yet the files differ from the undisturbed run (.shp {} vs {} bytes, .shx {} vs {} bytes)",
                                    c, k, dn, o.final_shp.len(), base.shp.len(), o.final_shx.len(), base.shx.len()
                                ),
                            ));
                        }
                    }
                }
                if let Some((fr, all, shp2, shx2, nfailed)) = &o.retry {
                    let failed_range = c..c + nfailed;
                    if *nfailed == 2 && !matches!(all.get(c + 1), Some(CallRes::Err(_))) {
                        out.push((format!("second-failure-not-reported:{}", dn), format!("the retried finalize was hit by a second fault but returned {:?}", all.get(c + 1))));
                    } else if *fr != CallRes::Ok {
                        out.push((format!("finalize-retry-failed:{}", dn), format!("finalize called again after a one-shot failure of operation {} on .{} returned {:?}", k, dn, fr)));
                    } else if all.iter().enumerate().any(|(i, r)| !failed_range.contains(&i) && *r != CallRes::Ok) {
                        out.push((format!("call-after-retry-failed:{}", dn), format!("{:?}", all)));
                    } else if *shp2 != base.shp || *shx2 != base.shx {
                        out.push((
                            format!("files-differ-after-retry:{}", dn),
                            format!("after retrying the failed finalize the files differ from the undisturbed run (.shp {} vs {} bytes, .shx {} vs {} bytes)", shp2.len(), base.shp.len(), shx2.len(), base.shx.len()),
                        ));
                    }
                }
            }
        }
        Plan::Pair { dev1, k1, dev2, k2 } => {
            let what = format!("operation {} on .{} and operation {} on .{} fail once", k1, ["shp", "shx"][*dev1 as usize], k2, ["shp", "shx"][*dev2 as usize]);
            for (c, _) in &o.fired {
                let c = *c as usize;
                if c < n && !matches!(o.results[c], CallRes::Err(_) | CallRes::Panic(_)) {
                    out.push((format!("two-faults:failure-not-reported:{}", if case.ops[c] == WOp::F { "finalize" } else { "write_shape" }), format!("{}; a fault fired during call {}, which returned {:?}", what, c, o.results[c])));
                }
            }
            for (i, r) in o.results.iter().enumerate().take(n) {
                if matches!(r, CallRes::Err(_)) && !o.fired.iter().any(|(c, _)| *c as usize == i) {
                    out.push(("two-faults:call-failed-without-a-fault".into(), format!("{}; call {} returned {:?} although no operation failed during it", what, i, r)));
                }
            }
            if let Some((shp, shx)) = &o.pair_expect {
                // a failed write may have left bytes behind the end: a Write + Seek destination cannot be truncated,
                // so the files are judged up to the length their headers declare
                let decl = |b: &[u8]| b.get(24..28).map(|x| i32::from_be_bytes(x.try_into().unwrap()) as i64 * 2).filter(|l| *l >= 100 && *l as usize <= b.len()).map(|l| l as usize).unwrap_or(b.len());
                let (fs, fx) = (&o.final_shp[..decl(&o.final_shp)], &o.final_shx[..decl(&o.final_shx)]);
                if out.is_empty() && (fs != &shp[..] || fx != &shx[..]) {
                    let failed: Vec<String> = o.fired.iter().map(|(c, _)| format!("call {} ({:?})", c, case.ops[*c as usize])).collect();
                    out.push((
                        "two-faults:files-differ-from-undisturbed-run".into(),
                        format!(
                            "{}; they fired in {:?}; every other call succeeded and drop finalized, yet the files (up to their declared length) differ from the undisturbed run of the history without the failed writes (.shp {} vs {} bytes, .shx {} vs {} bytes)",
                            what, failed, o.final_shp.len(), shp.len(), o.final_shx.len(), shx.len()
                        ),
                    ));
                }
            }
        }
        Plan::Chunk { .. } => {
            if o.results.iter().any(|r| *r != CallRes::Ok) {
                out.push(("short-write:call-failed".into(), format!("{:?}", o.results)));
            }
            if o.final_shp != base.shp {
                out.push(("short-write:shp-differs".into(), format!(".shp differs from the unrestricted run ({} vs {} bytes, first difference {:?})", o.final_shp.len(), base.shp.len(), o.final_shp.iter().zip(&base.shp).position(|(a, b)| a != b))));
            }
            if o.final_shx != base.shx {
                out.push(("short-write:shx-differs".into(), format!(".shx differs from the unrestricted run ({} vs {} bytes)", o.final_shx.len(), base.shx.len())));
            }
        }
    }
    out
}

pub fn histories(maxlen: usize) -> Vec<Vec<WOp>> {
    let mut all = vec![];
    let mut cur: Vec<Vec<WOp>> = vec![vec![]];
    for _ in 0..maxlen {
        let mut next = vec![];
        for c in &cur {
            for op in [WOp::W(0), WOp::W(1), WOp::F] {
                let mut x = c.clone();
                x.push(op);
                next.push(x);
            }
        }
        all.extend(next.iter().cloned());
        cur = next;
    }
    all
}

const UNIFORM: [u64; 11] = [1, 2, 3, 4, 5, 7, 8, 9, 15, 16, 17];

/// (kind, burst) beyond the plain one-shot ErrorKind::Other
const KIND_BURSTS: [(u8, u8); 8] = [(1, 1), (1, 2), (1, 3), (1, 4), (2, 1), (2, 2), (3, 1), (4, 1)];

fn run_workload(ty: Ty, with_shx: bool, ops: &[WOp], chunks: &[u64], extra_maxlen: usize, all_kinds: bool, ctx: &mut Ctx, tick: &dyn Fn()) {
    let pal = Palette::new(ty, None);
    let base = baseline(&pal, with_shx, ops);
    if base.results.iter().any(|r| *r != CallRes::Ok) {
        ctx.violation("fault-free-run-failed", || json!({"ty": ty.name(), "ops": ops_name(ops)}), || format!("{:?}", base.results));
        return;
    }
    let mut plans: Vec<Plan> = vec![];
    for (dev, log) in [(0u8, &base.shp_log), (1u8, &base.shx_log)] {
        if dev == 1 && !with_shx {
            continue;
        }
        for k in 0..log.len() as u64 {
            for persistent in [false, true] {
                plans.push(Plan::Fault { dev, k, persistent, chunk: 0, kind: 0, burst: 1, prefill: false, seek_moves: false });
            }
            if ops.len() <= extra_maxlen {
                // other error kinds, the same operation failing several times in a row, destinations holding stale content
                for (kind, burst) in KIND_BURSTS {
                    plans.push(Plan::Fault { dev, k, persistent: false, chunk: 0, kind, burst, prefill: false, seek_moves: false });
                }
                plans.push(Plan::Fault { dev, k, persistent: false, chunk: 0, kind: 0, burst: 1, prefill: true, seek_moves: false });
                // a seek that has moved the position when it reports its failure
                if matches!(log.get(k as usize), Some(Op::Seek { .. })) {
                    plans.push(Plan::Fault { dev, k, persistent: false, chunk: 0, kind: 0, burst: 1, prefill: false, seek_moves: true });
                }
                // every other error kind once
                if ops.len() <= 2 && all_kinds {
                    for kind in KINDS.len() as u8..n_kinds() {
                        plans.push(Plan::Fault { dev, k, persistent: false, chunk: 0, kind, burst: 1, prefill: false, seek_moves: false });
                    }
                }
            }
        }
    }
    // two one-shot faults anywhere (every unordered pair of operations, a few beyond the fault-free log: a failed
    // call changes what follows)
    if ops.len() <= extra_maxlen {
        let l0 = base.shp_log.len() as u64 + 6;
        let l1 = if with_shx { base.shx_log.len() as u64 + 6 } else { 0 };
        for k1 in 0..l0 {
            for k2 in k1 + 1..l0 {
                plans.push(Plan::Pair { dev1: 0, k1, dev2: 0, k2 });
            }
            for k2 in 0..l1 {
                plans.push(Plan::Pair { dev1: 0, k1, dev2: 1, k2 });
            }
        }
        for k1 in 0..l1 {
            for k2 in k1 + 1..l1 {
                plans.push(Plan::Pair { dev1: 1, k1, dev2: 1, k2 });
            }
        }
    }
    let base_prefill = baseline_full(&pal, with_shx, ops, 0, true);
    // a second fault during the retry of a failed finalize: every (k1 in a finalize, k2 in a window behind it) on every device pair
    let devs: Vec<u8> = if with_shx { vec![0, 1] } else { vec![0] };
    for &d1 in &devs {
        let log1 = if d1 == 0 { &base.shp_log } else { &base.shx_log };
        for (k1, op) in log1.iter().enumerate() {
            let c = op.call() as usize;
            if c < ops.len() && ops[c] == WOp::F {
                for &d2 in &devs {
                    let log2 = if d2 == 0 { &base.shp_log } else { &base.shx_log };
                    // operations of dev2 up to and including those of call c, plus one finalize's worth
                    let upto = log2.iter().filter(|o| (o.call() as usize) <= c).count() as u64;
                    let lo = upto.saturating_sub(8);
                    for k2 in lo..upto + 8 {
                        if d1 == d2 && k2 <= k1 as u64 {
                            continue;
                        }
                        plans.push(Plan::Fault2 { dev1: d1, k1: k1 as u64, dev2: d2, k2 });
                    }
                }
            }
        }
    }
    // faults under short writes
    let chunked: Vec<(u64, Baseline)> = chunks.iter().map(|c| (*c, baseline_chunked(&pal, with_shx, ops, *c))).collect();
    for (c, b) in &chunked {
        for (dev, log) in [(0u8, &b.shp_log), (1u8, &b.shx_log)] {
            if dev == 1 && !with_shx {
                continue;
            }
            for k in 0..log.len() as u64 {
                plans.push(Plan::Fault { dev, k, persistent: false, chunk: *c, kind: 0, burst: 1, prefill: false, seek_moves: false });
            }
        }
    }
    for c in UNIFORM {
        plans.push(Plan::Chunk { kind: 0, arg: c });
    }
    // one-deviation schedules over every write call of the longer device log
    let nw = base.write_calls.0.max(base.write_calls.1);
    for j in 0..nw {
        plans.push(Plan::Chunk { kind: 1, arg: j });
        plans.push(Plan::Chunk { kind: 2, arg: j });
    }
    ctx.bump("fault_points", plans.iter().filter(|p| matches!(p, Plan::Fault { .. })).count() as u64);
    ctx.bump("chunking_schedules", plans.iter().filter(|p| matches!(p, Plan::Chunk { .. })).count() as u64);
    for plan in plans {
        let case = Case { ty, with_shx, ops: ops.to_vec(), plan };
        let mut h = Fnv::new();
        h.str(&case.to_json().to_string());
        let b: &Baseline = match &case.plan {
            Plan::Fault { chunk, .. } if *chunk > 0 => &chunked.iter().find(|(c, _)| c == chunk).unwrap().1,
            Plan::Fault { prefill: true, .. } => &base_prefill,
            _ => &base,
        };
        match catch(|| observe(&pal, &case, b)) {
            Ok(o) => {
                // a double fault whose second fault did not land in the retry is not a case
                if matches!(case.plan, Plan::Fault2 { .. }) && o.retry.is_none() {
                    continue;
                }
                // a pair of which only one fault fired is a single-fault case, already covered
                if matches!(case.plan, Plan::Pair { .. }) && o.faults_fired < 2 {
                    continue;
                }
                ctx.lib_calls += ops.len() as u64 + 2;
                let mut oh = Fnv::new();
                for r in &o.results {
                    oh.str(&format!("{:?}", r));
                }
                oh.bytes(&o.final_shp);
                ctx.case_done(h.finish(), true, oh.finish());
                if ops.len() == 3 && matches!(case.plan, Plan::Fault { k: 5, .. }) {
                    ctx.sample(|| case.to_json());
                }
                for (sig, d) in judge(&case, b, &o) {
                    ctx.violation(format!("{}:{}", ty.name(), sig), || case.to_json(), || d);
                }
            }
            Err(p) => {
                ctx.case_done(h.finish(), true, 1);
                ctx.violation(format!("{}:harness-or-drop-panic:{}", ty.name(), p.sig()), || case.to_json(), || format!("{}:{} {}", p.file, p.line, p.msg));
            }
        }
        tick();
    }
}

fn selftest() -> (u64, u64) {
    let ty = Ty::PolylineZ;
    let pal = Palette::new(ty, None);
    let ops = vec![WOp::W(0), WOp::F, WOp::W(1)];
    let base = baseline(&pal, true, &ops);
    // the finalize's first .shp operation
    let k = base.shp_log.iter().position(|o| o.call() == 1).unwrap() as u64;
    let case = Case { ty, with_shx: true, ops: ops.clone(), plan: Plan::Fault { dev: 0, k, persistent: false, chunk: 0, kind: 0, burst: 1, prefill: false, seek_moves: false } };
    if !judge(&case, &base, &observe(&pal, &case, &base)).is_empty() {
        return (1, 0);
    }
    let mut inj = 0;
    let mut det = 0;
    let mut t = |f: &dyn Fn(&mut Obs)| {
        let mut o = observe(&pal, &case, &base);
        f(&mut o);
        inj += 1;
        det += (!judge(&case, &base, &o).is_empty()) as u64;
    };
    t(&|o| o.results[1] = CallRes::Ok);
    t(&|o| o.results[0] = CallRes::Err("x".into()));
    t(&|o| o.results[2] = CallRes::Panic("p".into()));
    t(&|o| {
        if let Some(r) = &mut o.retry {
            r.0 = CallRes::Err("IoError".into())
        }
    });
    t(&|o| {
        if let Some(r) = &mut o.retry {
            r.2[30] ^= 1
        }
    });
    let ccase = Case { ty, with_shx: true, ops, plan: Plan::Chunk { kind: 0, arg: 3 } };
    if !judge(&ccase, &base, &observe(&pal, &ccase, &base)).is_empty() {
        return (1, 0);
    }
    let mut o = observe(&pal, &ccase, &base);
    o.final_shx[101] ^= 1;
    inj += 1;
    det += (!judge(&ccase, &base, &o).is_empty()) as u64;
    (inj, det)
}

/// One long history (n writes of alternating shapes, then drop): every seek and flush of the fault-free run, and
/// the first and last 40 operations of each device, failing once.  The call during which the operation failed
/// must return an error.
pub fn long_verdicts(ty: Ty, n: usize, only: Option<(u8, u64)>) -> (Vec<(Value, String, String)>, u64) {
    let pal = Palette::new(ty, None);
    let run = |fault: Option<(u8, u64)>, logging: bool| -> (WEnv, Vec<bool>) {
        let env = WEnv::new(true);
        if !logging {
            env.shp.0.borrow_mut().logging = false;
            env.shx.as_ref().unwrap().0.borrow_mut().logging = false;
        }
        if let Some((d, k)) = fault {
            (if d == 0 { env.shp.clone() } else { env.shx.clone().unwrap() }).fail_at(k, FaultMode::OneShot);
        }
        let mut ok = Vec::with_capacity(n);
        {
            let mut w = ShapeWriter::with_shx(env.shp.clone(), env.shx.clone().unwrap());
            for i in 0..n {
                env.set_call(i as u32);
                ok.push(crate::bridge::write_shape(&mut w, &pal.lib[i % 2]).is_ok());
            }
            env.set_call(n as u32);
        }
        (env, ok)
    };
    let mut points: Vec<(u8, u64)> = vec![];
    match only {
        Some(p) => points.push(p),
        None => {
            let (base, _) = run(None, true);
            for (d, log) in [(0u8, base.shp.log()), (1u8, base.shx.as_ref().unwrap().log())] {
                let l = log.len();
                for (k, op) in log.iter().enumerate() {
                    if !matches!(op, Op::Write { .. }) || k < 40 || k + 40 >= l {
                        points.push((d, k as u64));
                    }
                }
            }
        }
    }
    let mut out = vec![];
    let npoints = points.len() as u64;
    for (d, k) in points {
        let cj = json!({"ty": ty.name(), "long_history": n, "fault_on": (["shp", "shx"][d as usize]), "operation": k});
        match catch(|| run(Some((d, k)), false)) {
            Ok((env, ok)) => {
                let calls: Vec<u32> = env.shp.fault_calls().into_iter().chain(env.shx.as_ref().unwrap().fault_calls()).collect();
                for c in calls {
                    if (c as usize) < n && ok[c as usize] {
                        out.push((cj.clone(), format!("{}:long-history:failure-not-reported", ty.name()), format!("operation {} on .{} failed once during write_shape number {} of {}, which returned Ok", k, ["shp", "shx"][d as usize], c, n)));
                    }
                }
            }
            Err(p) => out.push((cj, format!("{}:long-history:{}", ty.name(), p.sig()), p.msg)),
        }
    }
    (out, npoints)
}

/// One record with a part of n points, then a small record, then drop: every operation of the .shp (and of the
/// .shx) failing once.  The call during which the operation failed must return an error.
pub fn long_record_verdicts(ty: Ty, n: usize, only: Option<(u8, u64)>) -> (Vec<(Value, String, String)>, u64) {
    let pal = Palette::new(ty, None);
    let long = crate::bridge::to_lib(&crate::structs::sized(ty, n));
    let run = |fault: Option<(u8, u64)>, logging: bool| -> (WEnv, Vec<bool>) {
        let env = WEnv::new(true);
        if !logging {
            env.shp.0.borrow_mut().logging = false;
            env.shx.as_ref().unwrap().0.borrow_mut().logging = false;
        }
        if let Some((d, k)) = fault {
            (if d == 0 { env.shp.clone() } else { env.shx.clone().unwrap() }).fail_at(k, FaultMode::OneShot);
        }
        let mut ok = vec![];
        {
            let mut w = ShapeWriter::with_shx(env.shp.clone(), env.shx.clone().unwrap());
            for (i, s) in [&pal.lib[0], &long, &pal.lib[1]].into_iter().enumerate() {
                env.set_call(i as u32);
                ok.push(crate::bridge::write_shape(&mut w, s).is_ok());
            }
            env.set_call(3);
        }
        (env, ok)
    };
    let points: Vec<(u8, u64)> = match only {
        Some(p) => vec![p],
        None => {
            let (base, _) = run(None, true);
            (0..base.shp.log_len() as u64).map(|k| (0u8, k)).chain((0..base.shx.as_ref().unwrap().log_len() as u64).map(|k| (1u8, k))).collect()
        }
    };
    let npoints = points.len() as u64;
    let mut out = vec![];
    for (d, k) in points {
        let cj = json!({"ty": ty.name(), "long_record": n, "fault_on": (["shp", "shx"][d as usize]), "operation": k});
        match catch(|| run(Some((d, k)), false)) {
            Ok((env, ok)) => {
                let calls: Vec<u32> = env.shp.fault_calls().into_iter().chain(env.shx.as_ref().unwrap().fault_calls()).collect();
                for c in calls {
                    if (c as usize) < 3 && ok[c as usize] {
                        out.push((cj.clone(), format!("{}:long-record:failure-not-reported", ty.name()), format!("operation {} on .{} failed once during write_shape number {} (0: small, 1: a part of {} points, 2: small), which returned Ok", k, ["shp", "shx"][d as usize], c, n)));
                    }
                }
            }
            Err(p) => out.push((cj, format!("{}:long-record:{}", ty.name(), p.sig()), p.msg)),
        }
    }
    (out, npoints)
}

/// A destination that stops working for good (from operation k of the .shp on) while the caller goes on calling
/// write_shape `calls` times: every one of these calls returns an error, none panics.
pub fn repeated_failure_verdicts(ty: Ty, k: u64, calls: usize) -> Vec<(String, String)> {
    let pal = Palette::new(ty, None);
    let r = catch(|| {
        let env = WEnv::new(true);
        env.shp.0.borrow_mut().logging = false;
        env.shx.as_ref().unwrap().0.borrow_mut().logging = false;
        env.shp.fail_at(k, FaultMode::Persistent);
        let mut bad = vec![];
        let mut w = ShapeWriter::with_shx(env.shp.clone(), env.shx.clone().unwrap());
        for i in 0..calls {
            let before = env.shp.faults_fired();
            let r = catch(|| crate::bridge::write_shape(&mut w, &pal.lib[i % 2]).map_err(|e| crate::bridge::err_kind(&e)));
            let fired = env.shp.faults_fired() > before;
            match r {
                Err(p) => {
                    bad.push((format!("{}:repeated-failures:{}", ty.name(), p.sig()), format!("write_shape number {} on a destination that has stopped working: {}", i, p.msg)));
                    break;
                }
                Ok(Ok(())) if fired => bad.push((format!("{}:repeated-failures:failure-not-reported", ty.name()), format!("write_shape number {} returned Ok although an operation of it failed", i))),
                _ => {}
            }
            if bad.len() > 3 {
                break;
            }
        }
        std::mem::forget(w);
        bad
    });
    match r {
        Ok(v) => v,
        Err(p) => vec![(format!("{}:repeated-failures:{}", ty.name(), p.sig()), p.msg)],
    }
}

/// A destination that keeps the first 128 bytes (the header and the first record header), its extent and where every write landed, and discards the rest:
/// files beyond 2 GiB without the memory.
#[derive(Clone)]
pub struct Sink(pub std::rc::Rc<std::cell::RefCell<SinkInner>>);
pub struct SinkInner {
    pub head: Vec<u8>,
    pub pos: u64,
    pub extent: u64,
    pub nops: u64,
    pub fail_at: Option<u64>,
    pub fired: bool,
    /// (position, length) of every write of at most 64 bytes behind the header
    pub small_writes: Vec<(u64, u32)>,
}
impl Sink {
    pub fn new(fail_at: Option<u64>) -> Sink {
        Sink(std::rc::Rc::new(std::cell::RefCell::new(SinkInner { head: vec![0; 128], pos: 0, extent: 0, nops: 0, fail_at, fired: false, small_writes: vec![] })))
    }
}
impl SinkInner {
    fn gate(&mut self) -> std::io::Result<()> {
        let k = self.nops;
        self.nops += 1;
        if self.fail_at == Some(k) {
            self.fired = true;
            return Err(std::io::Error::new(std::io::ErrorKind::Other, INJECTED));
        }
        Ok(())
    }
}
impl std::io::Write for Sink {
    fn write(&mut self, buf: &[u8]) -> std::io::Result<usize> {
        let mut d = self.0.borrow_mut();
        d.gate()?;
        let pos = d.pos;
        for (i, b) in buf.iter().enumerate() {
            let p = pos + i as u64;
            if p >= 128 {
                break;
            }
            d.head[p as usize] = *b;
        }
        if buf.len() <= 64 && pos >= 100 {
            d.small_writes.push((pos, buf.len() as u32));
        }
        d.pos += buf.len() as u64;
        d.extent = d.extent.max(d.pos);
        Ok(buf.len())
    }
    fn flush(&mut self) -> std::io::Result<()> {
        self.0.borrow_mut().gate()
    }
}
impl std::io::Seek for Sink {
    fn seek(&mut self, from: std::io::SeekFrom) -> std::io::Result<u64> {
        let mut d = self.0.borrow_mut();
        d.gate()?;
        let new = match from {
            std::io::SeekFrom::Start(n) => n as i128,
            std::io::SeekFrom::End(n) => d.extent as i128 + n as i128,
            std::io::SeekFrom::Current(n) => d.pos as i128 + n as i128,
        };
        if new < 0 || new > u64::MAX as i128 {
            return Err(std::io::Error::new(std::io::ErrorKind::InvalidInput, "seek to a negative or overflowing position"));
        }
        d.pos = new as u64;
        Ok(d.pos)
    }
}

/// a user-defined multipoint-typed shape whose content is `size` zero bytes
pub struct Blob {
    pub size: usize,
}
impl shapefile::record::HasShapeType for Blob {
    fn shapetype() -> shapefile::ShapeType {
        shapefile::ShapeType::Multipoint
    }
}
impl shapefile::record::WritableShape for Blob {
    fn size_in_bytes(&self) -> usize {
        self.size
    }
    fn write_to<T: std::io::Write>(&self, dest: &mut T) -> Result<(), shapefile::Error> {
        let chunk = vec![0u8; 1 << 20];
        let mut left = self.size;
        while left > 0 {
            let n = left.min(chunk.len());
            dest.write_all(&chunk[..n])?;
            left -= n;
        }
        Ok(())
    }
}
impl shapefile::record::EsriShape for Blob {
    fn x_range(&self) -> [f64; 2] {
        [0.0, 0.0]
    }
    fn y_range(&self) -> [f64; 2] {
        [0.0, 0.0]
    }
}

/// A .shp beyond 2 GiB (two records of 1 GiB + 4 KiB each, then small ones): `[W big, W big, F, W small, W small,
/// drop]` with operation k of the .shp failing once, against the undisturbed run: same header, same extent,
/// every small write behind the header at the same place.
pub fn giant_verdicts(only: Option<u64>) -> (Vec<(Value, String, String)>, u64) {
    let run = |fault: Option<u64>| -> Result<(Vec<bool>, Sink, Sink), PanicInfo> {
        let (shp, shx) = (Sink::new(fault), Sink::new(None));
        let (s2, x2) = (shp.clone(), shx.clone());
        catch(move || {
            let mut ok = vec![];
            {
                let mut w = ShapeWriter::with_shx(s2.clone(), x2.clone());
                let big = Blob { size: (1 << 30) + 4096 };
                let small = Blob { size: 40 };
                ok.push(w.write_shape(&big).is_ok());
                ok.push(w.write_shape(&big).is_ok());
                ok.push(w.finalize().is_ok());
                ok.push(w.write_shape(&small).is_ok());
                ok.push(w.write_shape(&small).is_ok());
            }
            (ok, s2, x2)
        })
    };
    let mut out = vec![];
    let base = match run(None) {
        Ok(b) => b,
        Err(p) => return (vec![(json!({"giant_file": true}), format!("giant-file:{}", p.sig()), p.msg)], 1),
    };
    let nops = base.1 .0.borrow().nops;
    // the operations of the finalize and of the two small writes (the tail), and the first 8
    let points: Vec<u64> = match only {
        Some(k) => vec![k],
        None => (0..8).chain(nops.saturating_sub(80)..nops).collect(),
    };
    let n = points.len() as u64;
    for k in points {
        let cj = json!({"giant_file": true, "operation": k});
        match run(Some(k)) {
            Err(p) => out.push((cj, format!("giant-file:{}", p.sig()), format!("operation {} of the .shp fails once on a file beyond 2 GiB: {}", k, p.msg))),
            Ok((ok, shp, shx)) => {
                if !shp.0.borrow().fired {
                    continue;
                }
                // undisturbed outcome is only expected when every explicit call after the failed one succeeded
                // and the failed call was the finalize (a failed write is not in the file)
                let failed: Vec<usize> = ok.iter().enumerate().filter(|(_, b)| !**b).map(|(i, _)| i).collect();
                if failed == vec![2usize] {
                    let (a, b) = (shp.0.borrow(), base.1 .0.borrow());
                    let tail = |v: &Vec<(u64, u32)>| -> Vec<(u64, u32)> {
                        let mut t: Vec<(u64, u32)> = v.iter().copied().filter(|(p, _)| *p >= (2u64 << 30)).collect();
                        t.sort_unstable();
                        t.dedup();
                        t
                    };
                    if a.head[..100] != b.head[..100] || a.extent != b.extent || tail(&a.small_writes) != tail(&b.small_writes) || shx.0.borrow().head[..100] != base.2 .0.borrow().head[..100] || shx.0.borrow().extent != base.2 .0.borrow().extent {
                        out.push((cj, "giant-file:files-differ-after-later-finalize".to_string(), format!("operation {} of the .shp failed once during finalize on a file beyond 2 GiB; every later call succeeded and drop finalized, yet header / extent ({} vs {}) / record positions behind 2 GiB ({:?} vs {:?}) differ from the undisturbed run", k, a.extent, b.extent, tail(&a.small_writes).first(), tail(&b.small_writes).first())));
                    }
                }
            }
        }
    }
    (out, n)
}

const BIG_CHUNKS: [usize; 7] = [7, 512, 4096, 65536, 100_000, 131_071, 1 << 20];

/// A shape with a part of n points written twice through destinations that accept at most `chunk` bytes per
/// call, against unrestricted destinations.
pub fn big_verdicts(ty: Ty, n: usize, chunk: usize) -> Vec<(String, String)> {
    let lib = crate::bridge::to_lib(&crate::structs::sized(ty, n));
    let run = |chunk: usize| -> Result<(Vec<u8>, Vec<u8>), String> {
        let env = WEnv::new(true);
        if chunk > 0 {
            env.shp.0.borrow_mut().logging = false;
            env.shx.as_ref().unwrap().0.borrow_mut().logging = false;
            chunk_env(&env, chunk as u64);
        }
        {
            let mut w = ShapeWriter::with_shx(env.shp.clone(), env.shx.clone().unwrap());
            crate::bridge::write_shape(&mut w, &lib).map_err(|e| crate::bridge::err_kind(&e))?;
            crate::bridge::write_shape(&mut w, &lib).map_err(|e| crate::bridge::err_kind(&e))?;
        }
        Ok((env.shp.data(), env.shx.as_ref().unwrap().data()))
    };
    let reference = run(0);
    match catch(|| run(chunk)) {
        Ok(r) => {
            if r != reference {
                vec![(format!("{}:short-write:large-shape-differs", ty.name()), format!("destination accepting <= {} bytes per call: files differ from the unrestricted run ({:?} vs {:?} .shp bytes)", chunk, r.as_ref().map(|x| x.0.len()), reference.as_ref().map(|x| x.0.len())))]
            } else {
                vec![]
            }
        }
        Err(p) => vec![(format!("{}:{}", ty.name(), p.sig()), p.msg)],
    }
}

pub fn check(tier: Tier) -> i32 {
    let started = Instant::now();
    let types: Vec<Ty> = ALL13.to_vec();
    let hs = histories(tier.pick(4, 6));
    let mut units = vec![];
    for ty in &types {
        for with_shx in [true, false] {
            for h in &hs {
                units.push((*ty, with_shx, h.clone()));
            }
        }
    }
    let chunks: Vec<u64> = tier.pick(vec![1, 7], vec![1, 3, 7, 16]);
    let extra_maxlen = tier.pick(3, 4);
    let deadline = Some(started + std::time::Duration::from_secs(tier.pick(50, 1700)));
    let (agg, capped) = par_blocks(units.len(), deadline, |b, ctx, tick| {
        let (ty, with_shx, ops) = &units[b];
        // (quick: the sweep over all error kinds on one type per record layout class)
        let all_kinds = tier == Tier::Thorough || matches!(ty, Ty::Point | Ty::PolylineZ | Ty::Multipatch);
        run_workload(*ty, *with_shx, ops, &chunks, extra_maxlen, all_kinds, ctx, tick);
    });
    // large shapes under short writes of every magnitude (block-wise emission must not lose bytes)
    let mut big = Ctx::new();
    for ty in [Ty::PolylineZ, Ty::MultipointM, Ty::Polygon] {
        for n in [8193usize, 20000, 70001] {
            for chunk in BIG_CHUNKS {
                let cj = json!({"ty": ty.name(), "points_in_part": n, "chunk": chunk});
                let mut hh = Fnv::new();
                hh.str(&cj.to_string());
                big.case_done(hh.finish(), true, 9);
                big.lib_calls += 3;
                for (sig, d) in big_verdicts(ty, n, chunk) {
                    big.violation(sig, || cj.clone(), || d);
                }
            }
        }
    }
    // a .shp beyond 2 GiB on a discarding destination, faults in the finalize and the writes behind it
    {
        let (v, n) = giant_verdicts(None);
        big.lib_calls += n * 6;
        for i in 0..n {
            let mut hh = Fnv::new();
            hh.str(&format!("giant{}", i));
            big.case_done(hh.finish(), true, 12);
        }
        for (cj, sig, d) in v {
            big.violation(sig, || cj, || d);
        }
    }
    // one record with a long part between two small ones: every operation failing once
    for (ty, n) in tier.pick(vec![(Ty::PolylineZ, 2100usize), (Ty::MultipointM, 2100)], vec![(Ty::PolylineZ, 2100), (Ty::MultipointM, 2100), (Ty::Multipatch, 5000), (Ty::Polygon, 9000)]) {
        let (v, npoints) = long_record_verdicts(ty, n, None);
        big.lib_calls += npoints * 3;
        for i in 0..npoints {
            let mut hh = Fnv::new();
            hh.str(&format!("longrec{}{}{}", ty.name(), n, i));
            big.case_done(hh.finish(), true, 13);
        }
        for (cj, sig, d) in v {
            big.violation(sig, || cj, || d);
        }
    }
    // a destination that stops working for good while the caller keeps writing (300 calls; thorough 70 000)
    for ty in [Ty::Point, Ty::PolylineM] {
        for k in [0u64, 1, 30, 60, 61, 62, 63, 64, 65, 70] {
            let calls = tier.pick(300usize, 70_000);
            let cj = json!({"ty": ty.name(), "repeated_failures_from_operation": k, "calls": calls});
            let mut hh = Fnv::new();
            hh.str(&cj.to_string());
            big.case_done(hh.finish(), true, 14);
            big.lib_calls += calls as u64;
            for (sig, d) in repeated_failure_verdicts(ty, k, calls) {
                big.violation(sig, || cj.clone(), || d);
            }
        }
    }
    // one long history, faults at every seek / flush and at both ends
    for (ty, n) in tier.pick(vec![(Ty::Point, 131_073usize)], vec![(Ty::Point, 131_073), (Ty::Point, 300_001), (Ty::PolylineM, 131_073)]) {
        let (v, npoints) = long_verdicts(ty, n, None);
        big.lib_calls += npoints * 2;
        for i in 0..npoints {
            let mut hh = Fnv::new();
            hh.str(&format!("long{}{}{}", ty.name(), n, i));
            big.case_done(hh.finish(), true, 10);
        }
        for (cj, sig, d) in v {
            big.violation(sig, || cj, || d);
        }
    }
    let mut agg = agg;
    {
        let e = merge(vec![big]);
        agg.evals += e.evals;
        agg.lib_calls += e.lib_calls;
        agg.distinct_cases += e.distinct_cases;
        agg.distinct_nontrivial += e.distinct_nontrivial;
        for (k, f) in e.findings {
            agg.findings.insert(k, f);
        }
    }
    // the self-test runs the library too: on a tree that panics there it counts as failed (a verdict, if there is one,
    // takes precedence over it)
    let st = catch(|| selftest()).unwrap_or((1, 0));
    let _ = ShapeWriter::<crate::dev::Dev>::new;
    finish(
        RunInfo {
            prop: "C12",
            tier,
            level: "fault_enumeration",
            engine: "writer histories on the real ShapeWriter over fault-injecting / short-writing devices; one execution per (workload, fault point or chunking schedule)",
            rule: "workloads = every history over {Wa, Wb, F} up to the length bound x {with, without .shx} x types, ending in drop; fault points = every operation index k (write, seek or flush, counted on the fault-free log of this tree) on each device x {one-shot, persistent}; a one-shot fault inside a finalize is followed by the same history with that finalize retried; a second one-shot fault at every operation of that retry (same or other device) followed by a third call; every fault point again under uniform short writes (chunk 1 and 7; thorough 1, 3, 7, 16); a one-shot fault inside a finalize that is NOT retried at once: the history goes on and the files after drop equal the undisturbed run; for histories up to the extra bound: every fault point again with ErrorKind Interrupted (the operation failing 1..4 times in a row), WouldBlock (1..2 times), TimedOut, with writes that accept 0 bytes, with seeks that have moved the position when they report their failure, and (histories <= 2; quick: 3 types) with every other stable std::io::ErrorKind (an interrupted operation may be tried again, then the run must be indistinguishable from the undisturbed one incl. flushed state; every other kind must be reported), every fault point again on destinations that already hold longer stale content, and every unordered pair of one-shot faults anywhere in the history (files, up to their declared length, equal the undisturbed run of the history without the failed writes); a .shp beyond 2 GiB (two user-defined records of 1 GiB on a discarding destination, a finalize, two small records) with each of the last 80 and first 8 operations of the .shp failing once; a record with a part of 2100 points (thorough also 5000, 9000) between two small ones with every operation of either device failing once; a destination that stops working for good at one of 10 places while the caller goes on calling write_shape 300 (thorough 70 000) times: every call reports, none panics; one history of 131073 writes (thorough also 300001, and PolylineM) with every seek and flush and the first and last 40 operations of each device failing once; chunking = uniform c in {1,2,3,4,5,7,8,9,15,16,17} (and 7..2^20 on shapes of 8193..70001 points) and, for every write call j, 'call j moves 1 byte' and 'call j moves len-1 bytes'; every case is non-trivial",
            bounds: json!({"max_history": tier.pick(4, 6), "max_history_kinds_pairs_stale": tier.pick(3, 4), "types": types.iter().map(|t| t.name()).collect::<Vec<_>>(), "uniform_chunks": UNIFORM}),
            exhaustive: true,
            assumptions: vec![
                "an operation answered ErrorKind::Interrupted that is tried again and then succeeds (std's write_all does that) is not a failure in the sense of the statement".into(),
                "after a failed write_shape the files are compared up to the length their headers declare (a Write + Seek destination cannot be truncated)".into(),
                "faults that land inside drop only require 'no panic'; chunking schedules are the stated family, not all sequences of chunk sizes".into(),
            ],
            started,
            states: 0,
            transitions: 0,
            selftest: st,
            extra: Default::default(),
        },
        agg,
        capped,
    )
}

pub fn replay(v: &Value) -> Vec<(String, String)> {
    if v.get("giant_file").is_some() {
        return giant_verdicts(v.get("operation").and_then(|x| x.as_u64())).0.into_iter().map(|(_, s, d)| (s, d)).collect();
    }
    if let (Some(n), Some(k), Some(ty)) = (v.get("long_history").and_then(|x| x.as_u64()), v.get("operation").and_then(|x| x.as_u64()), v.get("ty").and_then(|x| x.as_str()).and_then(Ty::from_name)) {
        let d = if v.get("fault_on").and_then(|x| x.as_str()) == Some("shp") { 0u8 } else { 1u8 };
        return long_verdicts(ty, n as usize, Some((d, k))).0.into_iter().map(|(_, s, d)| (s, d)).collect();
    }
    if let (Some(n), Some(k), Some(ty)) = (v.get("long_record").and_then(|x| x.as_u64()), v.get("operation").and_then(|x| x.as_u64()), v.get("ty").and_then(|x| x.as_str()).and_then(Ty::from_name)) {
        let d = if v.get("fault_on").and_then(|x| x.as_str()) == Some("shp") { 0u8 } else { 1u8 };
        return long_record_verdicts(ty, n as usize, Some((d, k))).0.into_iter().map(|(_, s, d)| (s, d)).collect();
    }
    if let (Some(k), Some(calls), Some(ty)) = (v.get("repeated_failures_from_operation").and_then(|x| x.as_u64()), v.get("calls").and_then(|x| x.as_u64()), v.get("ty").and_then(|x| x.as_str()).and_then(Ty::from_name)) {
        return repeated_failure_verdicts(ty, k, calls as usize);
    }
    if let (Some(n), Some(chunk), Some(ty)) = (v.get("points_in_part").and_then(|x| x.as_u64()), v.get("chunk").and_then(|x| x.as_u64()), v.get("ty").and_then(|x| x.as_str()).and_then(Ty::from_name)) {
        return big_verdicts(ty, n as usize, chunk as usize);
    }
    match Case::from_json(v) {
        None => vec![("bad-replay-file".into(), "cannot parse case".into())],
        Some(case) => {
            let pal = Palette::new(case.ty, None);
            let (chunk, prefill) = match &case.plan {
                Plan::Fault { chunk, prefill, .. } => (*chunk, *prefill),
                _ => (0, false),
            };
            let base = baseline_full(&pal, case.with_shx, &case.ops, chunk, prefill);
            match catch(|| observe(&pal, &case, &base)) {
                Ok(o) => judge(&case, &base, &o).into_iter().map(|(s, d)| (format!("{}:{}", case.ty.name(), s), d)).collect(),
                Err(p) => vec![(format!("{}:harness-or-drop-panic:{}", case.ty.name(), p.sig()), p.msg)],
            }
        }
    }
}
