//! C09: any interleaving of writes and finalize calls yields the same files
//! as drop.  Engine E1 (stateright history explorer).

use crate::dev::Op;
use crate::engine::*;
use crate::hist::{self, Hist};
use crate::model::*;
use crate::oracle::*;
use crate::wexec::*;
use serde_json::{json, Value};
use std::sync::Arc;
use std::time::Instant;

const CFG: usize = 3;

fn decode_ops(h: &[u8]) -> Vec<WOp> {
    h.iter()
        .map(|b| match b {
            0 => WOp::W(0),
            1 => WOp::W(1),
            2 => WOp::F,
            _ => WOp::R,
        })
        .collect()
}

/// the palette whose shape a was read from a record with an inverted stored box (multi-vertex types)
pub fn sloppy_palette(ty: Ty) -> Palette {
    use crate::refmodel::codec::{self, MBody, MFile, MRecord};
    let mut pal = Palette::new(ty, Some(other_of(ty)));
    if ty.family() != Family::Point {
        let shape = pal.built[0].shape.clone();
        let mut bbox = codec::true_bbox(&shape);
        bbox.swap(0, 2);
        bbox.swap(1, 3);
        let f = MFile { ty, header_box: [0.0; 8], records: vec![MRecord { number: 1, body: MBody::Shape { shape, bbox, with_m: true } }], trailing: vec![] };
        let bytes = codec::encode(&f).bytes;
        let mut r = shapefile::ShapeReader::new(crate::dev::Dev::quiet(bytes)).expect("open");
        let lib = r.iter_shapes().next().expect("one record").expect("readable");
        pal.built[0] = crate::bridge::from_lib(&lib);
        pal.lib[0] = lib;
    }
    pal
}

/// the type a rejected write offers
fn other_of(t: Ty) -> Ty {
    ALL13[(ALL13.iter().position(|x| *x == t).unwrap() + 5) % 13]
}

#[derive(Clone, Debug)]
pub struct Case {
    pub ty: Ty,
    /// the destinations already hold longer stale content (a reused buffer)
    pub prefill: bool,
    /// ... and are not positioned at their start when the writer gets them
    pub offset: bool,
    /// shape a is not constructed but read from a record whose stored box is inverted in X and Y (the reader keeps
    /// the stored box; the shape then announces min > max)
    pub sloppy: bool,
    pub with_shx: bool,
    pub ending: Ending,
    pub ops: Vec<WOp>,
}

impl Case {
    fn from_hist(h: &Hist) -> Case {
        Case {
            ty: ALL13[h[0] as usize],
            prefill: h[1] == 2 || h[1] == 3,
            offset: h[1] == 3,
            sloppy: h[1] == 4,
            with_shx: h[1] >= 1,
            ending: ENDINGS[h[2] as usize],
            ops: decode_ops(&h[CFG..]),
        }
    }
    pub fn to_json(&self) -> Value {
        json!({"ty": self.ty.name(), "prefill": self.prefill, "offset": self.offset, "sloppy": self.sloppy, "with_shx": self.with_shx, "ending": self.ending.name(), "ops": ops_name(&self.ops)})
    }
    pub fn from_json(v: &Value) -> Option<Case> {
        Some(Case {
            ty: Ty::from_name(v.get("ty")?.as_str()?)?,
            prefill: v.get("prefill").and_then(|x| x.as_bool()).unwrap_or(false),
            offset: v.get("offset").and_then(|x| x.as_bool()).unwrap_or(false),
            sloppy: v.get("sloppy").and_then(|x| x.as_bool()).unwrap_or(false),
            with_shx: v.get("with_shx")?.as_bool()?,
            ending: Ending::from_name(v.get("ending")?.as_str()?)?,
            ops: ops_from_name(v.get("ops")?.as_str()?)?,
        })
    }
    fn pattern(&self) -> String {
        let first_w = self.ops.iter().position(|o| matches!(o, WOp::W(_)));
        let first_f = self.ops.iter().position(|o| *o == WOp::F);
        let f_before_w = match (first_f, first_w) {
            (Some(f), Some(w)) => f < w,
            (Some(_), None) => matches!(self.ending, Ending::WriteShapes(k) if k > 0),
            _ => false,
        };
        if f_before_w {
            "finalize-before-first-write".into()
        } else if first_f.is_some() {
            "finalize-after-write".into()
        } else {
            "no-explicit-finalize".into()
        }
    }
}

/// What the run observed; the judge works on this only (so that the
/// self-test can tamper with it).
pub struct Obs {
    pub results: Vec<CallRes>,
    pub final_shp: Vec<u8>,
    pub final_shx: Option<Vec<u8>>,
    pub ref_shp: Vec<u8>,
    pub ref_shx: Option<Vec<u8>>,
    /// per successful F: (op index, shp image, shx image, unflushed shp, unflushed shx, log entries added by the call, was it a no-op finalize by the model, shapes written so far)
    pub after_f: Vec<FSnap>,
    pub lib_calls: u64,
}
pub struct FSnap {
    pub idx: usize,
    pub shp: Vec<u8>,
    pub shx: Option<Vec<u8>>,
    pub unflushed: (u64, u64),
    pub log_added: (usize, usize),
    pub nothing_new: bool,
    pub so_far: Vec<u8>,
}

/// With stale content behind the new file a Write + Seek destination cannot be
/// truncated: the image is judged up to the length its header declares.
fn declared_view(prefill: bool, b: &[u8]) -> &[u8] {
    if !prefill {
        return b;
    }
    match b.get(24..28).map(|x| i32::from_be_bytes(x.try_into().unwrap()) as i64 * 2) {
        Some(l) if l >= 100 && l as usize <= b.len() => &b[..l as usize],
        _ => b,
    }
}

fn stale(env: &WEnv, offset: bool) {
    env.shp.0.borrow_mut().data = vec![0xEE; 3000];
    if offset {
        env.shp.0.borrow_mut().pos = 776;
    }
    if let Some(x) = &env.shx {
        x.0.borrow_mut().data = vec![0xEE; 1500];
        if offset {
            x.0.borrow_mut().pos = 332;
        }
    }
}

pub fn observe(pal: &Palette, case: &Case) -> Obs {
    let env = WEnv::new(case.with_shx);
    if case.prefill {
        stale(&env, case.offset);
    }
    let mut after_f = vec![];
    let mut so_far: Vec<u8> = vec![];
    let mut clean = false; // a finalize succeeded and nothing was written since
    let mut log_before = (0usize, 0usize);
    let env_ref = &env;
    // log lengths *before* each call are needed: capture via the after hook of the previous call
    let results = exec_writer(pal, &case.ops, case.ending, &env, |i, op, r| {
        let now = (env_ref.shp.log_len(), env_ref.shx.as_ref().map(|x| x.log_len()).unwrap_or(0));
        match (op, r) {
            (WOp::W(k), CallRes::Ok) => {
                so_far.push(k);
                clean = false;
            }
            (WOp::F, CallRes::Ok) => {
                after_f.push(FSnap {
                    idx: i,
                    shp: env_ref.shp.data(),
                    shx: env_ref.shx.as_ref().map(|x| x.data()),
                    unflushed: (env_ref.shp.unflushed(), env_ref.shx.as_ref().map(|x| x.unflushed()).unwrap_or(0)),
                    log_added: (now.0 - log_before.0, now.1 - log_before.1),
                    nothing_new: clean,
                    so_far: so_far.clone(),
                });
                clean = true;
            }
            _ => {}
        }
        log_before = now;
    });
    let acc = accepted(&case.ops, case.ending, &results);
    // reference run on the same tree: the same shapes, then drop
    let renv = WEnv::new(case.with_shx);
    if case.prefill {
        stale(&renv, case.offset);
    }
    let rops: Vec<WOp> = acc.iter().filter(|k| **k < 2).map(|k| WOp::W(*k)).collect();
    let nc = acc.iter().filter(|k| **k == 2).count();
    // c-shapes only ever come last (from the ending), so the reference is
    // "writes, then write_shape(c) x nc, then drop"; done by hand here
    {
        use crate::bridge::write_shape;
        let mut w = match &renv.shx {
            Some(x) => shapefile::ShapeWriter::with_shx(renv.shp.clone(), x.clone()),
            None => shapefile::ShapeWriter::new(renv.shp.clone()),
        };
        for o in &rops {
            if let WOp::W(k) = o {
                write_shape(&mut w, &pal.lib[*k as usize]).expect("reference run: write_shape failed");
            }
        }
        for _ in 0..nc {
            write_shape(&mut w, &pal.lib[2]).expect("reference run: write_shape failed");
        }
    }
    Obs {
        lib_calls: (case.ops.len() + 2 + acc.len() + 1) as u64,
        results,
        final_shp: env.shp.data(),
        final_shx: env.shx.as_ref().map(|x| x.data()),
        ref_shp: renv.shp.data(),
        ref_shx: renv.shx.as_ref().map(|x| x.data()),
        after_f,
    }
}

pub fn judge(pal: &Palette, case: &Case, o: &Obs) -> Vec<(String, String)> {
    let mut out = vec![];
    let pat = case.pattern();
    for (i, r) in o.results.iter().enumerate() {
        // a write of another type is refused (C10 says how); here it only has to leave the writer as it was
        if case.ops.get(i) == Some(&WOp::R) {
            if !matches!(r, CallRes::Err(_)) {
                out.push((format!("rejected-write-not-refused[{}]", pat), format!("call {} (a shape of another type) returned {:?}", i, r)));
                return out;
            }
            continue;
        }
        if *r != CallRes::Ok {
            out.push((format!("call-failed[{}]", pat), format!("call {} returned {:?} on a healthy destination", i, r)));
            return out;
        }
    }
    let acc = accepted(&case.ops, case.ending, &o.results);
    let handed: Vec<MRead> = acc.iter().map(|k| pal.built[*k as usize].clone()).collect();
    // the reference run itself must be a valid file holding exactly these shapes
    if let Some(c) = shp_holds_exactly(declared_view(case.prefill, &o.ref_shp), pal.ty, &handed) {
        out.push((format!("reference-run-invalid:{}", clause_class(&c)), format!("writes+drop: {}", c)));
    }
    if let Some(x) = &o.ref_shx {
        if let Err(e) = shx_matches_shp(declared_view(case.prefill, &o.ref_shp), declared_view(case.prefill, x)) {
            out.push((format!("reference-run-invalid:{}", clause_class(&e)), format!("writes+drop: {}", e)));
        }
    }
    // (1) same bytes as the reference run
    if o.final_shp != o.ref_shp {
        out.push((
            format!("final-shp-differs[{}]", pat),
            format!(
                ".shp after the history has {} bytes, after writes+drop {} bytes (first difference at byte {:?})",
                o.final_shp.len(),
                o.ref_shp.len(),
                o.final_shp.iter().zip(&o.ref_shp).position(|(a, b)| a != b)
            ),
        ));
    }
    if o.final_shx != o.ref_shx {
        out.push((
            format!("final-shx-differs[{}]", pat),
            format!(
                ".shx after the history has {:?} bytes, after writes+drop {:?} bytes",
                o.final_shx.as_ref().map(|x| x.len()),
                o.ref_shx.as_ref().map(|x| x.len())
            ),
        ));
    }
    // (2), (3) after every successful finalize
    for s in &o.after_f {
        if s.unflushed != (0, 0) {
            out.push((
                format!("finalize-left-unflushed[{}]", pat),
                format!("after finalize at op {}: {} / {} unflushed bytes on .shp / .shx", s.idx, s.unflushed.0, s.unflushed.1),
            ));
        }
        let so_far: Vec<MRead> = s.so_far.iter().map(|k| pal.built[*k as usize].clone()).collect();
        if let Some(c) = shp_holds_exactly(declared_view(case.prefill, &s.shp), pal.ty, &so_far) {
            out.push((
                format!("finalize-incomplete-shp[{}]:{}", pat, clause_class(&c)),
                format!("after finalize at op {}: {}", s.idx, c),
            ));
        } else if let Some(x) = &s.shx {
            if let Err(e) = shx_matches_shp(declared_view(case.prefill, &s.shp), declared_view(case.prefill, x)) {
                out.push((
                    format!("finalize-incomplete-shx[{}]:{}", pat, clause_class(&e)),
                    format!("after finalize at op {}: {}", s.idx, e),
                ));
            }
        }
        if s.nothing_new && s.log_added != (0, 0) {
            out.push((
                "noop-finalize-did-io".to_string(),
                format!(
                    "finalize at op {} had nothing new to commit but issued {} / {} operations on .shp / .shx",
                    s.idx, s.log_added.0, s.log_added.1
                ),
            ));
        }
    }
    out
}

fn run(pals: &[Palette], h: &Hist, ctx: &mut Ctx) {
    let case = Case::from_hist(h);
    let pal = &pals[h[0] as usize + if case.sloppy { 13 } else { 0 }];
    let mut hh = Fnv::new();
    hh.bytes(h);
    let obs = match catch(|| observe(pal, &case)) {
        Ok(o) => o,
        Err(p) => {
            ctx.case_done(hh.finish(), true, 1);
            ctx.violation(format!("harness-or-drop-panic:{}", p.sig()), || case.to_json(), || format!("{}:{} {}", p.file, p.line, p.msg));
            return;
        }
    };
    ctx.lib_calls += obs.lib_calls;
    ctx.traces += 1;
    let mut oh = Fnv::new();
    oh.bytes(&obs.final_shp);
    if let Some(x) = &obs.final_shx {
        oh.bytes(x);
    }
    let nontrivial = case.ops.iter().any(|o| *o == WOp::F) || case.ending != Ending::Drop;
    ctx.case_done(hh.finish(), nontrivial, oh.finish());
    if case.ops.len() >= 3 {
        ctx.sample(|| case.to_json());
    }
    for (sig, detail) in judge(pal, &case, &obs) {
        ctx.violation(sig, || case.to_json(), || detail);
    }
}

fn selftest(pals: &[Palette]) -> (u64, u64) {
    let case = Case {
        ty: Ty::PolylineM,
        prefill: false,
        offset: false,
        sloppy: false,
        with_shx: true,
        ending: Ending::FinalizeDrop,
        ops: vec![WOp::W(0), WOp::F, WOp::F, WOp::W(1)],
    };
    let pal = &pals[ALL13.iter().position(|t| *t == case.ty).unwrap()];
    let fresh = || observe(pal, &case);
    if !judge(pal, &case, &fresh()).is_empty() {
        return (1, 0);
    }
    let mut inj = 0;
    let mut det = 0;
    let mut t = |f: &dyn Fn(&mut Obs)| {
        let mut o = fresh();
        f(&mut o);
        inj += 1;
        det += (!judge(pal, &case, &o).is_empty()) as u64;
    };
    t(&|o| o.final_shp[30] ^= 1);
    t(&|o| {
        o.final_shx.as_mut().unwrap().pop();
    });
    t(&|o| o.after_f[0].unflushed = (4, 0));
    t(&|o| o.after_f[1].log_added = (0, 1));
    t(&|o| {
        let n = o.after_f[0].shp.len();
        o.after_f[0].shp.truncate(n - 2);
    });
    t(&|o| o.after_f[0].shx.as_mut().unwrap()[103] ^= 1);
    t(&|o| o.results[1] = CallRes::Err("x".into()));
    (inj, det)
}

/// One history through `ShapeWriter::from_path` over paths that already hold longer files, against the same
/// writes followed by drop.
pub fn disk_verdicts(pal: &Palette, ty: Ty, h: &[WOp]) -> Vec<(String, String)> {
    let dir = super::c01_c02::scratch_dir();
    let tid: String = format!("{:?}", std::thread::current().id()).chars().filter(|c| c.is_ascii_digit()).collect();
    let run_on_disk = |ops: &[WOp], tag: &str| -> Result<(Vec<u8>, Vec<u8>), String> {
        let path = dir.join(format!("c09-{}-{}.shp", tid, tag));
        std::fs::write(&path, vec![0xEEu8; 5000]).map_err(|e| e.to_string())?;
        std::fs::write(path.with_extension("shx"), vec![0xEEu8; 3000]).map_err(|e| e.to_string())?;
        {
            let mut w = shapefile::ShapeWriter::from_path(&path).map_err(|e| crate::bridge::err_kind(&e))?;
            for op in ops {
                match op {
                    WOp::W(k) => crate::bridge::write_shape(&mut w, &pal.lib[*k as usize]).map_err(|e| crate::bridge::err_kind(&e))?,
                    _ => w.finalize().map_err(|e| crate::bridge::err_kind(&e))?,
                }
            }
        }
        let r = (std::fs::read(&path).map_err(|e| e.to_string())?, std::fs::read(path.with_extension("shx")).map_err(|e| e.to_string())?);
        let _ = std::fs::remove_file(&path);
        let _ = std::fs::remove_file(path.with_extension("shx"));
        Ok(r)
    };
    let writes: Vec<WOp> = h.iter().copied().filter(|o| matches!(o, WOp::W(_))).collect();
    let mut out = vec![];
    match catch(|| (run_on_disk(h, "a"), run_on_disk(&writes, "b"))) {
        Ok((Ok(a), Ok(b))) => {
            if a != b {
                out.push(("disk:final-files-differ".to_string(), format!(".shp {} vs {} bytes, .shx {} vs {} bytes (history vs writes+drop)", a.0.len(), b.0.len(), a.1.len(), b.1.len())));
            }
            let handed: Vec<MRead> = writes.iter().map(|o| if let WOp::W(k) = o { pal.built[*k as usize].clone() } else { unreachable!() }).collect();
            if let Some(c) = shp_holds_exactly(&a.0, ty, &handed) {
                out.push((format!("disk:file-invalid:{}", clause_class(&c)), c));
            } else if let Err(e) = shx_matches_shp(&a.0, &a.1) {
                out.push((format!("disk:index-invalid:{}", clause_class(&e)), e));
            }
        }
        Ok((a, b)) => out.push(("disk:call-failed".to_string(), format!("{:?} / {:?}", a.err(), b.err()))),
        Err(p) => out.push((format!("disk:{}", p.sig()), p.msg)),
    }
    out
}

pub fn check(tier: Tier) -> i32 {
    let started = Instant::now();
    let depth = tier.pick(7, 10);
    let pals: Arc<Vec<Palette>> = Arc::new(ALL13.iter().map(|t| Palette::new(*t, Some(other_of(*t)))).chain(ALL13.iter().map(|t| sloppy_palette(*t))).collect());
    let mut inits = vec![];
    for t in 0..13u8 {
        for x in 0..5u8 {
            if x == 4 && ALL13[t as usize].family() == Family::Point {
                continue;
            }
            for e in 0..ENDINGS.len() as u8 {
                inits.push(vec![t, x, e]);
            }
        }
    }
    let p2 = pals.clone();
    let res = hist::explore(
        inits,
        CFG,
        depth,
        // a refused write (of another type) at most once, behind a write that gave the file its type
        Arc::new(|h: &Hist| {
            let ops = &h[CFG..];
            if ops.iter().any(|b| *b < 2) && !ops.contains(&3) {
                vec![0, 1, 2, 3]
            } else {
                vec![0, 1, 2]
            }
        }),
        Arc::new(move |h, ctx| run(&p2, h, ctx)),
    );
    // path-created writers over paths that already hold longer files: every history up to depth 3
    let mut disk = Ctx::new();
    if !super::c01_c02::scratch_usable() {
        return 2;
    }
    let dir = super::c01_c02::scratch_dir();
    for (ti, ty) in ALL13.iter().enumerate() {
        let pal = &pals[ti];
        let mut hs: Vec<Vec<WOp>> = vec![vec![]];
        let mut cur: Vec<Vec<WOp>> = vec![vec![]];
        for _ in 0..3 {
            let mut next = vec![];
            for c in &cur {
                for op in [WOp::W(0), WOp::W(1), WOp::F] {
                    let mut x = c.clone();
                    x.push(op);
                    next.push(x);
                }
            }
            hs.extend(next.iter().cloned());
            cur = next;
        }
        for h in &hs {
            let cj = json!({"ty": ty.name(), "route": "from_path over existing longer files", "ops": ops_name(h)});
            let mut hh = Fnv::new();
            hh.str(&cj.to_string());
            disk.lib_calls += h.len() as u64 * 2 + 4;
            disk.traces += 1;
            disk.case_done(hh.finish(), h.contains(&WOp::F), 3);
            for (sig, d) in disk_verdicts(pal, *ty, h) {
                disk.violation(sig, || cj.clone(), || d);
            }
        }
    }
    super::c01_c02::cleanup_scratch();
    // the self-test runs the library too: on a tree that panics there it counts as failed (a verdict, if there is one,
    // takes precedence over it)
    let st = catch(|| selftest(&pals)).unwrap_or((1, 0));
    let mut ctxs = res.ctxs;
    ctxs.push(disk);
    let agg = merge(ctxs);
    finish(
        RunInfo {
            prop: "C09",
            tier,
            level: "model_checking",
            engine: "E1 stateright BFS over operation histories (state = history, no merging), each state executed on the real ShapeWriter over instrumented devices",
            rule: "every sequence over {write a, write b, finalize, and at most one refused write of another type behind a write} up to the depth bound x 13 types x {without .shx, with .shx, with .shx into buffers that already hold longer stale content, the same with both destinations not positioned at their start, with .shx and shape a read from a record whose stored box is inverted} x 6 endings {drop, finalize+drop, write_shapes(self,[c]*k) k=0,1,2, drop by stack unwinding}; plus every history up to depth 3 through ShapeWriter::from_path over paths that already hold longer files; distinct = the history; non-trivial = contains a finalize or a non-drop ending",
            bounds: json!({"depth": depth, "alphabet": ["Wa", "Wb", "F", "R (<=1)"], "types": 13, "endings": 6, "index": [true, false]}),
            exhaustive: true,
            assumptions: vec![
                "reference for 'same bytes as drop' is a run of the same tree (differential), itself validated by RefCodec".into(),
                "histories longer than the depth bound are not covered".into(),
            ],
            started,
            states: res.unique_states,
            transitions: res.states_generated,
            selftest: st,
            extra: {
                let mut m = serde_json::Map::new();
                m.insert("stateright_max_depth".into(), json!(res.max_depth));
                m
            },
        },
        agg,
        false,
    )
}

pub fn replay(v: &Value) -> Vec<(String, String)> {
    if v.get("route").is_some() {
        let parsed = (|| Some((Ty::from_name(v.get("ty")?.as_str()?)?, ops_from_name(v.get("ops")?.as_str()?)?)))();
        return match parsed {
            Some((ty, ops)) => {
                let r = disk_verdicts(&Palette::new(ty, Some(other_of(ty))), ty, &ops);
                super::c01_c02::cleanup_scratch();
                r
            }
            None => vec![("bad-replay-file".into(), "cannot parse case".into())],
        };
    }
    let case = match Case::from_json(v) {
        Some(c) => c,
        None => return vec![("bad-replay-file".into(), "cannot parse case".into())],
    };
    let pal = if case.sloppy { sloppy_palette(case.ty) } else { Palette::new(case.ty, Some(other_of(case.ty))) };
    match catch(|| observe(&pal, &case)) {
        Ok(o) => judge(&pal, &case, &o),
        Err(p) => vec![(format!("harness-or-drop-panic:{}", p.sig()), p.msg)],
    }
}
