//! C08: shapes and attribute rows stay paired one-to-one through write and
//! read.  Engine E1 on the complete Writer / Reader.

use crate::bridge::*;
use crate::dev::Dev;
use crate::engine::*;
use crate::hist::{self, Hist};
use crate::model::*;
use crate::pexec::*;
use crate::refmodel::codec::{self, DecodeOpts};
use crate::table;
use crate::wexec::{CallRes, Palette};
use serde_json::{json, Value};
use shapefile::{Reader, ShapeReader};
use std::sync::Arc;
use std::time::Instant;

const CFG: usize = 2;

#[derive(Clone, Debug)]
pub struct Case {
    pub ty: Ty,
    /// false: in-memory devices, true: Writer::from_path + shapefile::read(path) / Reader::from_path
    pub disk: bool,
    pub ops: Vec<POp>,
    /// in-memory .shp / .shx destinations already hold longer stale content (a reused buffer)
    pub prefill: bool,
    /// 0: as is; 1: palette shape a has no-data measures only (types with measures); 2 (disk): the file name has
    /// several dots ("c08-<n>.v1.2024.shp"); 3: the pairs are written by one `write_shapes_and_records` call; 4: shape a has empty parts (in the middle and last)
    pub variant: u8,
}

impl Case {
    pub fn to_json(&self) -> Value {
        json!({"ty": self.ty.name(), "disk": self.disk, "ops": pops_name(&self.ops), "prefill": self.prefill, "variant": self.variant})
    }
    pub fn from_json(v: &Value) -> Option<Case> {
        Some(Case { ty: Ty::from_name(v.get("ty")?.as_str()?)?, disk: v.get("disk")?.as_bool()?, ops: pops_from_name(v.get("ops")?.as_str()?)?, prefill: v.get("prefill").and_then(|x| x.as_bool()).unwrap_or(false), variant: v.get("variant").and_then(|x| x.as_u64()).unwrap_or(0) as u8 })
    }
}

fn other_of(ty: Ty) -> Ty {
    if ty == Ty::Point {
        Ty::Polyline
    } else {
        Ty::Point
    }
}

pub struct Obs {
    pub results: Vec<CallRes>,
    pub shp: Vec<u8>,
    pub shx: Vec<u8>,
    pub dbf: Vec<u8>,
    /// what the complete reader returns: per item Ok((shape as read, row idx, row name)) or Err
    pub iter: Result<Vec<Result<(MRead, Option<i64>, Option<String>), String>>, String>,
    pub read: Result<Vec<(MRead, Option<i64>, Option<String>)>, String>,
    /// by path: companion files that are missing under their proper names / created under other names
    pub missing: Vec<String>,
    /// Reader::read_as::<T, Record>() and iter_shapes_and_records_as::<T, Record>() over the same bytes
    pub typed_read: Result<Vec<(MRead, Option<i64>, Option<String>)>, String>,
    pub typed_iter: Result<Vec<(MRead, Option<i64>, Option<String>)>, String>,
}

pub fn observe(pal: &Palette, case: &Case) -> Obs {
    let nodata_pal;
    let pal = if case.variant == 1 {
        nodata_pal = nodata_palette(case.ty);
        &nodata_pal
    } else if case.variant == 4 {
        nodata_pal = empty_part_palette(case.ty);
        &nodata_pal
    } else {
        pal
    };
    let mut missing: Vec<String> = vec![];
    let (results, shp, shx, dbf);
    let mut iter;
    let read;
    let cap = case.ops.len() + 4;
    let conv = |p: (shapefile::Shape, shapefile::dbase::Record)| (from_lib(&p.0), table::row_idx(&p.1), table::row_name(&p.1));
    if case.disk {
        let dir = super::c01_c02::scratch_dir();
        let tid: String = format!("{:?}", std::thread::current().id()).chars().filter(|c| c.is_ascii_digit()).collect();
        // (variant 2: several dots; otherwise by turns a plain name and one without any extension)
        let path = dir.join(if case.variant == 2 { format!("c08-{}.v1.2024.shp", tid) } else if case.ops.len() % 2 == 0 { format!("c08-{}-noext", tid) } else { format!("c08-{}.shp", tid) });
        if case.variant == 2 {
            // a neighbouring data set that shares the prefix of the name
            for ext in ["shx", "dbf"] {
                let _ = std::fs::remove_file(dir.join(format!("c08-{}.v1.{}", tid, ext)));
            }
        }
        for ext in ["shp", "shx", "dbf"] {
            std::fs::write(path.with_extension(ext), vec![0xEEu8; 70_000]).expect("prefill");
        }
        // a neighbouring data set whose name differs by case only (another shape, a row numbered 777): created
        // before the real one for histories of even length, after it for odd ones
        let decoy = |dir: &std::path::Path| {
            let (a, b, c) = (Dev::quiet(vec![]), Dev::quiet(vec![]), Dev::quiet(vec![]));
            {
                let mut w = shapefile::Writer::new(shapefile::ShapeWriter::with_shx(a.clone(), b.clone()), table::table_writer(c.clone()));
                let _ = write_pair(&mut w, &pal.lib[1], &table::good_row(777));
                let _ = write_pair(&mut w, &pal.lib[1], &table::good_row(778));
                let _ = write_pair(&mut w, &pal.lib[1], &table::good_row(779));
                let _ = write_pair(&mut w, &pal.lib[1], &table::good_row(780));
                let _ = write_pair(&mut w, &pal.lib[1], &table::good_row(781));
            }
            let stem = format!("C08-{}", tid);
            let _ = std::fs::write(dir.join(format!("{}.SHX", stem)), b.data());
            let _ = std::fs::write(dir.join(format!("{}.DBF", stem)), c.data());
        };
        let with_decoy = case.variant == 0;
        if with_decoy && case.ops.len() % 2 == 0 {
            decoy(&dir);
        }
        {
            let mut w = shapefile::Writer::from_path(&path, table::builder()).expect("create files");
            let mut rs = vec![];
            for (i, op) in case.ops.iter().enumerate() {
                let r = catch(|| match op {
                    POp::Good(k) => write_pair(&mut w, &pal.lib[*k as usize], &table::good_row(i)),
                    POp::BadType => write_pair(&mut w, pal.other.as_ref().unwrap(), &table::good_row(i)),
                    POp::RowMissing => write_pair(&mut w, &pal.lib[0], &table::row_missing_field(i)),
                    POp::RowWrongType => write_pair(&mut w, &pal.lib[0], &table::row_wrong_type(i)),
                    POp::RowWrongFirst => write_pair(&mut w, &pal.lib[0], &table::row_wrong_first(i)),
                });
                rs.push(match r {
                    Ok(Ok(())) => CallRes::Ok,
                    Ok(Err(e)) => CallRes::Err(err_kind(&e)),
                    Err(p) => CallRes::Panic(p.sig()),
                });
            }
            results = rs;
        }
        if with_decoy && case.ops.len() % 2 == 1 {
            decoy(&dir);
        }
        shp = std::fs::read(&path).unwrap_or_default();
        // the companion files are the ones whose names differ from the .shp's in the extension only
        shx = std::fs::read(path.with_extension("shx")).unwrap_or_default();
        dbf = std::fs::read(path.with_extension("dbf")).unwrap_or_default();
        for ext in ["shp", "shx", "dbf"] {
            if !path.with_extension(ext).exists() {
                missing.push(format!("{} does not exist", path.with_extension(ext).file_name().unwrap().to_string_lossy()));
            }
        }
        if case.variant == 2 {
            for ext in ["shx", "dbf"] {
                let stray = dir.join(format!("c08-{}.v1.{}", tid, ext));
                if stray.exists() {
                    missing.push(format!("{} was created instead", stray.file_name().unwrap().to_string_lossy()));
                    let _ = std::fs::remove_file(stray);
                }
            }
        }
        read = shapefile::read(&path).map(|v| v.into_iter().map(conv).collect()).map_err(|e| err_kind(&e));
        iter = Reader::from_path(&path).map_err(|e| err_kind(&e)).map(|mut r| {
            let mut v = vec![];
            for it in r.iter_shapes_and_records() {
                v.push(it.map(conv).map_err(|e| err_kind(&e)));
                if v.len() > cap {
                    break;
                }
            }
            v
        });
        for ext in ["shp", "shx", "dbf"] {
            let _ = std::fs::remove_file(path.with_extension(ext));
        }
        for ext in ["SHX", "DBF"] {
            let _ = std::fs::remove_file(dir.join(format!("C08-{}.{}", tid, ext)));
        }
    } else {
        let env = PEnv::new();
        if case.prefill {
            env.shp.0.borrow_mut().data = vec![0xEE; 5000];
            env.shx.0.borrow_mut().data = vec![0xEE; 3000];
        }
        results = if case.variant == 3 { exec_bulk(pal, &case.ops, &env) } else { exec_complete(pal, &case.ops, &env) };
        shp = env.shp.data();
        shx = env.shx.data();
        dbf = env.dbf.data();
        let open = || -> Result<Reader<Dev, Dev>, String> {
            let sr = ShapeReader::with_shx(Dev::quiet(shp.clone()), Dev::quiet(shx.clone())).map_err(|e| err_kind(&e))?;
            let dr = shapefile::dbase::Reader::new(Dev::quiet(dbf.clone())).map_err(|e| format!("dbf: {}", e))?;
            Ok(Reader::new(sr, dr))
        };
        read = open().and_then(|mut r| r.read().map(|v| v.into_iter().map(conv).collect()).map_err(|e| err_kind(&e)));
        iter = open().map(|mut r| {
            let mut v = vec![];
            for it in r.iter_shapes_and_records() {
                v.push(it.map(conv).map_err(|e| err_kind(&e)));
                if v.len() > cap {
                    break;
                }
            }
            v
        });
    }
    if let Ok(v) = &mut iter {
        v.truncate(cap + 1);
    }
    // the typed routes over the same bytes: read_as::<T, Record>() and iter_shapes_and_records_as
    let open_mem = || -> Result<Reader<Dev, Dev>, String> {
        let sr = ShapeReader::with_shx(Dev::quiet(shp.clone()), Dev::quiet(shx.clone())).map_err(|e| err_kind(&e))?;
        let dr = shapefile::dbase::Reader::new(Dev::quiet(dbf.clone())).map_err(|e| format!("dbf: {}", e))?;
        Ok(Reader::new(sr, dr))
    };
    let typed_read: Result<Vec<(MRead, Option<i64>, Option<String>)>, String> = crate::with_ty!(case.ty, T => open_mem().and_then(|mut r| {
        r.read_as::<T, shapefile::dbase::Record>().map(|v| v.into_iter().map(|(s, row)| conv((shapefile::Shape::from(s), row))).collect()).map_err(|e| err_kind(&e))
    }), unreachable!());
    let typed_iter: Result<Vec<(MRead, Option<i64>, Option<String>)>, String> = crate::with_ty!(case.ty, T => open_mem().and_then(|mut r| {
        let mut v = vec![];
        for it in r.iter_shapes_and_records_as::<T, shapefile::dbase::Record>() {
            match it {
                Ok((s, row)) => v.push(conv((shapefile::Shape::from(s), row))),
                Err(e) => return Err(err_kind(&e)),
            }
            if v.len() > cap {
                break;
            }
        }
        Ok(v)
    }), unreachable!());
    Obs { results, shp, shx, dbf, iter, read, missing, typed_read, typed_iter }
}

/// all-success histories through `Writer::write_shapes_and_records` (one call that consumes the writer): every
/// operation gets the result of that call
fn exec_bulk(pal: &Palette, ops: &[POp], env: &PEnv) -> Vec<CallRes> {
    let w = shapefile::Writer::new(shapefile::ShapeWriter::with_shx(env.shp.clone(), env.shx.clone()), table::table_writer(env.dbf.clone()));
    let rows: Vec<shapefile::dbase::Record> = (0..ops.len()).map(table::good_row).collect();
    env.set_call(0);
    let r = crate::with_ty!(pal.ty, T => {
        let shapes: Vec<T> = ops.iter().map(|op| match op {
            POp::Good(k) => <T as std::convert::TryFrom<shapefile::Shape>>::try_from(clone_shape(&pal.lib[*k as usize])).ok().expect("palette shape of the file type"),
            _ => unreachable!("bulk histories hold accepted pairs only"),
        }).collect();
        catch(move || w.write_shapes_and_records(shapes.iter().zip(rows.iter())))
    }, unreachable!());
    let one = match r {
        Ok(Ok(())) => CallRes::Ok,
        Ok(Err(e)) => CallRes::Err(err_kind(&e)),
        Err(p) => CallRes::Panic(p.sig()),
    };
    vec![one; ops.len()]
}

/// the palette whose shape a has (polygon and multipatch types) an empty part between two others, and an empty
/// last part
pub fn empty_part_palette(ty: Ty) -> Palette {
    let mut pal = Palette::new(ty, Some(other_of(ty)));
    if matches!(ty.family(), Family::Polygon | Family::Multipatch) {
        let mut m = pal.model[0].clone();
        let first = m.parts[0].clone();
        let mut second = first.clone();
        for q in second.pts.iter_mut() {
            q[0] += 32.0;
        }
        let empty = MPart { kind: first.kind, pts: vec![] };
        m.parts = vec![first, empty.clone(), second, empty];
        pal.lib[0] = to_lib(&m);
        pal.built[0] = from_lib(&pal.lib[0]);
        pal.model[0] = m;
    }
    pal
}

/// the palette with every measure of shape a replaced by the no-data value
pub fn nodata_palette(ty: Ty) -> Palette {
    let mut pal = Palette::new(ty, Some(other_of(ty)));
    if ty.carries_m() {
        let mut m = pal.model[0].clone();
        for p in m.parts.iter_mut() {
            for q in p.pts.iter_mut() {
                q[3] = NO_DATA;
            }
        }
        pal.lib[0] = to_lib(&m);
        pal.built[0] = from_lib(&pal.lib[0]);
        pal.model[0] = m;
    }
    pal
}

pub fn judge(pal: &Palette, case: &Case, o: &Obs) -> Vec<(String, String)> {
    let mut out = vec![];
    let nodata_pal;
    let pal = if case.variant == 1 {
        nodata_pal = nodata_palette(case.ty);
        &nodata_pal
    } else if case.variant == 4 {
        nodata_pal = empty_part_palette(case.ty);
        &nodata_pal
    } else {
        pal
    };
    let route = if case.disk { "disk" } else { "mem" };
    if !o.missing.is_empty() {
        out.push((format!("{}:companion-files", route), format!("written by path with the file name of the .shp given: {}", o.missing.join("; "))));
    }
    // the typed routes return the pairs the generic read returns
    for (name, typed) in [("read_as", &o.typed_read), ("iter_shapes_and_records_as", &o.typed_iter)] {
        let same = match (&o.read, typed) {
            (Ok(a), Ok(b)) => a.len() == b.len() && a.iter().zip(b).all(|(x, y)| super::c04::mread_eq(&x.0, &y.0) && x.1 == y.1 && x.2 == y.2),
            (Err(_), Err(_)) => true,
            _ => false,
        };
        if !same {
            out.push((
                format!("{}:typed-pairs-differ:{}", route, name),
                format!("{}::<{}, Record>() returned {:?}, read() returned {:?} (row indexes shown)", name, case.ty.name(), typed.as_ref().map(|v| v.iter().map(|x| x.1).collect::<Vec<_>>()), o.read.as_ref().map(|v| v.iter().map(|x| x.1).collect::<Vec<_>>())),
            ));
        }
    }
    // per-call results
    let mismatch = format!("MismatchShapeType(requested={},actual={})", case.ty.code(), other_of(case.ty).code());
    for (i, (op, r)) in case.ops.iter().zip(&o.results).enumerate() {
        let ok = match op {
            POp::Good(_) => *r == CallRes::Ok,
            POp::BadType => *r == CallRes::Err(mismatch.clone()),
            _ => matches!(r, CallRes::Err(e) if e.starts_with("DbaseError")),
        };
        if !ok {
            out.push((format!("{}:call-result:{}", route, op.name()), format!("op {} {} returned {:?}", i, op.name(), r)));
        }
    }
    if o.results.len() > case.ops.len() {
        out.push((format!("{}:drop-panicked", route), format!("{:?}", o.results.last())));
    }
    // accepted pairs: (palette index, op position)
    let accepted: Vec<(usize, usize)> = case
        .ops
        .iter()
        .enumerate()
        .filter_map(|(i, op)| match op {
            POp::Good(k) if o.results.get(i) == Some(&CallRes::Ok) => Some((*k as usize, i)),
            _ => None,
        })
        .collect();
    let n = accepted.len();
    let rejected_rows: Vec<&POp> = case.ops.iter().filter(|o| o.row_rejected()).collect();
    // entry counts, read by the harness itself (with stale content behind the new files a
    // Write + Seek destination cannot be truncated: what the headers declare is judged)
    let decl = |b: &[u8]| b.get(24..28).map(|x| i32::from_be_bytes(x.try_into().unwrap()) as i64 * 2).filter(|l| *l >= 100 && *l as usize <= b.len()).map(|l| l as usize);
    let (shp_v, shx_v): (&[u8], &[u8]) = match (case.prefill, decl(&o.shp), decl(&o.shx)) {
        (true, Some(a), Some(b)) => (&o.shp[..a], &o.shx[..b]),
        _ => (&o.shp[..], &o.shx[..]),
    };
    let df = codec::decode_file(shp_v, &DecodeOpts { strict: true });
    let n_shp = df.as_ref().map(|d| d.records.len() as i64).unwrap_or(-1);
    let n_shx = codec::decode_shx(shx_v).map(|(_, e)| e.len() as i64).unwrap_or(-1);
    // a table that never received a row is never given a header by dbase's writer until drop: it still is a valid empty table
    let n_dbf = table::dbf_declared_rows(&o.dbf).map(|x| x as i64).unwrap_or(-1);
    let counts_ok = n_shp == n as i64 && n_shx == n as i64 && n_dbf == n as i64;
    if !counts_ok {
        // the listed defect: the shape of a call whose row is rejected is already committed
        let known_shape = rejected_rows.len() as i64;
        if !rejected_rows.is_empty() && n_shp == n as i64 + known_shape && n_shx == n_shp && n_dbf == n as i64 {
            let mut kinds: Vec<&str> = rejected_rows.iter().map(|o| o.name()).collect();
            kinds.sort();
            kinds.dedup();
            // the .shp / .shx side must still be exactly "accepted shapes + the shapes of the row-rejected calls"
            let expect: Vec<MRead> = case
                .ops
                .iter()
                .enumerate()
                .filter_map(|(i, op)| match op {
                    POp::Good(k) if o.results.get(i) == Some(&CallRes::Ok) => Some(pal.built[*k as usize].clone()),
                    op if op.row_rejected() => Some(pal.built[0].clone()),
                    _ => None,
                })
                .collect();
            if let Some(c) = crate::oracle::shp_holds_exactly(shp_v, case.ty, &expect) {
                out.push((format!("{}:shp-content-after-rejected-row", route), c));
            }
            if let Err(e) = crate::oracle::shx_matches_shp(shp_v, shx_v) {
                out.push((format!("{}:shx-content-after-rejected-row", route), e));
            }
            out.push((
                format!("row-rejected-after-shape-committed:{}", kinds.join("+")),
                format!(
                    "{} pairs accepted, but .shp has {} records, .shx {} entries, .dbf declares {} rows: the shape of a call whose row was rejected stays in the .shp/.shx",
                    n, n_shp, n_shx, n_dbf
                ),
            ));
            return out;
        }
        out.push((
            format!("{}:entry-counts-differ", route),
            format!("{} pairs accepted; .shp {} records ({}), .shx {} entries, .dbf declares {} rows", n, n_shp, df.as_ref().err().cloned().unwrap_or_default(), n_shx, n_dbf),
        ));
        return out;
    }
    // byte-level content of .shp / .shx
    let handed: Vec<MRead> = accepted.iter().map(|(k, _)| pal.built[*k].clone()).collect();
    if let Some(c) = crate::oracle::shp_holds_exactly(shp_v, case.ty, &handed) {
        if !(n == 0 && c.starts_with("header-type")) {
            out.push((format!("{}:shp-content", route), c));
        }
    }
    if let Err(e) = crate::oracle::shx_matches_shp(shp_v, shx_v) {
        out.push((format!("{}:shx-content", route), e));
    }
    // the complete reader returns exactly the accepted pairs
    let check_pairs = |name: &str, got: &[(MRead, Option<i64>, Option<String>)], out: &mut Vec<(String, String)>| {
        if got.len() != n {
            out.push((format!("{}:{}:pair-count", route, name), format!("{} pairs returned, {} accepted", got.len(), n)));
            return;
        }
        for (j, ((k, pos), (s, idx, name_))) in accepted.iter().zip(got).enumerate() {
            if let Some(c) = super::c01_c02::cmp_read(&pal.built[*k], s) {
                out.push((format!("{}:{}:wrong-shape", route, name), format!("pair {}: {}", j, c)));
                return;
            }
            if *idx != Some(*pos as i64) || *name_ != Some(format!("row{}", pos)) {
                out.push((
                    format!("{}:{}:shape-row-misaligned", route, name),
                    format!("pair {}: shape of op {} came with row idx {:?} name {:?}", j, pos, idx, name_),
                ));
                return;
            }
        }
    };
    match &o.read {
        Ok(v) => check_pairs("read", v, &mut out),
        Err(e) => out.push((format!("{}:read:error", route), e.clone())),
    }
    match &o.iter {
        Ok(v) => {
            if let Some(e) = v.iter().find_map(|x| x.as_ref().err()) {
                out.push((format!("{}:iter:error", route), e.clone()));
            } else {
                let ok: Vec<_> = v.iter().map(|x| x.clone().unwrap()).collect();
                check_pairs("iter", &ok, &mut out);
            }
        }
        Err(e) => out.push((format!("{}:iter:open-error", route), e.clone())),
    }
    out
}

/// n pairs written by path, the table description taken from the finished data set, the same pairs written
/// again through `Writer::from_path_with_info`: the three files must be the same (date stamp masked).
pub fn with_info_verdicts(pal: &Palette, n: usize) -> Vec<(String, String)> {
    let dir = super::c01_c02::scratch_dir();
    let tid: String = format!("{:?}", std::thread::current().id()).chars().filter(|c| c.is_ascii_digit()).collect();
    let (p1, p2) = (dir.join(format!("c08i-{}-a.shp", tid)), dir.join(format!("c08i-{}-b.shp", tid)));
    let r = catch(|| -> Result<Vec<(String, String)>, String> {
        {
            let mut w = shapefile::Writer::from_path(&p1, table::builder()).map_err(|e| err_kind(&e))?;
            for i in 0..n {
                write_pair(&mut w, &pal.lib[i % 2], &table::good_row(i)).map_err(|e| err_kind(&e))?;
            }
        }
        let info = Reader::from_path(&p1).map_err(|e| err_kind(&e))?.into_table_info();
        {
            let mut w = shapefile::Writer::from_path_with_info(&p2, info).map_err(|e| err_kind(&e))?;
            for i in 0..n {
                write_pair(&mut w, &pal.lib[i % 2], &table::good_row(i)).map_err(|e| err_kind(&e))?;
            }
        }
        let mut out = vec![];
        for ext in ["shp", "shx", "dbf"] {
            let a = std::fs::read(p1.with_extension(ext)).map_err(|e| format!("{}: {}", ext, e))?;
            let b = std::fs::read(p2.with_extension(ext)).map_err(|e| format!("{}: {}", ext, e))?;
            let (a, b) = if ext == "dbf" { (table::mask_date(&a), table::mask_date(&b)) } else { (a, b) };
            if a != b {
                out.push((format!("with-info:{}-differs", ext), format!(".{} written through from_path_with_info has {} bytes, the original {} (first difference {:?})", ext, b.len(), a.len(), a.iter().zip(&b).position(|(x, y)| x != y))));
            }
        }
        let pairs = shapefile::read(&p2).map_err(|e| err_kind(&e))?;
        if pairs.len() != n || pairs.iter().enumerate().any(|(i, (_, row))| table::row_idx(row) != Some(i as i64)) {
            out.push(("with-info:pairs".to_string(), format!("{} pairs read back, rows {:?}", pairs.len(), pairs.iter().map(|(_, r)| table::row_idx(r)).collect::<Vec<_>>())));
        }
        Ok(out)
    });
    for p in [&p1, &p2] {
        for ext in ["shp", "shx", "dbf"] {
            let _ = std::fs::remove_file(p.with_extension(ext));
        }
    }
    match r {
        Ok(Ok(v)) => v,
        Ok(Err(e)) => vec![("with-info:call-failed".to_string(), e)],
        Err(p) => vec![(format!("with-info:{}", p.sig()), p.msg)],
    }
}

/// The complete writer over destinations of which operation k of the .shp (dev 0) resp. the .shx (dev 1) fails
/// once: when the failure did not fall into the final drop, the three files hold the pairs whose call returned Ok,
/// in order, shape i with row i.  None: the fault did not fire.
pub fn fault_verdicts(pal: &Palette, ops: &[POp], dev: u8, k: u64) -> Option<Vec<(String, String)>> {
    let env = PEnv::new();
    (if dev == 0 { &env.shp } else { &env.shx }).fail_at(k, crate::dev::FaultMode::OneShot);
    let results = exec_complete(pal, ops, &env);
    let fired: Vec<u32> = env.shp.fault_calls().into_iter().chain(env.shx.fault_calls()).collect();
    if fired.is_empty() {
        return None;
    }
    let mut out = vec![];
    for (i, r) in results.iter().enumerate() {
        if let CallRes::Panic(p) = r {
            out.push(("fault-run:panic".to_string(), format!("call {} panicked: {}", i, p)));
        }
    }
    if fired.iter().any(|c| *c as usize >= ops.len()) {
        return Some(out);
    }
    for c in &fired {
        if !matches!(results[*c as usize], CallRes::Err(_)) {
            out.push(("fault-run:failure-not-reported".to_string(), format!("operation {} of the .{} failed during call {}, which returned {:?}", k, ["shp", "shx"][dev as usize], c, results[*c as usize])));
        }
    }
    let accepted: Vec<(usize, usize)> = ops.iter().enumerate().filter_map(|(i, op)| match op {
        POp::Good(j) if results.get(i) == Some(&CallRes::Ok) => Some((*j as usize, i)),
        _ => None,
    }).collect();
    let (shp, shx, dbf) = (env.shp.data(), env.shx.data(), env.dbf.data());
    let decl = |b: &[u8]| b.get(24..28).map(|x| i32::from_be_bytes(x.try_into().unwrap()) as i64 * 2).filter(|l| *l >= 100 && *l as usize <= b.len()).map(|l| l as usize).unwrap_or(b.len());
    let (shp_v, shx_v) = (&shp[..decl(&shp)], &shx[..decl(&shx)]);
    let n_shp = codec::decode_file(shp_v, &DecodeOpts { strict: true }).map(|d| d.records.len() as i64).unwrap_or(-1);
    let n_shx = codec::decode_shx(shx_v).map(|(_, e)| e.len() as i64).unwrap_or(-1);
    let n_dbf = table::dbf_declared_rows(&dbf).map(|x| x as i64).unwrap_or(-1);
    let ctxt = format!("operation {} of the .{} failed once during call {:?}; results {:?}", k, ["shp", "shx"][dev as usize], fired, results);
    if n_shp != accepted.len() as i64 || n_shx != n_shp || n_dbf != n_shp {
        out.push(("fault-run:entry-counts-differ".to_string(), format!("{}: {} records / {} index entries / {} rows for {} accepted pairs", ctxt, n_shp, n_shx, n_dbf, accepted.len())));
        return Some(out);
    }
    let read = ShapeReader::with_shx(Dev::quiet(shp_v.to_vec()), Dev::quiet(shx_v.to_vec())).map_err(|e| err_kind(&e)).and_then(|sr| {
        let dr = shapefile::dbase::Reader::new(Dev::quiet(dbf.clone())).map_err(|e| format!("dbf: {}", e))?;
        Reader::new(sr, dr).read().map_err(|e| err_kind(&e))
    });
    match read {
        Err(e) => out.push(("fault-run:read-error".to_string(), format!("{}: {}", ctxt, e))),
        Ok(pairs) => {
            let ok = pairs.len() == accepted.len() && pairs.iter().zip(&accepted).all(|((s, row), (j, i))| super::c01_c02::cmp_read(&pal.built[*j], &from_lib(s)).is_none() && table::row_idx(row) == Some(*i as i64));
            if !ok {
                out.push(("fault-run:pairs-differ".to_string(), format!("{}: the reader returns rows {:?} for the accepted calls {:?}", ctxt, pairs.iter().map(|p| table::row_idx(&p.1)).collect::<Vec<_>>(), accepted.iter().map(|a| a.1).collect::<Vec<_>>())));
            }
        }
    }
    Some(out)
}

fn enabled(h: &Hist) -> Vec<u8> {
    if h.len() == CFG {
        vec![0, 1]
    } else {
        (0..POPS.len() as u8).collect()
    }
}

fn selftest(pals: &[Palette], types: &[Ty]) -> (u64, u64) {
    let case = Case { ty: types[1], disk: false, ops: vec![POp::Good(0), POp::BadType, POp::Good(1), POp::Good(0)], prefill: false, variant: 0 };
    let pal = &pals[1];
    if !judge(pal, &case, &observe(pal, &case)).is_empty() {
        return (1, 0);
    }
    let mut inj = 0;
    let mut det = 0;
    let mut t = |f: &dyn Fn(&mut Obs)| {
        let mut o = observe(pal, &case);
        f(&mut o);
        inj += 1;
        det += (!judge(pal, &case, &o).is_empty()) as u64;
    };
    t(&|o| {
        if let Ok(v) = &mut o.read {
            let a = v[0].1;
            v[0].1 = v[1].1;
            v[1].1 = a;
        }
    });
    t(&|o| {
        if let Ok(v) = &mut o.read {
            v.pop();
        }
    });
    t(&|o| {
        if let Ok(v) = &mut o.iter {
            v.swap(0, 2)
        }
    });
    t(&|o| o.dbf[4] += 1);
    t(&|o| {
        let n = o.shx.len();
        o.shx.truncate(n - 8);
        o.shx[27] -= 4;
    });
    t(&|o| o.results[1] = CallRes::Ok);
    t(&|o| o.results[2] = CallRes::Err("x".into()));
    (inj, det)
}

pub fn check(tier: Tier) -> i32 {
    let started = Instant::now();
    if !super::c01_c02::scratch_usable() {
        return 2;
    }
    let depth = tier.pick(5, 6);
    let types: Vec<Ty> = tier.pick(vec![Ty::Point, Ty::PointM, Ty::PolylineZ, Ty::PolygonM, Ty::MultipointZ, Ty::Multipatch, Ty::PolylineM, Ty::MultipointM], ALL13.to_vec());
    let pals: Arc<Vec<Palette>> = Arc::new(types.iter().map(|t| Palette::new(*t, Some(other_of(*t)))).collect());
    let mut inits = vec![];
    for t in 0..types.len() as u8 {
        inits.push(vec![t, 0]);
        inits.push(vec![t, 1]);
        inits.push(vec![t, 2]);
        inits.push(vec![t, 3]);
        inits.push(vec![t, 4]);
        inits.push(vec![t, 5]);
        inits.push(vec![t, 6]);
    }
    let (p2, ty2) = (pals.clone(), types.clone());
    let disk_depth = 3;
    let res = hist::explore(
        inits,
        CFG,
        depth,
        Arc::new(move |h| {
            if h[1] == 5 {
                // one bulk call: accepted pairs only, to the full depth
                vec![0, 1]
            } else if h[1] >= 1 && h.len() - CFG >= disk_depth {
                vec![]
            } else {
                enabled(h)
            }
        }),
        Arc::new(move |h, ctx| {
            let case = Case { ty: ty2[h[0] as usize], disk: h[1] == 1 || h[1] == 4, ops: h[CFG..].iter().map(|b| POPS[*b as usize]).collect(), prefill: h[1] == 2, variant: match h[1] { 3 => 1, 4 => 2, 5 => 3, 6 => 4, _ => 0 } };
            let pal = &p2[h[0] as usize];
            let mut hh = Fnv::new();
            hh.bytes(h);
            match catch(|| observe(pal, &case)) {
                Ok(o) => {
                    ctx.lib_calls += case.ops.len() as u64 * 2 + 4;
                    ctx.traces += 1;
                    let mut oh = Fnv::new();
                    oh.bytes(&o.shp);
                    oh.bytes(&table::mask_date(&o.dbf));
                    ctx.case_done(hh.finish(), case.ops.len() >= 2, oh.finish());
                    if case.ops.len() >= 3 && case.ops.iter().any(|o| *o == POp::BadType) {
                        ctx.sample(|| case.to_json());
                    }
                    for (sig, d) in judge(pal, &case, &o) {
                        ctx.violation(sig, || case.to_json(), || d);
                    }
                }
                Err(p) => {
                    ctx.case_done(hh.finish(), true, 1);
                    ctx.violation(format!("harness-or-drop-panic:{}", p.sig()), || case.to_json(), || format!("{}:{} {}", p.file, p.line, p.msg));
                }
            }
        }),
    );
    // record-count ladder around powers of two: all-success histories, far beyond the explorer's depth
    let mut ladder_ctx = Ctx::new();
    for (ti, ty) in types.iter().enumerate().take(3) {
        for n in crate::structs::COUNT_LADDER {
            let case = Case { ty: *ty, disk: n == 1025, ops: (0..n).map(|i| POp::Good(((i * 5 + i / 3) % 2) as u8)).collect(), prefill: n == 257, variant: 0 };
            let mut hh = Fnv::new();
            hh.str(&format!("ladder{}{}", ty.name(), n));
            match catch(|| observe(&pals[ti], &case)) {
                Ok(o) => {
                    ladder_ctx.lib_calls += 2 * n as u64 + 4;
                    ladder_ctx.traces += 1;
                    let mut oh = Fnv::new();
                    oh.bytes(&o.shx);
                    ladder_ctx.case_done(hh.finish(), true, oh.finish());
                    for (sig, d) in judge(&pals[ti], &case, &o) {
                        let cj = json!({"ty": case.ty.name(), "disk": case.disk, "ops": pops_name(&case.ops)});
                        ladder_ctx.violation(format!("ladder:{}", sig), || cj, || format!("{} pairs: {}", n, d));
                    }
                }
                Err(p) => ladder_ctx.violation(format!("ladder:harness-or-drop-panic:{}", p.sig()), || json!({"ty": ty.name(), "n": n}), || p.msg.clone()),
            }
        }
    }
    // the complete writer under every single fault on the .shp / .shx (all-pairs histories of up to 3 calls)
    for (ti, ty) in types.iter().enumerate() {
        for n in 1..=3usize {
            for t in crate::structs::tuples(2, n) {
                let ops: Vec<POp> = t.iter().map(|k| POp::Good(*k as u8)).collect();
                for dev in 0..2u8 {
                    let mut k = 0u64;
                    let mut misses = 0;
                    while misses < 6 {
                        let cj = json!({"ty": ty.name(), "fault_ops": pops_name(&ops), "fault_on": (["shp", "shx"][dev as usize]), "operation": k});
                        match catch(|| fault_verdicts(&pals[ti], &ops, dev, k)) {
                            Ok(None) => misses += 1,
                            Ok(Some(v)) => {
                                misses = 0;
                                let mut hh = Fnv::new();
                                hh.str(&cj.to_string());
                                ladder_ctx.case_done(hh.finish(), true, 15);
                                ladder_ctx.lib_calls += n as u64 + 3;
                                for (sig, d) in v {
                                    ladder_ctx.violation(sig, || cj.clone(), || d);
                                }
                            }
                            Err(p) => ladder_ctx.violation(format!("fault-run:{}", p.sig()), || cj.clone(), || p.msg.clone()),
                        }
                        k += 1;
                    }
                }
            }
        }
    }
    // a second data set created from the table description of the first (Reader::into_table_info,
    // Writer::from_path_with_info): same pairs in, same three files out
    for (ti, ty) in types.iter().enumerate() {
        for n in 1..=3usize {
            let cj = json!({"ty": ty.name(), "route": "from_path_with_info", "pairs": n});
            let mut hh = Fnv::new();
            hh.str(&cj.to_string());
            ladder_ctx.case_done(hh.finish(), true, 11);
            ladder_ctx.lib_calls += 2 * n as u64 + 4;
            for (sig, d) in with_info_verdicts(&pals[ti], n) {
                ladder_ctx.violation(sig, || cj.clone(), || d);
            }
        }
    }
    super::c01_c02::cleanup_scratch();
    // the self-test runs the library too: on a tree that panics there it counts as failed (a verdict, if there is one,
    // takes precedence over it)
    let st = catch(|| selftest(&pals, &types)).unwrap_or((1, 0));
    let mut ctxs = res.ctxs;
    ctxs.push(ladder_ctx);
    let agg = merge(ctxs);
    finish(
        RunInfo {
            prop: "C08",
            tier,
            level: "model_checking",
            engine: "E1 stateright BFS over write-call histories on the real complete Writer (three instrumented devices / from_path), read back with the real complete Reader",
            rule: "every history up to the depth bound over {OkA, OkB, BadType, RowMissingField, RowWrongType, RowWrongFirstField} (first call accepted), rows carry the position of their call; in memory to the full depth, through Writer::from_path + shapefile::read / Reader::from_path (over paths that already hold longer files, next to the companion files of a data set whose name differs by case only; also with a file name that has several dots, the companion files being looked up under their proper names) and into in-memory buffers that already hold longer stale content, and with a shape whose measures are all no-data resp. with empty parts in the middle and at the end, each to depth 3; all-success histories also through one write_shapes_and_records call; all-success histories of up to 3 calls under every single fault on the .shp / .shx (the files then hold the pairs whose call returned Ok); a second data set created through Reader::into_table_info + Writer::from_path_with_info gives the same three files; every file read back through read, iter_shapes_and_records and their typed forms read_as / iter_shapes_and_records_as; plus all-success histories of 255..2049 pairs (record-count ladder around powers of two, 1025 also by path); non-trivial = >= 2 calls",
            bounds: json!({"depth": depth, "disk_depth": disk_depth, "types": types.iter().map(|t| t.name()).collect::<Vec<_>>(), "alphabet": POPS.iter().map(|p| p.name()).collect::<Vec<_>>()}),
            exhaustive: true,
            assumptions: vec!["dbf tables without deleted rows; entry counts are read by the harness from the raw bytes (RefCodec scan, .shx parse, .dbf header bytes 4..8)".into()],
            started,
            states: res.unique_states,
            transitions: res.states_generated,
            selftest: st,
            extra: Default::default(),
        },
        agg,
        false,
    )
}

pub fn replay(v: &Value) -> Vec<(String, String)> {
    if let Some(o) = v.get("fault_ops").and_then(|x| x.as_str()) {
        let parsed = (|| Some((Ty::from_name(v.get("ty")?.as_str()?)?, pops_from_name(o)?, if v.get("fault_on")?.as_str()? == "shp" { 0u8 } else { 1u8 }, v.get("operation")?.as_u64()?)))();
        return match parsed {
            Some((ty, ops, dev, k)) => fault_verdicts(&Palette::new(ty, Some(other_of(ty))), &ops, dev, k).unwrap_or_default(),
            None => vec![("bad-replay-file".into(), "cannot parse case".into())],
        };
    }
    if v.get("route").and_then(|x| x.as_str()) == Some("from_path_with_info") {
        return match (v.get("ty").and_then(|x| x.as_str()).and_then(Ty::from_name), v.get("pairs").and_then(|x| x.as_u64())) {
            (Some(ty), Some(n)) => {
                let r = with_info_verdicts(&Palette::new(ty, Some(other_of(ty))), n as usize);
                super::c01_c02::cleanup_scratch();
                r
            }
            _ => vec![("bad-replay-file".into(), "cannot parse case".into())],
        };
    }
    match Case::from_json(v) {
        None => vec![("bad-replay-file".into(), "cannot parse case".into())],
        Some(case) => {
            let pal = Palette::new(case.ty, Some(other_of(case.ty)));
            let r = match catch(|| observe(&pal, &case)) {
                Ok(o) => judge(&pal, &case, &o),
                Err(p) => vec![(format!("harness-or-drop-panic:{}", p.sig()), p.msg)],
            };
            super::c01_c02::cleanup_scratch();
            r
        }
    }
}
