//! C15: reader results do not depend on what was called before.
//! Engine E1; oracle = RefReader, a set-valued cursor model.

use crate::bridge::*;
use crate::dev::Dev;
use crate::engine::*;
use crate::hist::{self, Hist};
use crate::iterprog::{self, Prog, PROGS};
use crate::model::*;
use crate::table;
use serde_json::{json, Value};
use shapefile::{Reader, Shape, ShapeReader, ShapeWriter, Writer};
use std::sync::Arc;
use std::time::Instant;

const CFG: usize = 3;
pub const N: usize = 3;
const ALL: usize = 99;

#[derive(Clone, Copy, Debug, PartialEq, Eq)]
pub enum ROp {
    /// create an iterator, take j items (ALL = until it ends), drop it
    Iter(usize),
    Nth(usize),
    Seek(usize),
    Count,
    /// complete Reader only: read()
    ReadAll,
    /// create an iterator and drive it with a program of std adaptors (nth, skip, step_by, last, count)
    Prog(Prog),
    /// one item of an iteration that asks for another concrete type than the file holds: an error item
    WrongType,
    /// random access that asks for another concrete type than the file holds: a type-mismatch error (readers with an index)
    NthWrong(usize),
}

fn op_name(o: &ROp) -> String {
    match o {
        ROp::Iter(ALL) => "Iter(all)".into(),
        ROp::Iter(j) => format!("Iter({})", j),
        ROp::Nth(i) => format!("Nth({})", i),
        ROp::Seek(k) => format!("Seek({})", k),
        ROp::Count => "Count".into(),
        ROp::ReadAll => "ReadAll".into(),
        ROp::Prog(p) => format!("Iter[{}]", p.name()),
        ROp::WrongType => "IterAsAnotherType(1)".into(),
        ROp::NthWrong(i) => format!("NthAsAnotherType({})", i),
    }
}
fn op_from(s: &str) -> Option<ROp> {
    let all: Vec<ROp> = (0..3).map(ROp::Iter).chain([ROp::Iter(ALL)]).chain((0..=N).map(ROp::Nth)).chain((0..=N).map(ROp::Seek)).chain([ROp::Count, ROp::ReadAll]).chain(PROGS.iter().map(|p| ROp::Prog(*p))).chain([ROp::WrongType]).chain((0..=N).map(ROp::NthWrong)).collect();
    all.into_iter().find(|o| op_name(o) == s)
}

/// action codes
const WRONG: u8 = 14 + PROGS.len() as u8;
/// NWRONG + i = NthWrong(i), i in 0..=N
const NWRONG: u8 = WRONG + 1;
fn decode(b: u8) -> ROp {
    match b {
        0..=2 => ROp::Iter(b as usize),
        3 => ROp::Iter(ALL),
        4..=7 => ROp::Nth(b as usize - 4),
        8..=11 => ROp::Seek(b as usize - 8),
        12 => ROp::Count,
        13 => ROp::ReadAll,
        WRONG => ROp::WrongType,
        b if b >= NWRONG => ROp::NthWrong((b - NWRONG) as usize),
        _ => ROp::Prog(PROGS[b as usize - 14]),
    }
}

#[derive(Clone, Copy, Debug, PartialEq, Eq)]
pub enum Kind {
    ShapeReaderShx,
    Complete,
    ShapeReaderNoShx,
    /// the complete reader (shapes + attribute rows) over a shape reader that has no index
    CompleteNoShx,
}
const KINDS: [Kind; 4] = [Kind::ShapeReaderShx, Kind::Complete, Kind::ShapeReaderNoShx, Kind::CompleteNoShx];

#[derive(Clone, Debug)]
pub struct Case {
    pub kind: Kind,
    /// 0: records of pairwise different sizes, 1: equal sizes (both as the library writes them),
    /// 2: fillers before / between the records and physical order [2,0,1] (RefCodec-built), sources
    /// that return at most 3 bytes per read
    pub layout: u8,
    pub ty: Ty,
    pub ops: Vec<ROp>,
}

impl Case {
    fn from_hist(h: &Hist, types: &[Ty]) -> Case {
        Case { kind: KINDS[h[0] as usize], layout: h[1], ty: types[h[2] as usize], ops: h[CFG..].iter().map(|b| decode(*b)).collect() }
    }
    pub fn to_json(&self) -> Value {
        json!({"reader": format!("{:?}", self.kind), "layout": self.layout, "ty": self.ty.name(),
               "ops": self.ops.iter().map(op_name).collect::<Vec<_>>()})
    }
    pub fn from_json(v: &Value) -> Option<Case> {
        Some(Case {
            kind: *KINDS.iter().find(|k| format!("{:?}", k) == v.get("reader").and_then(|x| x.as_str()).unwrap_or(""))?,
            layout: v.get("layout").and_then(|x| x.as_u64()).unwrap_or(0) as u8,
            ty: Ty::from_name(v.get("ty")?.as_str()?)?,
            ops: v.get("ops")?.as_array()?.iter().map(|x| op_from(x.as_str()?)).collect::<Option<Vec<_>>>()?,
        })
    }
}

/// The three files of a fixture: bytes + the records as constructed.
pub struct Fixture {
    /// layout 3: (byte offset, bytes) of the header and of every record on the sparse source
    pub far: Vec<(u64, Vec<u8>)>,
    pub shp: Vec<u8>,
    pub shx: Vec<u8>,
    pub dbf: Vec<u8>,
    pub recs: Vec<MRead>,
}

pub fn fixture(ty: Ty, layout: u8) -> Fixture {
    let equal_sizes = layout == 1;
    let shapes: Vec<MShape> = if equal_sizes || ty.family() == Family::Point {
        let base = crate::structs::reduced_set(ty)[0].clone();
        (0..N)
            .map(|k| {
                let mut s = base.clone();
                for p in s.parts.iter_mut() {
                    for q in p.pts.iter_mut() {
                        q[0] += 64.0 * k as f64;
                    }
                }
                s
            })
            .collect()
    } else {
        crate::structs::abc(ty).to_vec()
    };
    let libs: Vec<Shape> = shapes.iter().map(to_lib).collect();
    let (a, b, c) = (Dev::quiet(vec![]), Dev::quiet(vec![]), Dev::quiet(vec![]));
    {
        let mut w = Writer::new(ShapeWriter::with_shx(a.clone(), b.clone()), table::table_writer(c.clone()));
        for (i, s) in libs.iter().enumerate() {
            write_pair(&mut w, s, &table::good_row(i)).expect("fixture write");
        }
    }
    let recs: Vec<MRead> = libs.iter().map(from_lib).collect();
    if layout == 3 {
        use crate::refmodel::codec::{self, MBody};
        let offs = [3 * (1u64 << 30) + 512, 100u64, (1u64 << 31) + 65536];
        let mut hdr = codec::encode_header(0, ty.code(), &[0.0; 8]);
        hdr[24..28].copy_from_slice(&(((((1u64 << 32) - 2) / 2) as u32) as i32).to_be_bytes());
        let mut far = vec![(0u64, hdr)];
        let mut shx = codec::encode_header(50 + 12, ty.code(), &[0.0; 8]);
        for (i, r) in recs.iter().enumerate() {
            let body = MBody::Shape { shape: r.shape.clone(), bbox: r.bbox.unwrap_or(codec::true_bbox(&r.shape)), with_m: true };
            let mut f = vec![];
            let content = codec::encode_content(&body, &mut f, 0, 0);
            let mut d = vec![];
            d.extend((i as i32 + 1).to_be_bytes());
            d.extend(((content.len() / 2) as i32).to_be_bytes());
            shx.extend(((offs[i] / 2) as u32 as i32).to_be_bytes());
            shx.extend(((content.len() / 2) as i32).to_be_bytes());
            d.extend(content);
            far.push((offs[i], d));
        }
        return Fixture { far, shp: vec![], shx, dbf: c.data(), recs };
    }
    if layout == 2 {
        // the same records, stored out of order with fillers, located by the index alone
        use crate::refmodel::codec::{self, MBody, MRecord};
        let enc_rec = |i: usize| -> Vec<u8> {
            let r = &recs[i];
            let body = MBody::Shape { shape: r.shape.clone(), bbox: r.bbox.unwrap_or(codec::true_bbox(&r.shape)), with_m: true };
            let mut f = vec![];
            let content = codec::encode_content(&body, &mut f, 0, 0);
            let mut d = vec![];
            d.extend((i as i32 + 1).to_be_bytes());
            d.extend(((content.len() / 2) as i32).to_be_bytes());
            d.extend(content);
            let _ = MRecord { number: 0, body: MBody::Null };
            d
        };
        let order = [2usize, 0, 1];
        let gaps = [6usize, 14, 0, 8];
        let mut body: Vec<u8> = vec![];
        let mut offs = [0usize; 3];
        let mut lens = [0usize; 3];
        for (slot, &i) in order.iter().enumerate() {
            body.extend(std::iter::repeat(0xEEu8).take(gaps[slot]));
            let e = enc_rec(i);
            offs[i] = 100 + body.len();
            lens[i] = e.len() - 8;
            body.extend(e);
        }
        body.extend(std::iter::repeat(0xEEu8).take(gaps[3]));
        let mut shp = codec::encode_header(((100 + body.len()) / 2) as i32, ty.code(), &[0.0; 8]);
        shp.extend(body);
        let mut shx = codec::encode_header(50 + 12, ty.code(), &[0.0; 8]);
        for i in 0..3 {
            shx.extend(((offs[i] / 2) as i32).to_be_bytes());
            shx.extend(((lens[i] / 2) as i32).to_be_bytes());
        }
        return Fixture { far: vec![], shp, shx, dbf: c.data(), recs };
    }
    Fixture { far: vec![], shp: a.data(), shx: b.data(), dbf: c.data(), recs }
}

/// One observed answer.
#[derive(Clone, Debug, PartialEq)]
pub enum Ans {
    /// items yielded (index of the matching record, or an error / mismatch description), and whether the iterator ended
    Items(Vec<Result<usize, String>>, bool),
    Nth(Option<Result<usize, String>>),
    Unit(Result<(), String>),
    Count(Result<usize, String>),
    Prog(iterprog::Out<Result<usize, String>>),
}

fn which(recs: &[MRead], got: &MRead) -> Result<usize, String> {
    recs.iter().position(|r| super::c01_c02::cmp_read(r, got).is_none()).ok_or_else(|| "a shape that is not in the file".to_string())
}

fn take_items(it: &mut dyn Iterator<Item = Result<usize, String>>, j: usize) -> Ans {
    let mut v = vec![];
    let mut ended = false;
    let want = if j == ALL { N + 3 } else { j };
    while v.len() < want {
        match it.next() {
            None => {
                ended = true;
                break;
            }
            Some(x) => v.push(x),
        }
    }
    Ans::Items(v, ended)
}

fn drive<T: std::io::Read + std::io::Seek>(r: &mut ShapeReader<T>, ops: &[ROp], recs: &[MRead], out: &mut Vec<Ans>) {
    for op in ops {
        out.push(match op {
            ROp::Iter(j) => {
                let mut it = r.iter_shapes().map(|x| x.map_err(|e| err_kind(&e)).and_then(|s| which(recs, &from_lib(&s))));
                take_items(&mut it, *j)
            }
            ROp::Nth(i) => Ans::Nth(r.read_nth_shape(*i).map(|x| x.map_err(|e| err_kind(&e)).and_then(|s| which(recs, &from_lib(&s))))),
            ROp::Seek(k) => Ans::Unit(r.seek(*k).map_err(|e| err_kind(&e))),
            ROp::Count => Ans::Count(r.shape_count().map_err(|e| err_kind(&e))),
            ROp::ReadAll => unreachable!(),
            ROp::NthWrong(i) => {
                let a = if recs[0].shape.ty.family() == Family::Point { crate::with_ty!(Ty::PolygonZ, S => r.read_nth_shape_as::<S>(*i).map(|x| x.map(|_| usize::MAX).map_err(|e| err_kind(&e))), unreachable!()) } else { r.read_nth_shape_as::<shapefile::Point>(*i).map(|x| x.map(|_| usize::MAX).map_err(|e| err_kind(&e))) };
                Ans::Nth(a)
            }
            ROp::WrongType => {
                let first = if recs[0].shape.ty.family() == Family::Point { crate::with_ty!(Ty::PolygonZ, S => r.iter_shapes_as::<S>().next().map(|x| x.map(|_| usize::MAX).map_err(|e| err_kind(&e))), unreachable!()) } else { r.iter_shapes_as::<shapefile::Point>().next().map(|x| x.map(|_| usize::MAX).map_err(|e| err_kind(&e))) };
                match first {
                    None => Ans::Items(vec![], true),
                    Some(x) => Ans::Items(vec![x], false),
                }
            }
            ROp::Prog(p) => {
                // the program runs on the library's iterator itself (a `map` in between would hide an overridden method)
                let o = iterprog::run(r.iter_shapes(), *p, N + 3);
                Ans::Prog(iterprog::Out {
                    answers: o.answers.into_iter().map(|a| a.map(|x| x.map_err(|e| err_kind(&e)).and_then(|s| which(recs, &from_lib(&s))))).collect(),
                    count: o.count,
                })
            }
        });
    }
}

pub fn observe(case: &Case, fx: &Fixture) -> Vec<Ans> {
    let mut out = vec![];
    let src = |b: &Vec<u8>| {
        let d = Dev::quiet(b.clone());
        if case.layout == 2 {
            d.set_chunking(crate::dev::Chunking::Uniform(3));
        }
        d
    };
    let collect_items = |it: &mut dyn Iterator<Item = Result<usize, String>>, j: usize| -> Ans {
        let mut v = vec![];
        let mut ended = false;
        let want = if j == ALL { N + 3 } else { j };
        while v.len() < want {
            match it.next() {
                None => {
                    ended = true;
                    break;
                }
                Some(x) => v.push(x),
            }
        }
        Ans::Items(v, ended)
    };
    match case.kind {
        Kind::ShapeReaderShx if case.layout == 3 => {
            // the records live beyond 2 GiB and 3 GiB on a sparse source
            let mut r = ShapeReader::with_shx(crate::sparse::Sparse { chunks: fx.far.clone(), len: (1u64 << 32) - 2, filler: 0xEE, pos: 0 }, Dev::quiet(fx.shx.clone())).expect("open");
            drive(&mut r, &case.ops, &fx.recs, &mut out);
        }
        Kind::ShapeReaderShx | Kind::ShapeReaderNoShx => {
            let mut r = if case.kind == Kind::ShapeReaderShx {
                ShapeReader::with_shx(src(&fx.shp), src(&fx.shx)).expect("open")
            } else {
                ShapeReader::new(src(&fx.shp)).expect("open")
            };
            drive(&mut r, &case.ops, &fx.recs, &mut out);
        }
        Kind::Complete | Kind::CompleteNoShx => {
            let sr = if case.kind == Kind::Complete { ShapeReader::with_shx(src(&fx.shp), src(&fx.shx)).expect("open") } else { ShapeReader::new(src(&fx.shp)).expect("open") };
            let dr = shapefile::dbase::Reader::new(Dev::quiet(fx.dbf.clone())).expect("open dbf");
            let mut r = Reader::new(sr, dr);
            let pair = |x: Result<(Shape, shapefile::dbase::Record), shapefile::Error>, recs: &[MRead]| -> Result<usize, String> {
                let (s, row) = x.map_err(|e| err_kind(&e))?;
                let i = which(recs, &from_lib(&s))?;
                match table::row_idx(&row) {
                    Some(k) if k as usize == i && table::row_name(&row) == Some(format!("row{}", i)) => Ok(i),
                    k => Err(format!("shape {} paired with row {:?}", i, k)),
                }
            };
            for op in &case.ops {
                out.push(match op {
                    ROp::Iter(j) => {
                        let mut it = r.iter_shapes_and_records().map(|x| pair(x, &fx.recs));
                        collect_items(&mut it, *j)
                    }
                    ROp::ReadAll => match r.read() {
                        Ok(v) => Ans::Items(v.into_iter().map(|p| pair(Ok(p), &fx.recs)).collect(), true),
                        Err(e) => Ans::Items(vec![Err(err_kind(&e))], true),
                    },
                    ROp::Seek(k) => Ans::Unit(r.seek(*k).map_err(|e| err_kind(&e))),
                    ROp::Count => Ans::Count(r.shape_count().map_err(|e| err_kind(&e))),
                    ROp::Nth(_) | ROp::NthWrong(_) => unreachable!(),
                    ROp::WrongType => {
                        let first = if fx.recs[0].shape.ty.family() == Family::Point { crate::with_ty!(Ty::PolygonZ, S => r.iter_shapes_and_records_as::<S, shapefile::dbase::Record>().next().map(|x| x.map(|_| usize::MAX).map_err(|e| err_kind(&e))), unreachable!()) } else { r.iter_shapes_and_records_as::<shapefile::Point, shapefile::dbase::Record>().next().map(|x| x.map(|_| usize::MAX).map_err(|e| err_kind(&e))) };
                        match first {
                            None => Ans::Items(vec![], true),
                            Some(x) => Ans::Items(vec![x], false),
                        }
                    }
                    ROp::Prog(p) => {
                        let o = iterprog::run(r.iter_shapes_and_records(), *p, N + 3);
                        Ans::Prog(iterprog::Out { answers: o.answers.into_iter().map(|a| a.map(|x| pair(x, &fx.recs))).collect(), count: o.count })
                    }
                });
            }
        }
    }
    out
}

/// RefReader: the set P of positions a new iteration may start from.
pub fn judge(case: &Case, answers: &[Ans]) -> Vec<(String, String)> {
    let mut p: Vec<usize> = vec![0];
    let indexed = matches!(case.kind, Kind::ShapeReaderShx | Kind::Complete);
    let mut prev_kind = "fresh";
    let kind = format!("{:?}", case.kind);
    for (i, (op, ans)) in case.ops.iter().zip(answers).enumerate() {
        let fail = |what: &str, detail: String| -> Vec<(String, String)> {
            vec![(format!("{}:{}-after-{}", kind, what, prev_kind), format!("op {} {}: {}", i, op_name(op), detail))]
        };
        match (op, ans) {
            (ROp::Iter(_), Ans::Items(items, ended)) | (ROp::ReadAll, Ans::Items(items, ended)) => {
                let j = j_of(op);
                // every item must be Ok and in order from some p in P
                let mut idx = vec![];
                for it in items {
                    match it {
                        Ok(k) => idx.push(*k),
                        Err(e) => return fail("iteration-error", format!("yielded Err({}) (items before: {:?}; may start from {:?})", e, idx, p)),
                    }
                }
                let mut matched: Vec<usize> = vec![];
                for &start in &p {
                    let avail = N - start.min(N);
                    let want = if j == ALL { avail } else { j.min(avail) };
                    let expect: Vec<usize> = (start..start + want).collect();
                    let ends_ok = if j == ALL { *ended } else { idx.len() == want };
                    if idx == expect && ends_ok {
                        matched.push(start + want);
                    }
                }
                if matched.is_empty() {
                    return fail(
                        "iteration-sequence",
                        format!("yielded records {:?}{} but a new iteration may only start from {:?} and run in order", idx, if *ended { " then ended" } else { "" }, p),
                    );
                }
                matched.push(0);
                matched.sort_unstable();
                matched.dedup();
                p = matched;
                prev_kind = if j == ALL { "full-iteration" } else { "partial-iteration" };
            }
            (ROp::WrongType, Ans::Items(items, _)) => {
                // from a position with a record left: one error item (a type mismatch), the record and its row are
                // consumed; from the end: nothing
                let mut matched: Vec<usize> = vec![];
                for &start in &p {
                    let ok = if start < N { items.len() == 1 && matches!(&items[0], Err(e) if e.starts_with("MismatchShapeType")) } else { items.is_empty() };
                    if ok {
                        // (whether the record that could not be delivered counts as consumed is the reader's choice)
                        matched.push(start.min(N));
                        matched.push((start + 1).min(N));
                    }
                }
                if matched.is_empty() {
                    return fail("typed-item", format!("yielded {:?}; a new iteration may only start from {:?}", items, p));
                }
                matched.push(0);
                matched.sort_unstable();
                matched.dedup();
                p = matched;
                prev_kind = "mismatch-item";
            }
            (ROp::Prog(pr), Ans::Prog(o)) => {
                let mut matched: Vec<usize> = vec![];
                let mut expected = vec![];
                for &start in &p {
                    let (want, newpos) = iterprog::reference(start, N, *pr, N + 3);
                    let same = want.count == o.count
                        && want.answers.len() == o.answers.len()
                        && want.answers.iter().zip(&o.answers).all(|(w, g)| match (w, g) {
                            (None, None) => true,
                            (Some(k), Some(Ok(j))) => k == j,
                            _ => false,
                        });
                    if same {
                        matched.push(newpos);
                    }
                    expected.push((start, want));
                }
                if matched.is_empty() {
                    return fail(
                        "adaptor",
                        format!("the calls returned {:?} (count {:?}); over the records from a legal starting position they return {:?}", o.answers, o.count, expected.iter().map(|(s, w)| format!("from {}: {:?} count {:?}", s, w.answers, w.count)).collect::<Vec<_>>()),
                    );
                }
                matched.push(0);
                matched.sort_unstable();
                matched.dedup();
                p = matched;
                prev_kind = "adaptor-iteration";
            }
            (ROp::Nth(k), Ans::Nth(a)) => {
                if !indexed {
                    if !matches!(a, Some(Err(e)) if e == "MissingIndexFile") {
                        return fail("random-access", format!("{:?} without an index", a));
                    }
                } else if *k < N {
                    if *a != Some(Ok(*k)) {
                        return fail("random-access", format!("returned {:?}, expected record {}", a, k));
                    }
                    p = vec![0];
                    prev_kind = "random-access";
                } else if a.is_some() {
                    return fail("random-access", format!("returned {:?} beyond the end", a));
                }
            }
            (ROp::NthWrong(k), Ans::Nth(a)) => {
                // a random access that cannot deliver its record: a type-mismatch error inside the index, nothing beyond
                // it; what was not consumed is still not consumed, and a restart from the first record is allowed
                if *k < N {
                    if !matches!(a, Some(Err(e)) if e.starts_with("MismatchShapeType")) {
                        return fail("typed-random-access", format!("returned {:?}, expected a type-mismatch error", a));
                    }
                    p.push(0);
                    p.sort_unstable();
                    p.dedup();
                    prev_kind = "mismatch-random-access";
                } else if a.is_some() {
                    return fail("typed-random-access", format!("returned {:?} beyond the end", a));
                }
            }
            (ROp::Seek(k), Ans::Unit(a)) => {
                if !indexed {
                    if !matches!(a, Err(e) if e == "MissingIndexFile") {
                        return fail("seek", format!("{:?} without an index", a));
                    }
                } else {
                    if a.is_err() {
                        return fail("seek", format!("{:?}", a));
                    }
                    p = vec![*k];
                    prev_kind = "seek";
                }
            }
            (ROp::Count, Ans::Count(a)) => {
                if indexed && *a != Ok(N) {
                    return fail("count", format!("{:?}", a));
                }
                if !indexed && !matches!(a, Err(e) if e == "MissingIndexFile") {
                    return fail("count", format!("{:?} without an index", a));
                }
            }
            _ => return fail("harness", "answer kind does not match the operation".into()),
        }
    }
    vec![]
}

fn j_of(op: &ROp) -> usize {
    match op {
        ROp::Iter(j) => *j,
        _ => ALL,
    }
}

/// `progs`: indices into PROGS of the adaptor programs in the alphabet
/// `nwrong`: the indices i for which NthWrong(i) is in the alphabet (shape reader with an index)
fn enabled(h: &Hist, progs: &[u8], nwrong: &[u8]) -> Vec<u8> {
    let p = progs.iter().map(|i| 14 + *i);
    match KINDS[h[0] as usize] {
        Kind::ShapeReaderShx => (0..13).chain(p).chain([WRONG]).chain(nwrong.iter().map(|i| NWRONG + *i)).collect(),
        Kind::Complete => [0, 1, 2, 3, 8, 9, 10, 11, 12, 13].into_iter().chain(p).chain([WRONG]).collect(),
        Kind::ShapeReaderNoShx => [0, 1, 2, 3, 4, 8, 12].into_iter().chain(p).collect(),
        Kind::CompleteNoShx => [0, 1, 2, 3, 8, 12, 13].into_iter().chain(p).collect(),
    }
}

fn selftest(fx: &Fixture) -> (u64, u64) {
    let mut inj = 0;
    let mut det = 0;
    let case = Case { kind: Kind::ShapeReaderShx, layout: 0, ty: Ty::Polyline, ops: vec![ROp::Seek(1), ROp::Iter(1), ROp::Iter(ALL), ROp::Nth(2), ROp::Iter(ALL), ROp::Count] };
    // a conforming answer sheet, written by hand from the statement
    let good = vec![
        Ans::Unit(Ok(())),
        Ans::Items(vec![Ok(1)], false),
        Ans::Items(vec![Ok(2)], true),
        Ans::Nth(Some(Ok(2))),
        Ans::Items(vec![Ok(0), Ok(1), Ok(2)], true),
        Ans::Count(Ok(3)),
    ];
    if !judge(&case, &good).is_empty() {
        return (1, 0);
    }
    // the other legal continuation of a further iteration: all from the first
    let mut alt = good.clone();
    alt[2] = Ans::Items(vec![Ok(0), Ok(1), Ok(2)], true);
    if !judge(&case, &alt).is_empty() {
        return (1, 0);
    }
    let tampers: Vec<Box<dyn Fn(&mut Vec<Ans>)>> = vec![
        Box::new(|a| a[1] = Ans::Items(vec![Ok(0)], false)),
        Box::new(|a| a[2] = Ans::Items(vec![Ok(1), Ok(2)], true)),
        Box::new(|a| a[2] = Ans::Items(vec![Ok(2), Ok(1)], true)),
        Box::new(|a| a[2] = Ans::Items(vec![Ok(2), Err("IoError".into())], true)),
        Box::new(|a| a[3] = Ans::Nth(Some(Ok(1)))),
        Box::new(|a| a[4] = Ans::Items(vec![Ok(2), Ok(1), Ok(2)], true)),
        Box::new(|a| a[4] = Ans::Items(vec![Ok(0), Ok(1)], true)),
        Box::new(|a| a[5] = Ans::Count(Ok(2))),
        Box::new(|a| a[4] = Ans::Items(vec![Ok(0), Ok(1), Ok(2), Ok(0)], false)),
    ];
    for t in tampers {
        let mut a = good.clone();
        t(&mut a);
        inj += 1;
        det += (!judge(&case, &a).is_empty()) as u64;
    }
    let _ = fx;
    (inj, det)
}

pub fn check(tier: Tier) -> i32 {
    let started = Instant::now();
    let types: Vec<Ty> = tier.pick(vec![Ty::PointM, Ty::Polyline, Ty::PolygonZ, Ty::Multipatch], vec![Ty::Point, Ty::PointZ, Ty::Polyline, Ty::PolylineM, Ty::PolygonZ, Ty::MultipointZ, Ty::Multipatch]);
    let mut fxs = vec![];
    for t in &types {
        fxs.push([fixture(*t, 0), fixture(*t, 1), fixture(*t, 2), fixture(*t, 3)]);
    }
    let fxs = Arc::new(fxs);
    let mut inits = vec![];
    for k in 0..4u8 {
        for e in 0..4u8 {
            // the gapped / permuted layout needs the index; the far-offset layout is driven through ShapeReader with index
            if (e == 2 && k >= 2) || (e == 3 && k != 0) {
                continue;
            }
            for t in 0..types.len() as u8 {
                inits.push(vec![k, e, t]);
            }
        }
    }
    // quick: depth 4 over the whole alphabet; thorough: depth 5 with five adaptor programs, then depth 4 with all
    let all_progs: Vec<u8> = (0..PROGS.len() as u8).collect();
    let five: Vec<u8> = [Prog::NthNext(1), Prog::NextNthNext(0), Prog::Skip(2), Prog::StepBy(2), Prog::NextLast].iter().map(|p| PROGS.iter().position(|q| q == p).unwrap() as u8).collect();
    // (the depth-5 passes run one reader kind at a time: one visited set for all of them outgrows a single allocation)
    // (and, since the alphabet grew in round 8, one type at a time)
    let mut deep: Vec<(usize, Vec<u8>, Option<(u8, u8)>)> = vec![];
    for k in 0..4u8 {
        for t in 0..types.len() as u8 {
            deep.push((5, five.clone(), Some((k, t))));
            deep.push((4, all_progs.clone(), Some((k, t))));
        }
    }
    let passes: Vec<(usize, Vec<u8>, Option<(u8, u8)>)> = tier.pick(vec![(4, all_progs.clone(), None)], deep);
    let mut ctxs = vec![];
    let (mut unique_states, mut states_generated) = (0u64, 0u64);
    for (depth, progs, only_kind) in passes {
        let inits: Vec<Hist> = inits.iter().filter(|h| only_kind.map(|(k, t)| h[0] == k && h[2] == t).unwrap_or(true)).cloned().collect();
        let f2 = fxs.clone();
        let ty2 = types.clone();
        let res = hist::explore(
            inits.clone(),
            CFG,
            depth,
            Arc::new(move |h: &Hist| enabled(h, &progs, if depth >= 5 || only_kind.is_none() { &[2] } else { &[1, 2] })),
            Arc::new(move |h, ctx| {
                let case = Case::from_hist(h, &ty2);
                let fx = &f2[h[2] as usize][case.layout as usize];
                let mut hh = Fnv::new();
                hh.bytes(h);
                match catch(|| observe(&case, fx)) {
                    Ok(ans) => {
                        ctx.lib_calls += case.ops.len() as u64 + 1;
                        ctx.traces += 1;
                        let mut oh = Fnv::new();
                        oh.str(&format!("{:?}", ans));
                        ctx.case_done(hh.finish(), case.ops.len() >= 2, oh.finish());
                        if case.ops.len() >= 3 {
                            ctx.sample(|| case.to_json());
                        }
                        for (sig, d) in judge(&case, &ans) {
                            ctx.violation(sig, || case.to_json(), || d);
                        }
                    }
                    Err(p) => {
                        ctx.case_done(hh.finish(), true, 1);
                        ctx.violation(format!("{:?}:{}", case.kind, p.sig()), || case.to_json(), || format!("{}:{} {}", p.file, p.line, p.msg));
                    }
                }
            }),
        );
        unique_states += res.unique_states;
        states_generated += res.states_generated;
        ctxs.extend(res.ctxs);
    }
    // the self-test runs the library too: on a tree that panics there it counts as failed (a verdict, if there is one,
    // takes precedence over it)
    let st = catch(|| selftest(&fxs[0][0])).unwrap_or((1, 0));
    let agg = merge(ctxs);
    finish(
        RunInfo {
            prop: "C15",
            tier,
            level: "model_checking",
            engine: "E1 stateright BFS over reader call histories on the real ShapeReader / Reader; oracle = set-valued cursor model (RefReader)",
            rule: "every sequence up to the depth bound over {Iter(0), Iter(1), Iter(2), Iter(all), Nth(0..3), Seek(0..3), Count} and 14 programs that drive a new iterator through the std adaptors an iterator type may override (nth(k) then next; next, nth(k), next; nth, nth; skip(k); next then skip; step_by(2); last; next then last; count; nth(usize::MAX) fresh and after a next), judged against the same program over the plain sequence of remaining records; for readers with an index also IterAsAnotherType(1): one item of an iteration (pair iteration on the complete Reader) that asks for another concrete type than the file holds, which must be one type-mismatch error, after which an iteration goes on behind that record or from it, pairs aligned; for the shape reader with an index also NthAsAnotherType(2) (thorough depth-4 passes: NthAsAnotherType(1) too): a random access that asks for another concrete type, which must be a type-mismatch error, after which a new iteration yields what was not consumed before it or everything from the first record; base alphabet: (ShapeReader with index, 13 actions), {Iter*, Seek*, Count, ReadAll} (complete Reader, 10 actions; the same over a shape reader without index, where seek and count must answer MissingIndexFile), {Iter*, Nth(0), Seek(0), Count} (ShapeReader without index: the last three must answer MissingIndexFile) x files of 3 records with pairwise different sizes, with equal sizes, and (readers with an index) stored out of order with fillers between them behind sources returning at most 3 bytes per read, and (ShapeReader with index) at byte offsets beyond 2^31 and 3*2^30 on a sparse source, x types; non-trivial = >= 2 operations",
            bounds: json!({"depth": tier.pick("4 (all 14 adaptor programs)", "5 (5 adaptor programs) and 4 (all 14)"), "records": N, "types": types.iter().map(|t| t.name()).collect::<Vec<_>>()}),
            exhaustive: true,
            assumptions: vec!["the model is non-deterministic after a partial iteration exactly as the statement is: a further iteration may continue or restart".into()],
            started,
            states: unique_states,
            transitions: states_generated,
            selftest: st,
            extra: Default::default(),
        },
        agg,
        false,
    )
}

pub fn replay(v: &Value) -> Vec<(String, String)> {
    match Case::from_json(v) {
        None => vec![("bad-replay-file".into(), "cannot parse case".into())],
        Some(case) => {
            let fx = fixture(case.ty, case.layout);
            match catch(|| observe(&case, &fx)) {
                Ok(a) => judge(&case, &a),
                Err(p) => vec![(format!("{:?}:{}", case.kind, p.sig()), p.msg)],
            }
        }
    }
}
