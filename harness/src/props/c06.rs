//! C06: typed reads agree with generic reads; shape type identity is
//! consistent.  Complete 13 x 14 (requested, actual) matrix.

use crate::bridge::*;
use crate::dev::Dev;
use crate::engine::*;
use crate::model::*;
use crate::refmodel::codec::{self, MBody, MFile, MRecord};
#[allow(unused_imports)]
use crate::table;
use crate::structs::*;
use crate::{with_concrete, with_ty};
use serde_json::{json, Value};
use shapefile::record::HasShapeType;
use shapefile::{Shape, ShapeReader, ShapeWriter};
use std::convert::TryFrom;
use std::time::Instant;

#[derive(Clone, Debug)]
pub enum Case {
    /// read a file whose records have type `actual` as `requested`
    File {
        requested: Ty,
        actual: Ty,
        /// structure indices (reduced set of `actual`); empty for null files
        seq: Vec<usize>,
        /// None: all records of type `actual`; Some(t): last record replaced by one of type t (RefCodec file)
        odd_last: Option<Ty>,
        /// one coordinate slot of the first record replaced by a special value: (slot number, value bits)
        dev: Option<(usize, u64)>,
    },
    /// identity / conversion clauses on one value
    Value { ty: Ty, idx: usize },
    /// bulk conversion of [ok.., wrong, ok..]
    Bulk { ty: Ty, wrong: Ty, len: usize, pos: usize },
    /// a hand-encoded file whose records have the given types, read as `requested` through
    /// route 0 ShapeReader::new, 1 with_shx, 2 with_shx whose index lists every record twice,
    /// 3 the complete Reader (index + dbf)
    Mixed { requested: Ty, types: Vec<Ty>, route: u8 },
    /// a 3-record file of type `ty` located by a hand-made index: physical order `perm`, fillers or not, and the
    /// length field of every index entry replaced (`lie`: 0 as it is, 1 -> 2 words, 2 -> 0, 3 -> +1, 4 -> -1,
    /// 5 -> i32::MAX); typed against generic on every route that takes an index, in memory and by path
    Indexed { ty: Ty, perm: Vec<usize>, fillers: bool, lie: u8 },
}

fn tyj(t: Ty) -> Value {
    json!(t.name())
}
fn tyf(v: Option<&Value>) -> Option<Ty> {
    Ty::from_name(v?.as_str()?)
}

impl Case {
    pub fn to_json(&self) -> Value {
        match self {
            Case::File { requested, actual, seq, odd_last, dev } => {
                json!({"kind": "file", "requested": tyj(*requested), "actual": tyj(*actual), "seq": seq, "odd_last": odd_last.map(|t| t.name()),
                       "dev": dev.map(|(s, b)| json!([s, format!("{:#018x}", b)]))})
            }
            Case::Value { ty, idx } => json!({"kind": "value", "ty": tyj(*ty), "idx": idx}),
            Case::Bulk { ty, wrong, len, pos } => json!({"kind": "bulk", "ty": tyj(*ty), "wrong": tyj(*wrong), "len": len, "pos": pos}),
            Case::Indexed { ty, perm, fillers, lie } => json!({"kind": "indexed", "ty": tyj(*ty), "perm": perm, "fillers": fillers, "lie": lie}),
            Case::Mixed { requested, types, route } => json!({"kind": "mixed", "requested": tyj(*requested), "types": types.iter().map(|t| t.name()).collect::<Vec<_>>(), "route": route}),
        }
    }
    pub fn from_json(v: &Value) -> Option<Case> {
        match v.get("kind")?.as_str()? {
            "file" => Some(Case::File {
                requested: tyf(v.get("requested"))?,
                actual: tyf(v.get("actual"))?,
                seq: v.get("seq")?.as_array()?.iter().map(|x| x.as_u64().map(|u| u as usize)).collect::<Option<Vec<_>>>()?,
                odd_last: match v.get("odd_last") {
                    Some(Value::String(s)) => Ty::from_name(s),
                    _ => None,
                },
                dev: match v.get("dev") {
                    Some(Value::Array(a)) if a.len() == 2 => Some((a[0].as_u64()? as usize, u64::from_str_radix(a[1].as_str()?.trim_start_matches("0x"), 16).ok()?)),
                    _ => None,
                },
            }),
            "value" => Some(Case::Value {
                ty: tyf(v.get("ty"))?,
                idx: v.get("idx")?.as_u64()? as usize,
            }),
            "mixed" => Some(Case::Mixed {
                requested: tyf(v.get("requested"))?,
                types: v.get("types")?.as_array()?.iter().map(|x| Ty::from_name(x.as_str()?)).collect::<Option<Vec<_>>>()?,
                route: v.get("route")?.as_u64()? as u8,
            }),
            "indexed" => Some(Case::Indexed {
                ty: tyf(v.get("ty"))?,
                perm: v.get("perm")?.as_array()?.iter().map(|x| x.as_u64().map(|u| u as usize)).collect::<Option<Vec<_>>>()?,
                fillers: v.get("fillers")?.as_bool()?,
                lie: v.get("lie")?.as_u64()? as u8,
            }),
            "bulk" => Some(Case::Bulk {
                ty: tyf(v.get("ty"))?,
                wrong: tyf(v.get("wrong"))?,
                len: v.get("len")?.as_u64()? as usize,
                pos: v.get("pos")?.as_u64()? as usize,
            }),
            _ => None,
        }
    }
    fn hash(&self) -> u64 {
        let mut h = Fnv::new();
        h.str(&self.to_json().to_string());
        h.finish()
    }
}

fn value_set(ty: Ty) -> Vec<MShape> {
    structures(ty, Scope::Quick)
}

/// bytes of a file with records of type `actual` (library writer for the
/// 13 geometry types, RefCodec for null records and mixed files)
fn file_bytes(actual: Ty, seq: &[usize], odd_last: Option<Ty>, dev: Option<(usize, u64)>) -> Vec<u8> {
    if actual != Ty::Null && odd_last.is_none() {
        let red = reduced_set(actual);
        let d = Dev::quiet(vec![]);
        {
            let mut w = ShapeWriter::new(d.clone());
            for (k, i) in seq.iter().enumerate() {
                let mut m = vec![red[*i].clone()];
                if let (0, Some((slot, bits))) = (k, dev) {
                    let sl = slots(&m);
                    apply(&mut m, sl[slot], f64::from_bits(bits));
                }
                write_shape(&mut w, &to_lib(&m[0])).expect("write");
            }
        }
        return d.data();
    }
    let mut records = vec![];
    let mk = |t: Ty, i: usize| -> MBody {
        if t == Ty::Null {
            MBody::Null
        } else {
            // encode the shape *as constructed by the library* so that rings are closed
            let built = from_lib(&to_lib(&reduced_set(t)[i])).shape;
            let bbox = codec::true_bbox(&built);
            MBody::Shape { shape: built, bbox, with_m: true }
        }
    };
    let n = seq.len();
    for (k, i) in seq.iter().enumerate() {
        let t = if k + 1 == n { odd_last.unwrap_or(actual) } else { actual };
        records.push(MRecord { number: k as i32 + 1, body: mk(t, if t == actual { *i } else { 0 }) });
    }
    codec::encode(&MFile { ty: actual, header_box: [0.0; 8], records, trailing: vec![] }).bytes
}

fn back<T>(c: &T, ty: Ty) -> bool
where
    T: Clone + PartialEq + Into<Shape> + TryFrom<Shape, Error = shapefile::Error>,
{
    let sh: Shape = c.clone().into();
    let vt = variant_ty(&sh);
    vt == ty && matches!(T::try_from(sh), Ok(v) if v == *c)
}

/// Does the text of a mismatch error name `requested` as the requested and `actual` as the actual type?  Judged by
/// which of the words "request.." / "actual" each type name stands closest behind; None when the text does not use
/// those words or a name is part of the other (nothing is demanded of such a text).
fn message_roles_ok(msg: &str, requested: &str, actual: &str) -> Option<bool> {
    let low = msg.to_lowercase();
    let (rq, ac) = (requested.to_lowercase(), actual.to_lowercase());
    if rq.contains(&ac) || ac.contains(&rq) {
        return None;
    }
    let (w_req, w_act) = (low.find("request")?, low.find("actual")?);
    let (p_rq, p_ac) = (low.find(&rq)?, low.find(&ac)?);
    // the word that precedes a name most closely
    let role_of = |p: usize| -> Option<bool> {
        let before: Vec<(usize, bool)> = [(w_req, true), (w_act, false)].into_iter().filter(|(w, _)| *w < p).collect();
        before.into_iter().max_by_key(|(w, _)| *w).map(|(_, is_req)| is_req)
    };
    Some(role_of(p_rq)? && !role_of(p_ac)?)
}

/// Does the text name this type: its ESRI name (letters compared without case and separators, C19's reading)
/// followed by something that is not a letter or digit (so that "MultipointZ" does not name "Multipoint")?
pub fn text_names(msg: &str, ty: Ty) -> bool {
    let norm = |s: &str| -> Vec<char> { s.chars().filter(|c| c.is_alphanumeric()).flat_map(|c| c.to_lowercase()).collect() };
    // keep separators as word boundaries: work on the lowercased text, skipping '_' ' ' '-' inside names
    let text: Vec<char> = msg.chars().flat_map(|c| c.to_lowercase()).collect();
    let name = norm(ty.name());
    let mut i = 0;
    while i < text.len() {
        // try to match the name from i, allowing single separators between its letters
        let (mut a, mut b) = (i, 0usize);
        while a < text.len() && b < name.len() {
            if text[a] == name[b] {
                a += 1;
                b += 1;
            } else if b > 0 && matches!(text[a], '_' | '-' | ' ') {
                a += 1;
            } else {
                break;
            }
        }
        let starts_word = i == 0 || !text[i - 1].is_alphanumeric();
        if b == name.len() && starts_word && (a >= text.len() || !text[a].is_alphanumeric()) {
            return true;
        }
        i += 1;
    }
    false
}

fn mismatch(req: Ty, act: Ty) -> String {
    format!("MismatchShapeType(requested={},actual={})", req.code(), act.code())
}

/// Returns verdicts directly (observation and judgement are interleaved
/// here; the self-test goes through `compare_typed` below).
pub fn run(case: &Case) -> Vec<(String, String)> {
    let mut out = vec![];
    match case {
        Case::File { requested, actual, seq, odd_last, dev } => {
            let bytes = file_bytes(*actual, seq, *odd_last, *dev);
            let generic: Result<Vec<Shape>, String> =
                ShapeReader::new(Dev::quiet(bytes.clone())).and_then(|r| r.read()).map_err(|e| err_kind(&e));
            let generic = match generic {
                Ok(g) => g,
                Err(e) => return vec![(format!("generic-read-failed:{}", actual.name()), e)],
            };
            // typed, collected
            let typed: Result<Vec<MRead>, String> = with_ty!(*requested, S =>
                ShapeReader::new(Dev::quiet(bytes.clone())).and_then(|r| r.read_as::<S>())
                    .map(|v| v.into_iter().map(|s| from_lib(&Shape::from(s))).collect())
                    .map_err(|e| err_kind(&e)), unreachable!());
            // typed, item by item: what comes before the first error
            let items: Vec<Result<MRead, String>> = with_ty!(*requested, S => {
                let mut r = ShapeReader::new(Dev::quiet(bytes.clone())).expect("open");
                let mut v = vec![];
                for it in r.iter_shapes_as::<S>() {
                    let stop = it.is_err();
                    v.push(it.map(|s| from_lib(&Shape::from(s))).map_err(|e| err_kind(&e)));
                    if stop || v.len() > seq.len() + 2 { break; }
                }
                v
            }, unreachable!());
            // generic then convert
            let converted: Result<Vec<MRead>, String> = with_ty!(*requested, S =>
                shapefile::convert_shapes_to_vec_of::<S>(generic.iter().map(clone_shape).collect())
                    .map(|v| v.into_iter().map(|s| from_lib(&Shape::from(s))).collect())
                    .map_err(|e| err_kind(&e)), unreachable!());
            let rec_types: Vec<Ty> = generic.iter().map(variant_ty).collect();
            out.extend(compare_typed(*requested, &rec_types, &typed, &items, &converted));
        }
        Case::Value { ty, idx } => {
            let m = &value_set(*ty)[*idx];
            let lib = to_lib(m);
            let tn = ty.name();
            // variant type vs Shape::shapetype vs T::shapetype
            let st = model_ty(lib.shapetype());
            if st != *ty {
                out.push((format!("shapetype-of-value:{}", tn), format!("Shape::{}(..).shapetype() = {}", tn, st.name())));
            }
            let tt = with_ty!(*ty, T => model_ty(<T as HasShapeType>::shapetype()), unreachable!());
            if tt != *ty {
                out.push((format!("shapetype-of-rust-type:{}", tn), format!("<{} as HasShapeType>::shapetype() = {}", tn, tt.name())));
            }
            // record type code as RefCodec reads it
            let d = Dev::quiet(vec![]);
            {
                let mut w = ShapeWriter::new(d.clone());
                write_shape(&mut w, &lib).expect("write");
            }
            match codec::decode_file(&d.data(), &codec::DecodeOpts { strict: true }) {
                Ok(df) => {
                    if df.records[0].ty_code != ty.code() || df.header.ty_code != ty.code() {
                        out.push((format!("record-type-code:{}", tn), format!("record says {}, header says {}", df.records[0].ty_code, df.header.ty_code)));
                    }
                }
                Err(e) => out.push((format!("record-type-code:{}", tn), e)),
            }
            // T::try_from(Shape::from(v)) == Ok(v); Shape::from(v) is variant T
            let back_ok = with_concrete!(&lib, c => back(c, *ty), false);
            if !back_ok {
                out.push((format!("into-and-back:{}", tn), "T::try_from(Shape::from(v)) is not Ok(v)".into()));
            }
            // S::try_from(Shape::from(v)) for every S != T names S and T
            for s in ALL13 {
                if s == *ty {
                    continue;
                }
                let msg: Option<String> = with_ty!(s, S => S::try_from(clone_shape(&lib)).err().map(|e| e.to_string()), unreachable!());
                if let Some(m) = &msg {
                    if !text_names(m, s) || !text_names(m, *ty) {
                        out.push((format!("conversion-error-text-names:{}", tn), format!("{}::try_from(Shape::{}) says {:?}, which does not name both {} and {}", s.name(), tn, m, s.name(), tn)));
                        break;
                    }
                    if message_roles_ok(m, lib_ty(s).to_string().as_str(), lib_ty(*ty).to_string().as_str()) == Some(false) {
                        out.push((format!("conversion-error-text:{}", tn), format!("{}::try_from(Shape::{}) says {:?}: the requested type is {}, the actual one {}", s.name(), tn, m, s.name(), tn)));
                        break;
                    }
                }
                let r: Result<(), String> = with_ty!(s, S => S::try_from(clone_shape(&lib)).map(|_| ()).map_err(|e| err_kind(&e)), unreachable!());
                let want = Err(mismatch(s, *ty));
                if r != want {
                    out.push((
                        format!("conversion-error:{}", tn),
                        format!("{}::try_from(Shape::{}) = {:?}, expected {:?}", s.name(), tn, r, want),
                    ));
                    break;
                }
            }
        }
        Case::Mixed { requested, types, route } => {
            // records: structure 0 of each type (as constructed), null records for Ty::Null
            let records: Vec<MRecord> = types
                .iter()
                .enumerate()
                .map(|(k, t)| MRecord {
                    number: k as i32 + 1,
                    body: if *t == Ty::Null {
                        MBody::Null
                    } else {
                        let built = from_lib(&to_lib(&reduced_set(*t)[k % 2])).shape;
                        let bbox = codec::true_bbox(&built);
                        MBody::Shape { shape: built, bbox, with_m: true }
                    },
                })
                .collect();
            let file = MFile { ty: *requested, header_box: [0.0; 8], records, trailing: vec![] };
            let enc = codec::encode(&file);
            let n = types.len();
            let order: Vec<usize> = if *route == 2 { (0..n).flat_map(|i| [i, i]).collect() } else { (0..n).collect() };
            let (shx, _) = codec::encode_shx(&file, &enc, &order);
            let expect_at = |i: usize| -> Result<Ty, String> {
                if types[i] == *requested {
                    Ok(types[i])
                } else {
                    Err(mismatch(*requested, types[i]))
                }
            };
            let first_bad = (0..n).find(|i| types[*i] != *requested);
            match route {
                0 | 1 | 2 => {
                    let items: Vec<Result<Ty, String>> = with_ty!(*requested, S => {
                        let mut r = if *route == 0 { ShapeReader::new(Dev::quiet(enc.bytes.clone())).expect("open") } else { ShapeReader::with_shx(Dev::quiet(enc.bytes.clone()), Dev::quiet(shx.clone())).expect("open") };
                        r.iter_shapes_as::<S>().take(2 * n + 2).map(|x| x.map(|s| variant_ty(&Shape::from(s))).map_err(|e| err_kind(&e))).collect()
                    }, unreachable!());
                    let expected: Vec<Result<Ty, String>> = if *route == 0 {
                        // without an index the iteration is only defined up to the first error
                        match first_bad {
                            None => (0..n).map(expect_at).collect(),
                            Some(k) => (0..=k).map(expect_at).collect(),
                        }
                    } else {
                        order.iter().map(|i| expect_at(*i)).collect()
                    };
                    let got: &[Result<Ty, String>] = if *route == 0 { &items[..items.len().min(expected.len())] } else { &items[..] };
                    if got != &expected[..] {
                        out.push((format!("mixed-file:route{}:typed-iteration", route), format!("read as {}: items {:?}, expected {:?}", requested.name(), items, expected)));
                    }
                    let collected: Result<usize, String> = with_ty!(*requested, S => {
                        let r = if *route == 0 { ShapeReader::new(Dev::quiet(enc.bytes.clone())).expect("open") } else { ShapeReader::with_shx(Dev::quiet(enc.bytes.clone()), Dev::quiet(shx.clone())).expect("open") };
                        r.read_as::<S>().map(|v| v.len()).map_err(|e| err_kind(&e))
                    }, unreachable!());
                    let want: Result<usize, String> = match first_bad {
                        None => Ok(order.len()),
                        Some(k) => Err(mismatch(*requested, types[k])),
                    };
                    if collected != want {
                        out.push((format!("mixed-file:route{}:read_as", route), format!("read_as::<{}>() = {:?}, expected {:?}", requested.name(), collected, want)));
                    }
                }
                _ => {
                    // complete reader: a table with one row per record
                    let dbf = Dev::quiet(vec![]);
                    {
                        let mut tw = crate::table::table_writer(dbf.clone());
                        for i in 0..n {
                            tw.write_record(&crate::table::good_row(i)).expect("row");
                        }
                    }
                    let collected: Result<usize, String> = with_ty!(*requested, S => {
                        let sr = ShapeReader::with_shx(Dev::quiet(enc.bytes.clone()), Dev::quiet(shx.clone())).expect("open");
                        let dr = shapefile::dbase::Reader::new(Dev::quiet(dbf.data())).expect("open dbf");
                        let mut r = shapefile::Reader::new(sr, dr);
                        r.read_as::<S, shapefile::dbase::Record>().map(|v| v.len()).map_err(|e| err_kind(&e))
                    }, unreachable!());
                    let want: Result<usize, String> = match first_bad {
                        None => Ok(n),
                        Some(k) => Err(mismatch(*requested, types[k])),
                    };
                    // the typed pair iteration goes from item to item: a record of another type is a mismatch, every
                    // record of the requested type comes with its own row
                    let items: Vec<Result<(Ty, Option<i64>), String>> = with_ty!(*requested, S => {
                        let sr = ShapeReader::with_shx(Dev::quiet(enc.bytes.clone()), Dev::quiet(shx.clone())).expect("open");
                        let dr = shapefile::dbase::Reader::new(Dev::quiet(dbf.data())).expect("open dbf");
                        let mut r = shapefile::Reader::new(sr, dr);
                        let v: Vec<Result<(Ty, Option<i64>), String>> = r.iter_shapes_and_records_as::<S, shapefile::dbase::Record>().take(2 * n + 2).map(|x| x.map(|(s, row)| (variant_ty(&Shape::from(s)), crate::table::row_idx(&row))).map_err(|e| err_kind(&e))).collect();
                        v
                    }, unreachable!());
                    let expected: Vec<Result<(Ty, Option<i64>), String>> = (0..n).map(|i| expect_at(i).map(|t| (t, Some(i as i64)))).collect();
                    if items != expected {
                        out.push(("mixed-file:complete-reader:pair-iteration".to_string(), format!("iter_shapes_and_records_as::<{}, Record>() yields {:?}, expected {:?} (shape i with row i behind a record of another type, too)", requested.name(), items, expected)));
                    }
                    if collected != want {
                        out.push(("mixed-file:complete-reader:read_as".to_string(), format!("Reader::read_as::<{}, Record>() = {:?}, expected {:?} (the first mismatching record)", requested.name(), collected, want)));
                    }
                }
            }
        }
        Case::Indexed { ty, perm, fillers, lie } => {
            // lie 6: fillers behind the first and the last record, every entry's length stretched over the filler
            // behind its record, so that the entries chain by their own lengths up to the end of the file
            let gaps = if *lie == 6 { vec![0, 2, 0, 2] } else if *fillers { vec![2, 0, 4, 2] } else { vec![0; 4] };
            let c14case = super::c14::Case { ty: *ty, n: 3, perm: perm.clone(), gaps, fill_byte: 0, stretch: false };
            // lie 7: nothing wrong with the index; the records are stored without their optional M block
            let (shp, mut shx, _) = super::c14::build_m(&c14case, *lie != 7);
            let offs: Vec<i64> = (0..3).map(|i| i32::from_be_bytes(shx[100 + 8 * i..104 + 8 * i].try_into().unwrap()) as i64 * 2).collect();
            for i in 0..3 {
                let o = 100 + 8 * i + 4;
                let orig = i32::from_be_bytes(shx[o..o + 4].try_into().unwrap());
                let next = if i + 1 < 3 { offs[i + 1] } else { shp.len() as i64 };
                let v = match lie {
                    6 => ((next - offs[i] - 8) / 2) as i32,
                    0 => orig,
                    1 => 2,
                    2 => 0,
                    3 => orig + 1,
                    4 => orig - 1,
                    _ => i32::MAX,
                };
                shx[o..o + 4].copy_from_slice(&v.to_be_bytes());
            }
            // one result per route: (name, generic then converted, typed)
            type R = Result<Vec<MRead>, String>;
            let conv = |g: Result<Vec<Shape>, String>| -> R {
                g.and_then(|v| with_ty!(*ty, S => shapefile::convert_shapes_to_vec_of::<S>(v).map(|v| v.into_iter().map(|s| from_lib(&Shape::from(s))).collect()).map_err(|e| err_kind(&e)), unreachable!()))
            };
            let open = || ShapeReader::with_shx(Dev::quiet(shp.clone()), Dev::quiet(shx.clone()));
            let mut routes: Vec<(String, R, R)> = vec![];
            routes.push((
                "with_shx: read / read_as".into(),
                conv(open().and_then(|r| r.read()).map_err(|e| err_kind(&e))),
                with_ty!(*ty, S => open().and_then(|r| r.read_as::<S>()).map(|v| v.into_iter().map(|s| from_lib(&Shape::from(s))).collect()).map_err(|e| err_kind(&e)), unreachable!()),
            ));
            routes.push((
                "with_shx: iter_shapes / iter_shapes_as".into(),
                conv(open().map_err(|e| err_kind(&e)).and_then(|mut r| r.iter_shapes().take(8).collect::<Result<Vec<_>, _>>().map_err(|e| err_kind(&e)))),
                with_ty!(*ty, S => open().map_err(|e| err_kind(&e)).and_then(|mut r| r.iter_shapes_as::<S>().take(8).map(|x| x.map(|s| from_lib(&Shape::from(s)))).collect::<Result<Vec<_>, _>>().map_err(|e| err_kind(&e))), unreachable!()),
            ));
            for i in 0..4usize {
                let one = |x: Option<Result<Shape, shapefile::Error>>| -> Result<Vec<Shape>, String> {
                    match x {
                        None => Ok(vec![]),
                        Some(r) => r.map(|s| vec![s]).map_err(|e| err_kind(&e)),
                    }
                };
                routes.push((
                    format!("with_shx: read_nth_shape({i}) / read_nth_shape_as({i})"),
                    conv(open().map_err(|e| err_kind(&e)).and_then(|mut r| one(r.read_nth_shape(i)))),
                    with_ty!(*ty, S => open().map_err(|e| err_kind(&e)).and_then(|mut r| match r.read_nth_shape_as::<S>(i) {
                        None => Ok(vec![]),
                        Some(x) => x.map(|s| vec![from_lib(&Shape::from(s))]).map_err(|e| err_kind(&e)),
                    }), unreachable!()),
                ));
            }
            // the complete reader (non-consuming bulk reads): after a state-changing call, a generic and a typed
            // bulk read on two readers brought into the same state
            // (next to a table of as many rows as there are shapes; of one row more, which cannot be parsed; of one
            // row less)
            for tbl in 0..3usize {
                let dbf = Dev::quiet(vec![]);
                {
                    let mut tw = crate::table::table_writer(dbf.clone());
                    for i in 0..[3usize, 4, 2][tbl] {
                        tw.write_record(&crate::table::good_row(i)).expect("row");
                    }
                }
                if tbl == 1 {
                    let mut b = dbf.data();
                    if let Some((h, r)) = crate::table::dbf_layout(&b) {
                        let at = h + 3 * r + 1;
                        b[at..at + 8].copy_from_slice(b"xx yy zz");
                    }
                    let d2 = Dev::quiet(b);
                    std::mem::swap(&mut *dbf.0.borrow_mut(), &mut *d2.0.borrow_mut());
                }
                let open_c = || -> Result<shapefile::Reader<Dev, Dev>, String> {
                    let sr = open().map_err(|e| err_kind(&e))?;
                    let dr = shapefile::dbase::Reader::new(Dev::quiet(dbf.data())).map_err(|e| format!("dbf: {}", e))?;
                    Ok(shapefile::Reader::new(sr, dr))
                };
                for pre in 0..4u8 {
                    let prepare = |r: &mut shapefile::Reader<Dev, Dev>| match pre {
                        0 => {}
                        1 => {
                            let _ = r.read();
                        }
                        2 => {
                            let _ = r.iter_shapes_and_records().next();
                        }
                        _ => {
                            let _ = r.seek(1);
                        }
                    };
                    let generic = conv(open_c().and_then(|mut r| {
                        prepare(&mut r);
                        r.read().map(|v| v.into_iter().map(|p| p.0).collect()).map_err(|e| err_kind(&e))
                    }));
                    let typed: R = with_ty!(*ty, S => open_c().and_then(|mut r| {
                        prepare(&mut r);
                        r.read_as::<S, shapefile::dbase::Record>().map(|v| v.into_iter().map(|p| from_lib(&Shape::from(p.0))).collect()).map_err(|e| err_kind(&e))
                    }), unreachable!());
                    routes.push((format!("complete Reader{}: {} then read / read_as", ["", " (a surplus row that cannot be parsed)", " (one row less than shapes)"][tbl], ["fresh", "after read()", "after one item", "after seek(1)"][pre as usize]), generic, typed));
                }
            }
            // by path
            {
                let dir = super::c01_c02::scratch_dir();
                let tid: String = format!("{:?}", std::thread::current().id()).chars().filter(|c| c.is_ascii_digit()).collect();
                let path = dir.join(format!("c06-{}.shp", tid));
                std::fs::write(&path, &shp).expect("scratch write");
                std::fs::write(path.with_extension("shx"), &shx).expect("scratch write");
                routes.push((
                    "by path: read_shapes / read_shapes_as".into(),
                    conv(shapefile::read_shapes(&path).map_err(|e| err_kind(&e))),
                    with_ty!(*ty, S => shapefile::read_shapes_as::<_, S>(&path).map(|v| v.into_iter().map(|s| from_lib(&Shape::from(s))).collect()).map_err(|e| err_kind(&e)), unreachable!()),
                ));
                routes.push((
                    "from_path: read / read_as".into(),
                    conv(ShapeReader::from_path(&path).and_then(|r| r.read()).map_err(|e| err_kind(&e))),
                    with_ty!(*ty, S => ShapeReader::from_path(&path).and_then(|r| r.read_as::<S>()).map(|v| v.into_iter().map(|s| from_lib(&Shape::from(s))).collect()).map_err(|e| err_kind(&e)), unreachable!()),
                ));
                // no attribute table at all next to the files: the pair-reading one-liners, generic against typed
                let _ = std::fs::remove_file(path.with_extension("dbf"));
                routes.push((
                    "by path without .dbf: read / read_as".into(),
                    conv(shapefile::read(&path).map(|v| v.into_iter().map(|p| p.0).collect()).map_err(|e| err_kind(&e))),
                    with_ty!(*ty, S => shapefile::read_as::<_, S, shapefile::dbase::Record>(&path).map(|v| v.into_iter().map(|p| from_lib(&Shape::from(p.0))).collect()).map_err(|e| err_kind(&e)), unreachable!()),
                ));
                let _ = std::fs::remove_file(&path);
                let _ = std::fs::remove_file(path.with_extension("shx"));
            }
            for (name, generic, typed) in routes {
                let same = match (&generic, &typed) {
                    (Ok(a), Ok(b)) => a.len() == b.len() && a.iter().zip(b).all(|(x, y)| super::c04::mread_eq(x, y)),
                    (Err(a), Err(b)) => a == b,
                    _ => false,
                };
                if !same {
                    let show = |r: &R| match r {
                        Ok(v) => format!("Ok({} shapes: {:?})", v.len(), v.iter().map(|m| m.shape.parts.iter().map(|p| p.pts.len()).sum::<usize>()).collect::<Vec<_>>()),
                        Err(e) => format!("Err({})", e),
                    };
                    out.push((
                        format!("indexed-file:{}:typed-vs-generic", name.split(':').next().unwrap_or("")),
                        format!("{}: generic then converted = {}, typed = {} (vertex counts shown)", name, show(&generic), show(&typed)),
                    ));
                }
            }
        }
        Case::Bulk { ty, wrong, len, pos } => {
            let good = to_lib(&reduced_set(*ty)[0]);
            let bad = if *wrong == Ty::Null { Shape::NullShape } else { to_lib(&reduced_set(*wrong)[0]) };
            let v: Vec<Shape> = (0..*len).map(|i| if i == *pos { clone_shape(&bad) } else { clone_shape(&good) }).collect();
            let r: Result<usize, String> = with_ty!(*ty, S => shapefile::convert_shapes_to_vec_of::<S>(v).map(|v| v.len()).map_err(|e| err_kind(&e)), unreachable!());
            let want = Err(mismatch(*ty, *wrong));
            if r != want {
                out.push((
                    format!("bulk-conversion:{}", ty.name()),
                    format!("converting {} shapes with a {} at {} to {}: {:?}, expected {:?}", len, wrong.name(), pos, ty.name(), r, want),
                ));
            }
        }
    }
    out
}

pub fn compare_typed(
    requested: Ty,
    rec_types: &[Ty],
    typed: &Result<Vec<MRead>, String>,
    items: &[Result<MRead, String>],
    converted: &Result<Vec<MRead>, String>,
) -> Vec<(String, String)> {
    let mut out = vec![];
    let rn = requested.name();
    let first_bad = rec_types.iter().position(|t| *t != requested);
    match first_bad {
        None => {
            // S == T for every record: typed == convert(generic)
            match (typed, converted) {
                (Ok(a), Ok(b)) => {
                    if a.len() != b.len() || !a.iter().zip(b).all(|(x, y)| super::c04::mread_eq(x, y)) {
                        out.push((format!("typed-vs-generic-differ:{}", rn), "read_as::<S>() != convert(read())".into()));
                    }
                    if a.len() != rec_types.len() {
                        out.push((format!("typed-count:{}", rn), format!("{} items for {} records", a.len(), rec_types.len())));
                    }
                }
                (a, b) => out.push((
                    format!("typed-read-failed:{}", rn),
                    format!("read_as: {:?}; convert: {:?}", a.as_ref().map(|v| v.len()), b.as_ref().map(|v| v.len())),
                )),
            }
            if items.iter().any(|i| i.is_err()) {
                out.push((format!("typed-iteration-error:{}", rn), format!("{:?}", items.iter().find(|i| i.is_err()))));
            }
        }
        Some(k) => {
            let want = mismatch(requested, rec_types[k]);
            if typed.as_ref().err() != Some(&want) {
                out.push((
                    format!("typed-read-of-other-type:{}<-{}", rn, rec_types[k].name()),
                    format!("read_as::<{}>() = {:?}, expected Err({})", rn, typed.as_ref().map(|v| v.len()), want),
                ));
            }
            if converted.as_ref().err() != Some(&want) {
                out.push((
                    format!("convert-of-other-type:{}<-{}", rn, rec_types[k].name()),
                    format!("convert_shapes_to_vec_of::<{}>(read()) = {:?}, expected Err({})", rn, converted.as_ref().map(|v| v.len()), want),
                ));
            }
            // items: k Ok items of type S, then the error; never an Ok of the wrong type
            for (i, it) in items.iter().enumerate() {
                match it {
                    Ok(m) => {
                        if m.shape.ty != requested || i >= k {
                            out.push((
                                format!("typed-iteration-yielded-wrong-type:{}", rn),
                                format!("item {} is Ok({}) although record {} has type {}", i, m.shape.ty.name(), k, rec_types[k].name()),
                            ));
                            break;
                        }
                    }
                    Err(e) => {
                        if i != k || *e != want {
                            out.push((
                                format!("typed-iteration-error-wrong:{}<-{}", rn, rec_types[k].name()),
                                format!("item {} is Err({}), expected Err({}) at item {}", i, e, want, k),
                            ));
                        }
                        break;
                    }
                }
            }
            if items.len() <= k {
                out.push((format!("typed-iteration-ended-early:{}", rn), format!("{} items, mismatch expected at {}", items.len(), k)));
            }
        }
    }
    out
}

fn selftest() -> (u64, u64) {
    let req = Ty::PolygonM;
    let a = from_lib(&to_lib(&reduced_set(req)[0]));
    let good = (vec![req, req], Ok(vec![a.clone(), a.clone()]), vec![Ok(a.clone()), Ok(a.clone())], Ok(vec![a.clone(), a.clone()]));
    if !compare_typed(req, &good.0, &good.1, &good.2, &good.3).is_empty() {
        return (1, 0);
    }
    let mut inj = 0;
    let mut det = 0;
    // typed result dropped an item
    inj += 1;
    det += (!compare_typed(req, &good.0, &Ok(vec![a.clone()]), &good.2, &good.3).is_empty()) as u64;
    // mismatch file: record 1 is a Polygon
    let types = vec![req, Ty::Polygon];
    let want = mismatch(req, Ty::Polygon);
    let ok_items = vec![Ok(a.clone()), Err(want.clone())];
    if !compare_typed(req, &types, &Err(want.clone()), &ok_items, &Err(want.clone())).is_empty() {
        return (1, 0);
    }
    // error names the wrong actual type
    inj += 1;
    det += (!compare_typed(req, &types, &Err(mismatch(req, Ty::Multipoint)), &ok_items, &Err(want.clone())).is_empty()) as u64;
    // requested / actual swapped
    inj += 1;
    det += (!compare_typed(req, &types, &Err(mismatch(Ty::Polygon, req)), &ok_items, &Err(want.clone())).is_empty()) as u64;
    // iteration yields an Ok for the mismatching record
    inj += 1;
    det += (!compare_typed(req, &types, &Err(want.clone()), &vec![Ok(a.clone()), Ok(a.clone())], &Err(want.clone())).is_empty()) as u64;
    // typed read succeeds
    inj += 1;
    det += (!compare_typed(req, &types, &Ok(vec![a.clone(), a.clone()]), &ok_items, &Err(want.clone())).is_empty()) as u64;
    (inj, det)
}

pub fn check(tier: Tier) -> i32 {
    let started = Instant::now();
    if !super::c01_c02::scratch_usable() {
        return 2;
    }
    let mut cases = vec![];
    for actual in ALL14 {
        let k = if actual == Ty::Null { 1 } else { reduced_set(actual).len().min(3) };
        let mut seqs: Vec<Vec<usize>> = tuples(k, 1);
        seqs.extend(tuples(k, 2));
        if tier == Tier::Thorough {
            seqs.extend(tuples(k, 3));
        }
        for requested in ALL13 {
            for seq in &seqs {
                cases.push(Case::File { requested, actual, seq: seq.clone(), odd_last: None, dev: None });
                if seq.len() >= 2 && seq.iter().all(|i| *i == 0) {
                    // second (last) record of another type T'
                    for odd in ALL14 {
                        if odd != actual {
                            cases.push(Case::File { requested, actual, seq: seq.clone(), odd_last: Some(odd), dev: None });
                        }
                    }
                }
            }
        }
    }
    // typed == generic+convert under special values: every slot of the first record x the slot's alphabet
    for ty in ALL13 {
        let red = reduced_set(ty);
        for first in 0..red.len().min(2) {
            let sl = slots(&[red[first].clone()]);
            for (si, s) in sl.iter().enumerate() {
                for val in alphabet_for_dim(s.dim) {
                    cases.push(Case::File { requested: ty, actual: ty, seq: vec![first, 0], odd_last: None, dev: Some((si, val.to_bits())) });
                }
            }
        }
    }
    // mixed files with two different wrong types, through every reading route
    for requested in ALL13 {
        let a = if requested == Ty::Point { Ty::PolylineZ } else { Ty::Point };
        let alphabet = [requested, a, Ty::Null];
        for v in crate::structs::tuples(3, 3) {
            for route in 0..4u8 {
                cases.push(Case::Mixed { requested, types: v.iter().map(|i| alphabet[*i]).collect(), route });
            }
        }
    }
    // files located by a hand-made index (permuted, with fillers, lying length fields): typed against generic
    for ty in ALL13 {
        for perm in [vec![0usize, 1, 2], vec![2, 0, 1], vec![1, 2, 0], vec![2, 1, 0]] {
            for fillers in [false, true] {
                for lie in 0..6u8 {
                    cases.push(Case::Indexed { ty, perm: perm.clone(), fillers, lie });
                }
                if fillers && perm == vec![0usize, 1, 2] {
                    cases.push(Case::Indexed { ty, perm: perm.clone(), fillers, lie: 6 });
                }
                if ty.carries_m() {
                    cases.push(Case::Indexed { ty, perm: perm.clone(), fillers, lie: 7 });
                }
            }
        }
    }
    for ty in ALL13 {
        for idx in 0..value_set(ty).len() {
            cases.push(Case::Value { ty, idx });
        }
        for wrong in ALL14 {
            if wrong == ty {
                continue;
            }
            for len in 1..=3 {
                for pos in 0..len {
                    cases.push(Case::Bulk { ty, wrong, len, pos });
                }
            }
        }
    }
    let nb = (cases.len() + 31) / 32;
    let (agg, capped) = par_blocks(nb, None, |b, ctx, tick| {
        for c in &cases[b * 32..((b + 1) * 32).min(cases.len())] {
            let v = match catch(|| run(c)) {
                Ok(v) => v,
                Err(p) => vec![(p.sig(), format!("{}:{} {}", p.file, p.line, p.msg))],
            };
            let mut oh = Fnv::new();
            oh.u64(v.len() as u64);
            if let Case::File { requested, actual, odd_last, .. } = c {
                oh.u64((*requested == *actual) as u64);
                oh.u64(odd_last.map(|t| t.code() as u64 + 1).unwrap_or(0));
                oh.u64(actual.code() as u64);
            }
            ctx.lib_calls += 6;
            ctx.case_done(c.hash(), true, oh.finish());
            if matches!(c, Case::File { odd_last: Some(_), .. }) {
                ctx.sample(|| c.to_json());
            }
            for (sig, d) in v {
                ctx.violation(sig, || c.to_json(), || d);
            }
            tick();
        }
    });
    // the self-test runs the library too: on a tree that panics there it counts as failed (a verdict, if there is one,
    // takes precedence over it)
    let st = catch(|| selftest()).unwrap_or((1, 0));
    super::c01_c02::cleanup_scratch();
    finish(
        RunInfo {
            prop: "C06",
            tier,
            level: "model_checking",
            engine: "E2 complete type matrix on the real reader / conversions; files by the library writer (13 types) and by RefCodec (null and mixed-type files)",
            rule: "all 13 x 14 ordered (requested S, actual T) pairs x files of 1-2 (thorough 3) records over 3 structures, plus files whose last record has any other of the 14 types; every shape value of the C01 quick structure set for the identity / conversion clauses against all 13 target types; bulk conversion with the wrong element at every position of vectors of length 1-3 for all 13 x 13 pairs; hand-encoded 3-record files over {S, another type, null} for every S through ShapeReader::new / with_shx / with_shx with every index entry doubled / the complete Reader (bulk read, and the typed pair iteration going on behind a mismatch: shape i with row i); 3-record files of every type located by a hand-made index (4 physical orders x fillers or not x the entries' length fields as they are, 2, 0, +1, -1, i32::MAX, or stretched over the filler behind each record so that they chain; also with the records stored without their optional M block): typed against generic-then-converted for read, iteration, random access at every position, and the complete Reader's bulk reads from four states next to a table of as many rows, of one unparsable row more, and of one row less (in memory) and read_shapes / from_path (on disk); non-trivial = every case",
            bounds: json!({"matrix": "13x14 complete", "cases": cases.len()}),
            exhaustive: true,
            assumptions: vec!["type names in errors are compared through their integer codes (Display names are C19's); the text of a mismatch error is only asked to put each type name behind the right one of the words 'request..' / 'actual', when it uses them".into()],
            started,
            states: 0,
            transitions: 0,
            selftest: st,
            extra: Default::default(),
        },
        agg,
        capped,
    )
}

pub fn replay(v: &Value) -> Vec<(String, String)> {
    match Case::from_json(v) {
        None => vec![("bad-replay-file".into(), "cannot parse case".into())],
        Some(case) => match catch(|| run(&case)) {
            Ok(v) => v,
            Err(p) => vec![(p.sig(), p.msg)],
        },
    }
}
