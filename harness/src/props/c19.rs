//! C19: shape type codes form the ESRI table, for every 32-bit value.
//! Complete enumeration of the 2^32 domain.

use crate::bridge::*;
use crate::dev::Dev;
use crate::engine::*;
use crate::model::*;
use crate::refmodel::codec;
use serde_json::{json, Value};
use shapefile::{ShapeReader, ShapeType};
use std::time::Instant;

/// (code, Some(expected type) | None) -> findings
fn check_from(code: i32) -> Option<(String, String)> {
    let got = ShapeType::from(code);
    let want = Ty::from_code(code);
    match (got, want) {
        (None, None) => None,
        (Some(t), Some(w)) => {
            if t as i32 != code {
                Some(("reencode".into(), format!("ShapeType::from({}) = {:?}, which encodes as {}", code, t, t as i32)))
            } else if model_ty(t) != w {
                Some(("wrong-type".into(), format!("ShapeType::from({}) = {:?}, table says {}", code, t, w.name())))
            } else {
                None
            }
        }
        (Some(t), None) => Some(("accepts-invalid-code".into(), format!("ShapeType::from({}) = {:?}, not an ESRI code", code, t))),
        (None, Some(w)) => Some(("rejects-valid-code".into(), format!("ShapeType::from({}) = None, table says {}", code, w.name()))),
    }
}

/// values for the version field: the one of the format, its byte-swapped form, 0, -1, a neighbour
const HEADER_VERSIONS: [i32; 5] = [1000, 0xE803_0000u32 as i32, 0, -1, 1001];

fn header_with(code: i32) -> Vec<u8> {
    codec::encode_header(50, code, &[0.0; 8])
}

/// Header route: a valid 100-byte header carrying `code`.
fn check_header(code: i32, hdr: &mut Vec<u8>) -> Option<(String, String)> {
    hdr[32..36].copy_from_slice(&code.to_le_bytes());
    let r = shapefile::header::Header::read_from(&mut &hdr[..]);
    judge_read("header", code, r.map(|h| h.shape_type).map_err(|e| err_kind(&e)))
}

fn judge_read(route: &str, code: i32, r: Result<ShapeType, String>) -> Option<(String, String)> {
    match (r, Ty::from_code(code)) {
        (Ok(t), Some(w)) => {
            if model_ty(t) == w && t as i32 == code {
                None
            } else {
                Some((format!("{}:wrong-type", route), format!("code {} read as {:?}", code, t)))
            }
        }
        (Ok(t), None) => Some((format!("{}:accepts-invalid-code", route), format!("code {} read as {:?}", code, t))),
        (Err(e), Some(_)) => Some((format!("{}:rejects-valid-code", route), format!("code {}: {}", code, e))),
        (Err(e), None) => {
            if e == format!("InvalidShapeType({})", code) {
                None
            } else {
                Some((format!("{}:wrong-error", route), format!("code {}: {} instead of InvalidShapeType({})", code, e, code)))
            }
        }
    }
}

/// Record route: a one-record file (header type Point) whose record type is `code`.
fn check_record(code: i32) -> Option<(String, String)> {
    // content of 4 bytes (the code alone: the layout of a null shape), 20 bytes (a point) and 36 bytes (a PointZ),
    // read by iteration, by read() and through an index by read_nth_shape
    for words in [2i32, 10, 18] {
        for route in 0..3u8 {
            if let Some(v) = check_record_at(code, words, route) {
                return Some(v);
            }
        }
    }
    None
}

fn check_record_at(code: i32, words: i32, route: u8) -> Option<(String, String)> {
    let mut b = codec::encode_header(50 + 4 + words, 1, &[0.0; 8]);
    b.extend(1i32.to_be_bytes());
    b.extend(words.to_be_bytes());
    b.extend(code.to_le_bytes());
    b.extend(vec![0u8; (words as usize) * 2 - 4]);
    let rn = ["iter_shapes", "read", "read_nth_shape"][route as usize];
    let first: Option<Result<shapefile::Shape, shapefile::Error>> = match route {
        0 => {
            let mut r = match ShapeReader::new(Dev::quiet(b)) {
                Ok(r) => r,
                Err(e) => return Some(("record:open".into(), err_kind(&e))),
            };
            let x = r.iter_shapes().next();
            x
        }
        1 => match ShapeReader::new(Dev::quiet(b)) {
            Ok(r) => match r.read() {
                Ok(mut v) => {
                    if v.len() == 1 {
                        Some(Ok(v.remove(0)))
                    } else {
                        None
                    }
                }
                Err(e) => Some(Err(e)),
            },
            Err(e) => return Some(("record:open".into(), err_kind(&e))),
        },
        _ => {
            let mut shx = codec::encode_header(54, 1, &[0.0; 8]);
            shx.extend(50i32.to_be_bytes());
            shx.extend(words.to_be_bytes());
            match ShapeReader::with_shx(Dev::quiet(b), Dev::quiet(shx)) {
                Ok(mut r) => r.read_nth_shape(0),
                Err(e) => return Some(("record:open".into(), err_kind(&e))),
            }
        }
    };
    let what = format!("code {} in a record of {} content bytes, {}", code, words * 2, rn);
    match (first, Ty::from_code(code)) {
        (Some(Err(e)), None) => {
            let e = err_kind(&e);
            if e == format!("InvalidShapeType({})", code) {
                None
            } else {
                Some(("record:wrong-error".into(), format!("{}: {}", what, e)))
            }
        }
        (Some(Ok(s)), None) => Some(("record:accepts-invalid-code".into(), format!("{}: read as {}", what, variant_ty(&s).name()))),
        (Some(Ok(s)), Some(w)) => {
            // only the types whose content has exactly this size decode here; others fail on size
            if variant_ty(&s) == w {
                None
            } else {
                Some(("record:wrong-type".into(), format!("{}: read as {}", what, variant_ty(&s).name())))
            }
        }
        (Some(Err(e)), Some(_)) => {
            let e = err_kind(&e);
            // a valid code with the wrong content size is a size / io error, never InvalidShapeType
            if e.starts_with("InvalidShapeType") {
                Some(("record:rejects-valid-code".into(), format!("{}: {}", what, e)))
            } else {
                None
            }
        }
        (None, _) => Some(("record:no-item".into(), format!("{}: nothing returned", what))),
    }
}

/// Typed record route: the same one-record file read as the concrete type whose code
/// equals the low byte of `code` (Point if there is none).  An invalid code must be
/// reported as InvalidShapeType(code) even if it resembles the requested type.
fn check_record_typed(code: i32) -> Option<(String, String)> {
    use crate::with_ty;
    let mut b = codec::encode_header(50 + 4 + 10, 1, &[0.0; 8]);
    b.extend(1i32.to_be_bytes());
    b.extend(10i32.to_be_bytes());
    b.extend(code.to_le_bytes());
    b.extend([0u8; 16]);
    let low = Ty::from_code(code & 0xff).filter(|t| *t != Ty::Null).unwrap_or(Ty::Point);
    let mut out = None;
    for req in [low, Ty::Point, Ty::PolygonZ] {
        let r: Option<Result<Ty, String>> = with_ty!(req, S => {
            let mut r = match ShapeReader::new(Dev::quiet(b.clone())) { Ok(r) => r, Err(e) => return Some(("typed-record:open".into(), err_kind(&e))) };
            let x = r.iter_shapes_as::<S>().next();
            x.map(|x| x.map(|s| variant_ty(&shapefile::Shape::from(s))).map_err(|e| err_kind(&e)))
        }, unreachable!());
        let bad = match (&r, Ty::from_code(code)) {
            (Some(Err(e)), None) => *e != format!("InvalidShapeType({})", code),
            (Some(Ok(_)), None) => true,
            (Some(Ok(t)), Some(w)) => *t != w,
            (Some(Err(e)), Some(w)) => {
                // a valid code: a mismatch names both types, a size error is fine, never InvalidShapeType
                if w != req { *e != format!("MismatchShapeType(requested={},actual={})", req.code(), w.code()) } else { e.starts_with("InvalidShapeType") }
            }
            (None, _) => true,
        };
        if bad {
            out = Some(("typed-record:wrong-answer".to_string(), format!("record code {} read as {}: {:?}", code, req.name(), r)));
        }
    }
    out
}

/// Index route: a valid .shp with a .shx whose header carries `code`, in memory and opened by path.
fn check_shx_header(code: i32, on_disk: bool) -> Option<(String, String)> {
    let mut shp = codec::encode_header(50 + 4 + 10, 1, &[0.0; 8]);
    shp.extend(1i32.to_be_bytes());
    shp.extend(10i32.to_be_bytes());
    shp.extend(1i32.to_le_bytes());
    shp.extend([0u8; 16]);
    let mut shx = codec::encode_header(54, code, &[0.0; 8]);
    shx.extend(50i32.to_be_bytes());
    shx.extend(10i32.to_be_bytes());
    let r: Result<(), String> = if on_disk {
        let dir = super::c01_c02::scratch_dir();
        let tid: String = format!("{:?}", std::thread::current().id()).chars().filter(|c| c.is_ascii_digit()).collect();
        let p = dir.join(format!("c19-{}.shp", tid));
        std::fs::write(&p, &shp).ok()?;
        std::fs::write(p.with_extension("shx"), &shx).ok()?;
        let r = ShapeReader::from_path(&p).map(|_| ()).map_err(|e| err_kind(&e));
        let _ = std::fs::remove_file(&p);
        let _ = std::fs::remove_file(p.with_extension("shx"));
        r
    } else {
        ShapeReader::with_shx(Dev::quiet(shp), Dev::quiet(shx)).map(|_| ()).map_err(|e| err_kind(&e))
    };
    let route = if on_disk { "shx-header:from_path" } else { "shx-header:with_shx" };
    match (r, Ty::from_code(code)) {
        (Ok(()), Some(_)) => None,
        (Err(e), None) if e == format!("InvalidShapeType({})", code) => None,
        (r, _) => Some((format!("{}:wrong-answer", route), format!("index header code {}: {:?}", code, r))),
    }
}

fn structured_codes() -> Vec<i32> {
    let mut v: Vec<i32> = (-4096..=4096).collect();
    for i in 0..32 {
        v.push(1i32.wrapping_shl(i));
        v.push(!(1i32.wrapping_shl(i)));
        for j in 0..i {
            v.push(1i32.wrapping_shl(i) | 1i32.wrapping_shl(j));
        }
    }
    for t in ALL14 {
        // codes that resemble a valid one in their low byte / low half
        for m in [1i32, 2, 3, 255, 256, 257, 65535, 65536, (1 << 23) - 1, 1 << 23] {
            v.push(t.code().wrapping_add(m.wrapping_mul(256)));
            v.push(t.code().wrapping_sub(m.wrapping_mul(256)));
        }
        v.push(t.code().swap_bytes());
        v.push(t.code() | i32::MIN);
        v.push(t.code() << 8);
        v.push(t.code() << 16);
        v.push(-t.code());
    }
    for d in 0..=4096 {
        v.push(i32::MIN + d);
        v.push(i32::MAX - d);
    }
    v.sort_unstable();
    v.dedup();
    v
}

fn predicates() -> Vec<(String, String)> {
    let mut out = vec![];
    for t in ALL14 {
        let lt = lib_ty(t);
        if lt.has_z() != t.has_z() {
            out.push(("predicate:has_z".into(), format!("{}.has_z() = {}", t.name(), lt.has_z())));
        }
        if lt.has_m() != t.has_m_table() {
            out.push(("predicate:has_m".into(), format!("{}.has_m() = {}", t.name(), lt.has_m())));
        }
        // the statement lists the point, multipoint, polyline, polygon and
        // multipatch families; the null shape is in neither list, so nothing
        // is demanded of it (the library answers `true`)
        if t != Ty::Null && lt.is_multipart() != t.is_multipart() {
            out.push(("predicate:is_multipart".into(), format!("{}.is_multipart() = {}", t.name(), lt.is_multipart())));
        }
        // names are compared up to case and separators ("PolyLine", "Null Shape" are the
        // whitepaper's own spellings; the statement asks for the table's names, not a casing)
        let norm = |s: &str| s.chars().filter(|c| c.is_ascii_alphanumeric()).collect::<String>().to_ascii_lowercase();
        if norm(&format!("{}", lt)) != norm(t.name()) {
            out.push(("display".into(), format!("{} displays as {:?}", t.name(), format!("{}", lt))));
        }
        if lt as i32 != t.code() {
            out.push(("discriminant".into(), format!("{} as i32 = {}", t.name(), lt as i32)));
        }
    }
    out
}

pub fn check(tier: Tier) -> i32 {
    let started = Instant::now();
    // 2^32 values of ShapeType::from in 4096 blocks of 2^20
    let full_header = tier == Tier::Thorough;
    let nblocks = 4096usize;
    let (mut agg, capped) = par_blocks(nblocks, None, |b, ctx, tick| {
        let lo = (b as i64) << 20;
        let mut somes = 0u64;
        let mut hdr = header_with(0);
        let mut rec = [0u8; 20];
        ctx.track_hashes = false;
        for k in 0..(1i64 << 20) {
            let code = (lo + k) as u32 as i32;
            if ShapeType::from(code).is_some() {
                somes += 1;
            }
            if let Some((sig, d)) = check_from(code) {
                ctx.violation(format!("from:{}", sig), || json!({"route": "from", "code": code}), || d);
            }
            if full_header {
                if let Some((sig, d)) = check_header(code, &mut hdr) {
                    ctx.violation(sig, || json!({"route": "header", "code": code}), || d);
                }
                // typed decoding of the record type code, for all 2^32 values, as the type its low byte resembles
                let low = Ty::from_code(code & 0xff).filter(|t| *t != Ty::Null).unwrap_or(Ty::Point);
                rec[0..4].copy_from_slice(&code.to_le_bytes());
                let r: Result<(), String> = crate::with_ty!(low, S => <S as shapefile::ReadableShape>::read_from(&mut &rec[..], 20).map(|_| ()).map_err(|e| err_kind(&e)), unreachable!());
                let ok = match (Ty::from_code(code), &r) {
                    (None, Err(e)) => *e == format!("InvalidShapeType({})", code),
                    (None, Ok(())) => false,
                    (Some(_), Err(e)) => !e.starts_with("InvalidShapeType"),
                    (Some(_), Ok(())) => true,
                };
                if !ok {
                    ctx.violation("typed-decode:wrong-answer", || json!({"route": "typed-record", "code": code}), || format!("{:?}", r));
                }
            }
        }
        ctx.evals += 1 << 20;
        ctx.lib_calls += (1 << 20) * if full_header { 2 } else { 1 };
        ctx.bump("codes_accepted_by_from", somes);
        tick();
    });
    // structured set through the header and record routes
    let codes = structured_codes();
    let mut ctx = Ctx::new();
    let mut hdr = header_with(0);
    for c in &codes {
        let mut oh = Fnv::new();
        oh.u64(Ty::from_code(*c).map(|t| t.code() as u64 + 1).unwrap_or(0));
        let mut hh = Fnv::new();
        hh.u64(*c as u32 as u64);
        ctx.case_done(hh.finish(), true, oh.finish());
        if let Some((sig, d)) = check_header(*c, &mut hdr) {
            ctx.violation(sig, || json!({"route": "header", "code": c}), || d);
        }
        // the same header with other values in the fields a reader has no use for (version, the unused words):
        // the verdict on the type code must not depend on them
        for (vi, version) in HEADER_VERSIONS.iter().enumerate() {
            let mut h2 = header_with(0);
            h2[28..32].copy_from_slice(&version.to_le_bytes());
            if vi % 2 == 1 {
                for b in h2[4..24].iter_mut() {
                    *b = 0xA5;
                }
            }
            if let Some((sig, d)) = check_header(*c, &mut h2) {
                ctx.violation(format!("{}[version]", sig), || json!({"route": "header-version", "code": c, "version": version}), || format!("version field {:#x}: {}", version, d));
            }
        }
        for (k, f) in [(0usize, check_record_typed as fn(i32) -> Option<(String, String)>)] {
            match catch(|| f(*c)) {
                Ok(Some((sig, d))) => ctx.violation(sig, || json!({"route": "typed-record", "code": c}), || d),
                Ok(None) => {}
                Err(p) => ctx.violation(format!("typed-record:{}:{}", k, p.sig()), || json!({"route": "typed-record", "code": c}), || p.msg.clone()),
            }
        }
        if let Ok(Some((sig, d))) = catch(|| check_shx_header(*c, false)) {
            ctx.violation(sig, || json!({"route": "shx-header", "code": c}), || d);
        }
        if c.rem_euclid(37) == 0 || Ty::from_code(*c & 0xff).is_some() && c.unsigned_abs() < 70000 {
            if let Ok(Some((sig, d))) = catch(|| check_shx_header(*c, true)) {
                ctx.violation(sig, || json!({"route": "shx-header-disk", "code": c}), || d);
            }
        }
        match catch(|| check_record(*c)) {
            Ok(Some((sig, d))) => ctx.violation(sig, || json!({"route": "record", "code": c}), || d),
            Ok(None) => {}
            Err(p) => ctx.violation(format!("record:{}", p.sig()), || json!({"route": "record", "code": c}), || p.msg.clone()),
        }
        ctx.lib_calls += 3;
    }
    for (sig, d) in predicates() {
        ctx.violation(sig, || json!({"route": "predicates"}), || d);
    }
    ctx.samples = vec![json!({"route": "from", "code": 25}), json!({"route": "header", "code": -2147483647}), json!({"route": "record", "code": 16777216})];
    let accepted = agg.extra.get("codes_accepted_by_from").copied().unwrap_or(0);
    if accepted != 14 {
        ctx.violation("from:count", || json!({"route": "from-count"}), || format!("{} of the 2^32 codes are accepted, expected 14", accepted));
    }
    let agg2 = merge(vec![ctx]);
    // combine
    agg.evals += agg2.evals;
    agg.lib_calls += agg2.lib_calls;
    agg.distinct_cases = (1u64 << 32).max(agg2.distinct_cases);
    agg.distinct_nontrivial = 1u64 << 32;
    agg.distinct_outcomes = agg2.distinct_outcomes;
    agg.samples = agg2.samples;
    for (k, f) in agg2.findings {
        agg.findings.insert(k, f);
    }
    // self-test: the table oracle must object to tampered answers
    let mut inj = 0;
    let mut det = 0;
    for (code, r) in [
        (7, Ok(ShapeType::Point)),
        (5, Ok(ShapeType::Polyline)),
        (5, Err("InvalidShapeType(5)".to_string())),
        (6, Err("InvalidShapeType(5)".to_string())),
        (6, Err("InvalidFileCode(6)".to_string())),
    ] {
        inj += 1;
        det += judge_read("selftest", code, r).is_some() as u64;
    }
    finish(
        RunInfo {
            prop: "C19",
            tier,
            level: "model_checking",
            engine: "complete enumeration of the 2^32 code domain on the real ShapeType::from (and Header::read_from in the thorough tier), plus structured codes through header and record routes",
            rule: "ShapeType::from(c) for all 2^32 values c against the literal ESRI table (counted in blocks of 2^20, so distinct == evaluations by construction for that part); header (also with the version field byte-swapped, 0, -1, 1001 and the unused words filled), one-record-file (generic: content of 4 / 20 / 36 bytes x {iter_shapes, read, read_nth_shape through an index}; typed: read as the type whose code equals the low byte), and index-header (with_shx and from_path) routes over the structured set (|c|<=4096, all one- and two-bit patterns and complements, byte-swapped / shifted / negated valid codes, +-4096 around i32::MIN/MAX, valid codes +- m*256 for m up to 2^23) in quick and over all 2^32 headers in thorough; predicates and Display for the 14 types",
            bounds: json!({"domain": "2^32 complete", "structured_codes": codes.len(), "header_route_complete": full_header}),
            exhaustive: true,
            assumptions: vec!["distinct_nontrivial for the 2^32 sweep is the size of the swept domain (each value visited exactly once by construction), not a hash count".into()],
            started,
            states: 1u64 << 32,
            transitions: (1u64 << 32) * if full_header { 2 } else { 1 },
            selftest: (inj, det),
            extra: Default::default(),
        },
        agg,
        capped,
    )
}

pub fn replay(v: &Value) -> Vec<(String, String)> {
    let route = v.get("route").and_then(|x| x.as_str()).unwrap_or("");
    let code = v.get("code").and_then(|x| x.as_i64()).unwrap_or(0) as i32;
    let r = match route {
        "from" => check_from(code).map(|(s, d)| (format!("from:{}", s), d)),
        "header" => check_header(code, &mut header_with(0)),
        "header-version" => {
            let mut h = header_with(0);
            let ver = v.get("version").and_then(|x| x.as_i64()).unwrap_or(1000) as i32;
            h[28..32].copy_from_slice(&ver.to_le_bytes());
            check_header(code, &mut h)
        }
        "record" => check_record(code),
        "typed-record" => check_record_typed(code),
        "shx-header" => check_shx_header(code, false),
        "shx-header-disk" => check_shx_header(code, true),
        "predicates" => return predicates(),
        "from-count" => {
            let n = (0..=u32::MAX).filter(|c| ShapeType::from(*c as i32).is_some()).count();
            if n == 14 {
                None
            } else {
                Some(("from:count".to_string(), format!("{} codes accepted", n)))
            }
        }
        _ => Some(("bad-replay-file".to_string(), "unknown route".to_string())),
    };
    r.into_iter().collect()
}
