//! C03: the reader decodes every spec-conformant .shp, including layouts
//! the library's own writer never emits.  Files come from the RefCodec
//! encoder; the library's reader is the subject.

use crate::bridge::*;
use crate::dev::Dev;
use crate::engine::*;
use crate::iterprog::{self, Prog, PROGS};
use crate::model::*;
use crate::refmodel::codec::{self, MBody, MFile, MRecord};
use crate::with_ty;
use serde_json::{json, Value};
use shapefile::{Shape, ShapeReader};
use std::time::Instant;

#[derive(Clone, Debug)]
pub struct Case {
    pub file: MFile,
    pub ndev: u8,
}

fn body_json(b: &MBody) -> Value {
    match b {
        MBody::Null => json!("null"),
        // very large generated shapes are named, not spelled out
        MBody::Shape { shape, bbox, with_m } if shape.parts.iter().map(|p| p.pts.len()).sum::<usize>() > 20_000 && {
            let n = shape.parts.last().map(|p| p.pts.len()).unwrap_or(0);
            let s = crate::structs::sized(shape.ty, n);
            let (mut a, mut b) = (Fnv::new(), Fnv::new());
            s.hash_into(&mut a);
            shape.hash_into(&mut b);
            a.finish() == b.finish() && codec::true_bbox(&s).map(|f| f.to_bits()) == bbox.map(|f| f.to_bits())
        } => json!({"sized": shape.parts.last().map(|p| p.pts.len()).unwrap_or(0), "ty": shape.ty.name(), "with_m": with_m}),
        MBody::Shape { shape, bbox, with_m } => json!({
            "shape": shape.to_json(), "with_m": with_m,
            "bbox": bbox.iter().map(|f| fjson(*f)).collect::<Vec<_>>() }),
    }
}
fn body_from(v: &Value) -> Option<MBody> {
    if v.as_str() == Some("null") {
        return Some(MBody::Null);
    }
    if let Some(n) = v.get("sized").and_then(|x| x.as_u64()) {
        let shape = crate::structs::sized(Ty::from_name(v.get("ty")?.as_str()?)?, n as usize);
        let bbox = codec::true_bbox(&shape);
        return Some(MBody::Shape { shape, bbox, with_m: v.get("with_m")?.as_bool()? });
    }
    let mut bbox = [0.0; 8];
    for (i, x) in v.get("bbox")?.as_array()?.iter().enumerate() {
        bbox[i] = fparse(x)?;
    }
    Some(MBody::Shape {
        shape: MShape::from_json(v.get("shape")?)?,
        with_m: v.get("with_m")?.as_bool()?,
        bbox,
    })
}

impl Case {
    pub fn to_json(&self) -> Value {
        json!({
            "ty": self.file.ty.name(), "ndev": self.ndev,
            "records": self.file.records.iter().map(|r| json!({"number": r.number, "body": body_json(&r.body)})).collect::<Vec<_>>(),
            "trailing_hex": self.file.trailing.iter().map(|b| format!("{:02x}", b)).collect::<String>(),
        })
    }
    pub fn from_json(v: &Value) -> Option<Case> {
        let th = v.get("trailing_hex")?.as_str()?;
        let trailing = (0..th.len() / 2).map(|i| u8::from_str_radix(&th[2 * i..2 * i + 2], 16).ok()).collect::<Option<Vec<u8>>>()?;
        Some(Case {
            ndev: v.get("ndev")?.as_u64()? as u8,
            file: MFile {
                ty: Ty::from_name(v.get("ty")?.as_str()?)?,
                header_box: [0.0; 8],
                trailing,
                records: v
                    .get("records")?
                    .as_array()?
                    .iter()
                    .map(|r| {
                        Some(MRecord {
                            number: r.get("number")?.as_i64()? as i32,
                            body: body_from(r.get("body")?)?,
                        })
                    })
                    .collect::<Option<Vec<_>>>()?,
            },
        })
    }
    fn hash(&self, bytes: &[u8]) -> u64 {
        let mut h = Fnv::new();
        h.bytes(bytes);
        h.finish()
    }
}

pub struct Obs {
    pub read: Result<Vec<MRead>, String>,
    pub iter: Result<Vec<MRead>, String>,
    /// read_as::<T>() when the file has no null record (and is not a null file)
    pub typed: Option<Result<Vec<MRead>, String>>,
    pub header_ty: Result<Ty, String>,
    /// files of 3 records: the iterator driven through std adaptors (reader state 0 fresh / 1 after one next(), program, answers)
    pub progs: Vec<(u8, Prog, iterprog::Out<Result<MRead, String>>)>,
    /// small files: the stream stored behind a prefix of 37 bytes resp. of more bytes than the stream has, the source
    /// handed over positioned at the first byte of the stream (a member of an uncompressed container)
    pub embedded: Vec<(usize, Result<Vec<MRead>, String>)>,
}

pub fn observe(case: &Case, bytes: &[u8]) -> Obs {
    observe_chunked(case, bytes, 0)
}

/// `chunk` > 0: the source returns at most that many bytes per read call
pub fn observe_chunked(case: &Case, bytes: &[u8], chunk: usize) -> Obs {
    let n = case.file.records.len();
    let dev = |b: Vec<u8>| {
        let d = Dev::quiet(b);
        if chunk > 0 {
            d.set_chunking(crate::dev::Chunking::Uniform(chunk));
        }
        d
    };
    let read = ShapeReader::new(dev(bytes.to_vec()))
        .and_then(|r| r.read())
        .map(|v| v.iter().map(from_lib).collect())
        .map_err(|e| err_kind(&e));
    let mut header_ty = Err("not opened".to_string());
    let iter = ShapeReader::new(dev(bytes.to_vec())).map_err(|e| err_kind(&e)).and_then(|mut r| {
        header_ty = Ok(model_ty(r.header().shape_type));
        let mut v = vec![];
        for it in r.iter_shapes() {
            if v.len() > n + 4 {
                return Err("iteration does not end".into());
            }
            match it {
                Ok(s) => v.push(from_lib(&s)),
                Err(e) => return Err(format!("item {}: {}", v.len(), err_kind(&e))),
            }
        }
        Ok(v)
    });
    let all_typed = case.file.ty != Ty::Null && case.file.records.iter().all(|r| !matches!(r.body, MBody::Null));
    let typed = if all_typed {
        Some(with_ty!(case.file.ty, T => ShapeReader::new(dev(bytes.to_vec()))
            .and_then(|r| r.read_as::<T>())
            .map(|v| v.into_iter().map(|s| from_lib(&Shape::from(s))).collect())
            .map_err(|e| err_kind(&e)), unreachable!()))
    } else {
        None
    };
    let mut progs = vec![];
    if n == 3 && bytes.len() < 100_000 {
        for pre in 0..2u8 {
            for p in PROGS {
                if let Ok(mut r) = ShapeReader::new(dev(bytes.to_vec())) {
                    if pre == 1 && r.iter_shapes().next().is_none() {
                        continue;
                    }
                    let o = iterprog::run(r.iter_shapes(), p, n + 3);
                    progs.push((pre, p, iterprog::Out { answers: o.answers.into_iter().map(|a| a.map(|x| x.map(|s| from_lib(&s)).map_err(|e| err_kind(&e)))).collect(), count: o.count }));
                }
            }
        }
    }
    let mut embedded = vec![];
    if bytes.len() < 20_000 {
        for prefix in [37usize, bytes.len() + 11] {
            let mut b = vec![0x5Au8; prefix];
            b.extend_from_slice(bytes);
            let mut d = dev(b);
            let res = std::io::Seek::seek(&mut d, std::io::SeekFrom::Start(prefix as u64)).map_err(|e| e.to_string()).and_then(|_| {
                ShapeReader::new(d).map_err(|e| err_kind(&e)).and_then(|mut r| {
                    let mut v = vec![];
                    for it in r.iter_shapes() {
                        if v.len() > n + 4 {
                            return Err("iteration does not end".into());
                        }
                        match it {
                            Ok(s) => v.push(from_lib(&s)),
                            Err(e) => return Err(format!("item {}: {}", v.len(), err_kind(&e))),
                        }
                    }
                    Ok(v)
                })
            });
            embedded.push((prefix, res));
        }
    }
    Obs { read, iter, typed, header_ty, progs, embedded }
}

/// What the statement demands for one record.
pub fn cmp_record(rec: &MRecord, got: &MRead) -> Option<String> {
    let (shape, bbox, with_m) = match &rec.body {
        MBody::Null => {
            return if got.shape.ty == Ty::Null { None } else { Some(format!("null-record read as {}", got.shape.ty.name())) };
        }
        MBody::Shape { shape, bbox, with_m } => (shape, bbox, *with_m),
    };
    let g = &got.shape;
    if g.ty != shape.ty {
        return Some(format!("type {} != {}", g.ty.name(), shape.ty.name()));
    }
    if g.parts.len() != shape.parts.len() {
        return Some(format!("part-count {} != {}", g.parts.len(), shape.parts.len()));
    }
    let dims = shape.ty.dims();
    let multi = shape.ty.family() != Family::Point;
    let m_present = match shape.ty {
        Ty::PointM => true,
        _ => shape.ty.carries_m() && with_m,
    };
    for (pi, (ep, gp)) in shape.parts.iter().zip(&g.parts).enumerate() {
        if ep.pts.len() != gp.pts.len() {
            return Some(format!("part-{}-length {} != {}", pi, gp.pts.len(), ep.pts.len()));
        }
        if shape.ty == Ty::Multipatch && ep.kind != gp.kind {
            return Some(format!("patch-kind part {}: {} != {}", pi, gp.kind, ep.kind));
        }
        for (vi, (ev, gv)) in ep.pts.iter().zip(&gp.pts).enumerate() {
            for d in 0..3 {
                if dims[d] && ev[d].to_bits() != gv[d].to_bits() {
                    return Some(format!("coord-{} part {} vertex {}: {} != {}", ["x", "y", "z"][d], pi, vi, fshow(gv[d]), fshow(ev[d])));
                }
            }
            if dims[3] {
                let want = if !m_present {
                    NO_DATA
                } else if multi {
                    norm_m(ev[3])
                } else {
                    ev[3]
                };
                if want.to_bits() != gv[3].to_bits() {
                    return Some(format!(
                        "measure{} part {} vertex {}: {} != {}",
                        if m_present { "" } else { "-absent" },
                        pi,
                        vi,
                        fshow(gv[3]),
                        fshow(want)
                    ));
                }
            }
        }
    }
    if let Some(gb) = &got.bbox {
        let used = [true, true, true, true, dims[2], dims[2], dims[3] && m_present, dims[3] && m_present];
        for k in 0..8 {
            if used[k] && gb[k].to_bits() != bbox[k].to_bits() {
                return Some(format!("stored-box field {}: {} != {}", k, fshow(gb[k]), fshow(bbox[k])));
            }
        }
    } else if multi {
        return Some("stored-box missing".into());
    }
    None
}

fn layout_class(case: &Case) -> String {
    // coarse description of what is foreign about the file, for signatures
    let mut tags = vec![];
    for r in &case.file.records {
        match &r.body {
            MBody::Null => tags.push("null-record"),
            MBody::Shape { shape, with_m, .. } => {
                if shape.ty.carries_m() && shape.ty != Ty::PointM && !with_m {
                    tags.push("m-absent");
                }
                if shape.parts.is_empty() {
                    tags.push("zero-parts");
                } else if shape.parts.iter().any(|p| p.pts.is_empty()) {
                    tags.push("empty-part");
                }
            }
        }
    }
    if !case.file.trailing.is_empty() {
        tags.push("trailing");
    }
    if case.file.records.iter().enumerate().any(|(i, r)| r.number != i as i32 + 1) {
        tags.push("odd-numbers");
    }
    tags.sort();
    tags.dedup();
    if tags.is_empty() {
        "plain".into()
    } else {
        tags.join("+")
    }
}

pub fn judge(case: &Case, o: &Obs) -> Vec<(String, String)> {
    let mut out = vec![];
    let tn = case.file.ty.name();
    let lc = layout_class(case);
    let recs = &case.file.records;
    let mut routes: Vec<(&str, &Result<Vec<MRead>, String>)> = vec![("read", &o.read), ("iter_shapes", &o.iter)];
    if let Some(t) = &o.typed {
        routes.push(("read_as", t));
    }
    for (prefix, r) in &o.embedded {
        routes.push((if *prefix == 37 { "iter_shapes(stream behind a prefix of 37 bytes)" } else { "iter_shapes(stream behind a prefix longer than itself)" }, r));
    }
    for (name, r) in routes {
        match r {
            Err(e) => out.push((format!("{}:{}:error[{}]", tn, name, lc), format!("{}: {}", name, e))),
            Ok(v) => {
                if v.len() != recs.len() {
                    out.push((format!("{}:{}:count[{}]", tn, name, lc), format!("{} returned {} shapes for {} records", name, v.len(), recs.len())));
                    continue;
                }
                for (i, (rec, got)) in recs.iter().zip(v).enumerate() {
                    if let Some(c) = cmp_record(rec, got) {
                        out.push((
                            format!("{}:{}:{}[{}]", tn, name, crate::oracle::clause_class(&c), lc),
                            format!("{} record {}: {}", name, i, c),
                        ));
                        break;
                    }
                }
            }
        }
    }
    if o.header_ty != Ok(case.file.ty) {
        out.push((format!("{}:header-type", tn), format!("{:?}", o.header_ty)));
    }
    for (pre, p, got) in &o.progs {
        let (want, _) = iterprog::reference(*pre as usize, recs.len(), *p, recs.len() + 3);
        let same = want.count == got.count
            && want.answers.len() == got.answers.len()
            && want.answers.iter().zip(&got.answers).all(|(w, g)| match (w, g) {
                (None, None) => true,
                (Some(k), Some(Ok(s))) => cmp_record(&recs[*k], s).is_none(),
                _ => false,
            });
        if !same {
            let shown: Vec<String> = got.answers.iter().map(|x| match x {
                None => "None".to_string(),
                Some(Err(e)) => format!("Err({})", e),
                Some(Ok(s)) => match recs.iter().position(|r| cmp_record(r, s).is_none()) {
                    Some(k) => format!("record {}", k),
                    None => "a shape the file does not encode".into(),
                },
            }).collect();
            out.push((
                format!("{}:adaptor-iteration[{}]", tn, lc),
                format!("{} {}: returned {:?} count {:?}; the {} records give {:?} count {:?}", p.name(), ["on a fresh reader", "after one next()"][*pre as usize], shown, got.count, recs.len(), want.answers, want.count),
            ));
            break;
        }
    }
    out
}

// ---------------------------------------------------------------------
// generation

fn part_structures(ty: Ty) -> Vec<Vec<usize>> {
    match ty.family() {
        Family::Null => vec![],
        Family::Point => vec![vec![1]],
        Family::Multipoint => (0..=3).map(|n| vec![n]).collect(),
        _ => {
            let mut out = vec![vec![]];
            let mut cur: Vec<Vec<usize>> = vec![vec![]];
            for _ in 0..3 {
                let mut next = vec![];
                for c in &cur {
                    for l in 0..=3 {
                        let mut x = c.clone();
                        x.push(l);
                        next.push(x);
                    }
                }
                out.extend(next.iter().cloned());
                cur = next;
            }
            out
        }
    }
}

/// shape with the given part lengths; polygons get a counter-clockwise
/// first ring when it has >= 3 vertices (foreign layout); multipatch kinds rotate
fn shape_for(ty: Ty, lens: &[usize], salt: usize) -> MShape {
    let mut k = salt * 3;
    let mut parts = vec![];
    for (pi, l) in lens.iter().enumerate() {
        let mut pts: Vec<P4> = (0..*l).map(|i| dflt(k + i)).collect();
        k += l;
        if ty.family() == Family::Polygon && pi == 0 && *l == 3 {
            // counter-clockwise closed-ish triangle on the lattice
            pts[0][0] = 0.0;
            pts[0][1] = 0.0;
            pts[1][0] = 2.0;
            pts[1][1] = 0.0;
            pts[2][0] = 0.0;
            pts[2][1] = 2.0;
        }
        parts.push(MPart { kind: if ty == Ty::Multipatch { ((pi + salt) % 6) as u8 } else { 0 }, pts });
    }
    MShape { ty, parts }
}

fn box_variants(s: &MShape) -> Vec<[f64; 8]> {
    let t = codec::true_bbox(s);
    vec![
        t,
        [0.0; 8],
        [t[2], t[3], t[0], t[1], t[5], t[4], t[7], t[6]],
        [1.5, -2.5, 3.25, 4.75, -5.125, 6.0625, 7.5, -8.25],
        // a stored M range that says "no data" although the M array holds real measures (a producer that never
        // computes the range): the range is returned as stored and says nothing about the array behind it
        [t[0], t[1], t[2], t[3], t[4], t[5], -1e39, -1e39],
        [t[0], t[1], t[2], t[3], t[4], t[5], NO_DATA, f64::NEG_INFINITY],
        // Z and M ranges that compare false with everything
        [t[0], t[1], t[2], t[3], f64::NAN, f64::NAN, f64::NAN, f64::NAN],
    ]
}

fn number_variants(n: usize) -> Vec<Vec<i32>> {
    vec![
        (1..=n as i32).collect(),
        vec![7; n],
        vec![0; n],
        (0..n as i32).map(|i| -1 - i).collect(),
        (0..n as i32).rev().map(|i| i + 1).collect(),
    ]
}

fn trailing_variants(ty: Ty) -> Vec<Vec<u8>> {
    let mut v = vec![vec![], vec![0x00], vec![0xAB; 13]];
    // a complete valid decoy record
    let decoy = if ty == Ty::Null {
        MBody::Null
    } else {
        let lens: Vec<usize> = match ty.family() {
            Family::Point => vec![1],
            Family::Multipoint => vec![2],
            _ => vec![2, 2],
        };
        let s = shape_for(ty, &lens, 9);
        let b = codec::true_bbox(&s);
        MBody::Shape { shape: s, bbox: b, with_m: true }
    };
    let mut f = vec![];
    let content = codec::encode_content(&decoy, &mut f, 0, 0);
    let mut d = vec![];
    d.extend(99i32.to_be_bytes());
    d.extend(((content.len() / 2) as i32).to_be_bytes());
    d.extend(content);
    v.push(d);
    v
}

fn m_variants(ty: Ty) -> Vec<bool> {
    if ty.carries_m() && ty != Ty::PointM {
        vec![true, false]
    } else {
        vec![true]
    }
}

fn record_variants(ty: Ty) -> Vec<MBody> {
    let mut out = vec![MBody::Null];
    if ty == Ty::Null {
        return out;
    }
    for (si, lens) in part_structures(ty).iter().enumerate() {
        let s = shape_for(ty, lens, si % 5);
        for with_m in m_variants(ty) {
            for b in box_variants(&s) {
                out.push(MBody::Shape { shape: s.clone(), bbox: b, with_m });
                if ty.family() == Family::Point {
                    break;
                }
            }
        }
    }
    out
}

/// six representative variants (incl. null) for sequences
fn reduced_variants(ty: Ty) -> Vec<MBody> {
    let all = record_variants(ty);
    if all.len() <= 6 {
        return all;
    }
    let mut out = vec![MBody::Null];
    let pick = |pred: &dyn Fn(&MShape, bool) -> bool| -> Option<MBody> {
        all.iter()
            .find(|b| match b {
                MBody::Shape { shape, with_m, .. } => pred(shape, *with_m),
                _ => false,
            })
            .cloned()
    };
    let cands: Vec<Box<dyn Fn(&MShape, bool) -> bool>> = vec![
        Box::new(|s, m| m && s.n_points() >= 3 && s.parts.len() >= 2),
        Box::new(|s, m| !m && s.n_points() >= 2),
        Box::new(|s, _| s.parts.is_empty() || s.n_points() == 0),
        Box::new(|s, m| m && s.n_points() == 1),
        Box::new(|s, m| m && s.parts.len() == 3 && s.parts[0].pts.is_empty() && s.n_points() >= 2),
    ];
    for c in cands {
        if let Some(b) = pick(&*c) {
            out.push(b);
        }
    }
    out
}

struct Unit {
    ty: Ty,
    kind: UKind,
}
enum UKind {
    /// n = 0 and n = 1: variants[lo..hi] x numbering x trailing
    Singles { lo: usize, hi: usize },
    /// sequences of length n over the reduced variants: tuple index range
    Seqs { n: usize },
    /// deviations on one-record files: reduced variant idx
    Devs { idx: usize, dmax: u8 },
    /// size ladder (large parts / many parts), with and without the M block
    Ladder { idx: usize },
    /// every part length in [lo, hi), with and without the M block
    Sizes { lo: usize, hi: usize },
    /// one record of more than 10 MiB (a part of n points): alone, last of two, followed by a null record
    Huge { n: usize },
    /// sizes crossed with values and structure: a special measure / Z inside a long part; two long parts of every
    /// ordered pair of lengths
    Cross,
}

fn run_case(case: &Case, ctx: &mut Ctx) {
    let enc = codec::encode(&case.file);
    let bytes = enc.bytes;
    let h = case.hash(&bytes);
    let nontrivial = layout_class(case) != "plain" || case.ndev > 0 || case.file.records.len() >= 2;
    let obs = match catch(|| observe(case, &bytes)) {
        Ok(o) => o,
        Err(p) => {
            ctx.case_done(h, nontrivial, 1);
            ctx.violation(format!("{}:{}", case.file.ty.name(), p.sig()), || case.to_json(), || format!("{}:{} {}", p.file, p.line, p.msg));
            return;
        }
    };
    ctx.lib_calls += 3 + 2 * case.file.records.len() as u64;
    let mut oh = Fnv::new();
    oh.str(&layout_class(case));
    oh.u64(case.file.ty.code() as u64);
    oh.u64(obs.read.as_ref().map(|v| v.len() as u64).unwrap_or(999));
    ctx.case_done(h, nontrivial, oh.finish());
    if case.file.records.len() == 2 && !case.file.trailing.is_empty() && bytes.len() < 2000 {
        ctx.sample(|| case.to_json());
    }
    for (sig, d) in judge(case, &obs) {
        ctx.violation(sig, || case.to_json(), || d);
    }
    // multi-record files again through sources that return fewer bytes than asked
    if case.file.records.len() >= 2 && case.ndev == 0 {
        for chunk in [1usize, 5] {
            match catch(|| observe_chunked(case, &bytes, chunk)) {
                Ok(o) => {
                    ctx.lib_calls += 3;
                    for (sig, d) in judge(case, &o) {
                        ctx.violation(format!("short-reads:{}", sig), || case.to_json(), || format!("source returning <= {} bytes per read: {}", chunk, d));
                    }
                }
                Err(p) => ctx.violation(format!("short-reads:{}", p.sig()), || case.to_json(), || p.msg.clone()),
            }
        }
    }
}

fn file_of(ty: Ty, bodies: Vec<MBody>, numbers: &[i32], trailing: Vec<u8>) -> MFile {
    MFile {
        ty,
        header_box: [0.0; 8],
        records: bodies.into_iter().zip(numbers).map(|(body, number)| MRecord { number: *number, body }).collect(),
        trailing,
    }
}

fn enumerate(u: &Unit, tier: Tier, ctx: &mut Ctx, tick: &dyn Fn()) {
    let ty = u.ty;
    match &u.kind {
        UKind::Singles { lo, hi } => {
            let vars = record_variants(ty);
            if *lo == 0 {
                for tr in trailing_variants(ty) {
                    run_case(&Case { file: file_of(ty, vec![], &[], tr), ndev: 0 }, ctx);
                    tick();
                }
            }
            for b in &vars[*lo..(*hi).min(vars.len())] {
                for nums in number_variants(1) {
                    for tr in trailing_variants(ty) {
                        run_case(&Case { file: file_of(ty, vec![b.clone()], &nums, tr), ndev: 0 }, ctx);
                        tick();
                    }
                }
            }
        }
        UKind::Seqs { n } => {
            let mut red = reduced_variants(ty);
            if *n >= 4 {
                red.truncate(4);
            }
            for t in crate::structs::tuples(red.len(), *n) {
                let bodies: Vec<MBody> = t.iter().map(|i| red[*i].clone()).collect();
                for nums in number_variants(*n) {
                    for tr in trailing_variants(ty) {
                        run_case(&Case { file: file_of(ty, bodies.clone(), &nums, tr), ndev: 0 }, ctx);
                        tick();
                    }
                }
            }
        }
        UKind::Sizes { lo, hi } => {
            for n in *lo..*hi {
                let s = crate::structs::sized(ty, n);
                for with_m in m_variants(ty) {
                    let bbox = codec::true_bbox(&s);
                    let body = MBody::Shape { shape: s.clone(), bbox, with_m };
                    run_case(&Case { file: file_of(ty, vec![body.clone(), MBody::Null], &[1, 2], vec![0xAB; 13]), ndev: 0 }, ctx);
                }
                tick();
            }
        }
        UKind::Cross => {
            let pts = |start: usize, n: usize| -> Vec<P4> { (0..n).map(|i| { let k = (start + i) as f64; [k * 0.5, 3.0 - k * 0.25, 100.0 + k, 1000.0 + k * 0.125] }).collect() };
            let fam = ty.family();
            let multi = |lens: &[usize]| -> MShape {
                if fam == Family::Multipoint {
                    return MShape { ty, parts: vec![MPart { kind: 0, pts: pts(0, lens.iter().sum()) }] };
                }
                let mut k = 0;
                let parts = lens.iter().enumerate().map(|(i, l)| {
                    let kind = if fam == Family::Multipatch { [2u8, 0, 3][i % 3] } else { 0 };
                    let p = MPart { kind, pts: pts(k, *l) };
                    k += l;
                    p
                }).collect();
                MShape { ty, parts }
            };
            let red = reduced_variants(ty);
            let mut emit = |s: MShape, with_m: bool, nd: u8, ctx: &mut Ctx| {
                let bbox = codec::true_bbox(&s);
                let body = MBody::Shape { shape: s, bbox, with_m };
                run_case(&Case { file: file_of(ty, vec![body.clone(), red[1 % red.len()].clone()], &[1, 2], vec![0xAB; 13]), ndev: nd }, ctx);
                tick();
            };
            let dims = ty.dims();
            for n in [300usize, 1030, 2100, 9000, 20000] {
                let base = multi(&[3, n, 2]);
                let (pi, off) = if fam == Family::Multipoint { (0, 3) } else { (1, 0) };
                for pos in [0usize, n / 2, n - 1] {
                    for (d, vals) in [(3usize, vec![f64::NAN, f64::NEG_INFINITY, -2e39, NO_DATA]), (2usize, vec![f64::NAN])] {
                        if !dims[d] {
                            continue;
                        }
                        for v in vals {
                            let mut s = base.clone();
                            s.parts[pi].pts[off + pos][d] = v;
                            emit(s, true, 1, ctx);
                        }
                    }
                }
            }
            // long records as they are, with and without the M block, each followed by another record
            for n in [300usize, 1030, 9000, 16384, 20000, 70000] {
                for with_m in m_variants(ty) {
                    emit(multi(&[3, n, 2]), with_m, 0, ctx);
                }
            }
            if fam != Family::Multipoint {
                // three long parts of more than 2^16 points in total; an empty part inside such a record; very many parts
                for lens in [vec![30000usize, 30000, 6000], vec![20000, 25000, 21000], vec![30000, 0, 36000], vec![40000, 30000, 0, 4]] {
                    for with_m in m_variants(ty) {
                        emit(multi(&lens), with_m, 0, ctx);
                    }
                }
                for np in [16384usize, 20000, 32767, 32768, 40000, 65536] {
                    emit(multi(&vec![2; np]), true, 0, ctx);
                }
            }
            if fam != Family::Multipoint {
                let ls = [260usize, 300, 1030, 16390];
                for a in ls {
                    for b in ls {
                        for with_m in m_variants(ty) {
                            emit(multi(&[a, b, 4]), with_m, 0, ctx);
                        }
                    }
                }
            }
        }
        UKind::Huge { n } => {
            let s = crate::structs::sized(ty, *n);
            let red = reduced_variants(ty);
            let bbox = codec::true_bbox(&s);
            let body = MBody::Shape { shape: s, bbox, with_m: true };
            run_case(&Case { file: file_of(ty, vec![body.clone()], &[1], vec![]), ndev: 0 }, ctx);
            tick();
            run_case(&Case { file: file_of(ty, vec![red[1 % red.len()].clone(), body.clone()], &[1, 2], vec![]), ndev: 0 }, ctx);
            tick();
            run_case(&Case { file: file_of(ty, vec![body, MBody::Null], &[1, 2], vec![0xAB; 13]), ndev: 0 }, ctx);
            tick();
        }
        UKind::Ladder { idx } => {
            let big = crate::structs::ladder(ty)[*idx].clone();
            let red = reduced_variants(ty);
            for with_m in m_variants(ty) {
                let bbox = codec::true_bbox(&big);
                let body = MBody::Shape { shape: big.clone(), bbox, with_m };
                run_case(&Case { file: file_of(ty, vec![body.clone()], &[1], vec![]), ndev: 0 }, ctx);
                run_case(&Case { file: file_of(ty, vec![red[1 % red.len()].clone(), body, red[0].clone()], &[1, 2, 3], vec![0xAB; 13]), ndev: 0 }, ctx);
                tick();
            }
        }
        UKind::Devs { idx, dmax } => {
            let red = reduced_variants(ty);
            let base = match &red[*idx] {
                MBody::Shape { shape, bbox, with_m } => (shape.clone(), *bbox, *with_m),
                MBody::Null => return,
            };
            // slots: every coordinate of every vertex + the 8 box fields
            let dims = ty.dims();
            let mut slots: Vec<(usize, usize, usize)> = vec![]; // (part, vertex, dim) ; part = usize::MAX -> box field `dim`
            for (pi, p) in base.0.parts.iter().enumerate() {
                for vi in 0..p.pts.len() {
                    for d in 0..4 {
                        if dims[d] {
                            slots.push((pi, vi, d));
                        }
                    }
                }
            }
            if ty.family() != Family::Point {
                for k in 0..8 {
                    let used = [true, true, true, true, dims[2], dims[2], dims[3], dims[3]][k];
                    if used {
                        slots.push((usize::MAX, 0, k));
                    }
                }
            }
            let alpha = f_m();
            let set = |b: &mut (MShape, [f64; 8], bool), s: (usize, usize, usize), v: f64| {
                if s.0 == usize::MAX {
                    b.1[s.2] = v;
                } else {
                    b.0.parts[s.0].pts[s.1][s.2] = v;
                }
            };
            let emit = |b: &(MShape, [f64; 8], bool), nd: u8, ctx: &mut Ctx| {
                let body = MBody::Shape { shape: b.0.clone(), bbox: b.1, with_m: b.2 };
                // one-record file and the same record as second of two
                run_case(&Case { file: file_of(ty, vec![body.clone()], &[1], vec![]), ndev: nd }, ctx);
                run_case(&Case { file: file_of(ty, vec![red[1 % red.len()].clone(), body], &[1, 2], vec![0xAB; 13]), ndev: nd }, ctx);
                tick();
            };
            for (i, s) in slots.iter().enumerate() {
                for v in &alpha {
                    let mut b = base.clone();
                    set(&mut b, *s, *v);
                    emit(&b, 1, ctx);
                    if *dmax >= 2 {
                        for s2 in &slots[i + 1..] {
                            for v2 in &alpha {
                                let mut b2 = b.clone();
                                set(&mut b2, *s2, *v2);
                                emit(&b2, 2, ctx);
                            }
                        }
                    }
                }
            }
        }
    }
    let _ = tier;
}

fn selftest() -> (u64, u64) {
    let ty = Ty::PolylineZ;
    let red = reduced_variants(ty);
    let case = Case { file: file_of(ty, vec![red[1].clone(), red[0].clone(), red[2].clone()], &[1, 2, 3], vec![0xAB; 13]), ndev: 0 };
    let bytes = codec::encode(&case.file).bytes;
    if !judge(&case, &observe(&case, &bytes)).is_empty() {
        return (1, 0);
    }
    let mut inj = 0;
    let mut det = 0;
    let mut t = |f: &dyn Fn(&mut Obs)| {
        let mut o = observe(&case, &bytes);
        f(&mut o);
        inj += 1;
        det += (!judge(&case, &o).is_empty()) as u64;
    };
    t(&|o| {
        if let Ok(v) = &mut o.read {
            v.pop();
        }
    });
    t(&|o| {
        if let Ok(v) = &mut o.iter {
            v.swap(0, 2)
        }
    });
    t(&|o| {
        if let Ok(v) = &mut o.read {
            v[1] = v[0].clone()
        }
    });
    t(&|o| {
        if let Ok(v) = &mut o.read {
            // absent measures reported as 0 instead of NO_DATA
            for p in v[2].shape.parts.iter_mut() {
                for q in p.pts.iter_mut() {
                    q[3] = 0.0;
                }
            }
            if let Some(q) = v[0].shape.parts.iter_mut().flat_map(|p| p.pts.iter_mut()).next() {
                q[2] = f64::from_bits(q[2].to_bits() ^ 1);
            }
        }
    });
    t(&|o| {
        if let Ok(v) = &mut o.iter {
            if let Some(b) = &mut v[0].bbox {
                b[0] = 0.0
            }
        }
    });
    t(&|o| o.header_ty = Ok(Ty::Polyline));
    (inj, det)
}

pub fn check(tier: Tier) -> i32 {
    let started = Instant::now();
    let mut units = vec![];
    for ty in ALL14 {
        let nv = record_variants(ty).len();
        let mut lo = 0;
        while lo < nv {
            units.push(Unit { ty, kind: UKind::Singles { lo, hi: lo + 16 } });
            lo += 16;
        }
        units.push(Unit { ty, kind: UKind::Seqs { n: 2 } });
        units.push(Unit { ty, kind: UKind::Seqs { n: 3 } });
        units.push(Unit { ty, kind: UKind::Seqs { n: 4 } });
        for idx in 0..crate::structs::ladder(ty).len() {
            units.push(Unit { ty, kind: UKind::Ladder { idx } });
        }
        if matches!(ty, Ty::Multipoint | Ty::PolylineZ | Ty::PolygonM | Ty::Multipatch) {
            let max = tier.pick(4200usize, 9000);
            let mut lo = 2;
            while lo < max {
                let hi = (lo + (60000 / lo).clamp(8, 400)).min(max);
                units.push(Unit { ty, kind: UKind::Sizes { lo, hi } });
                lo = hi;
            }
        }
        if ty == Ty::Polyline || (tier == Tier::Thorough && matches!(ty, Ty::MultipointZ | Ty::PolygonM | Ty::Multipatch)) {
            units.push(Unit { ty, kind: UKind::Huge { n: 700_001 } });
            if tier == Tier::Thorough {
                units.push(Unit { ty, kind: UKind::Huge { n: 1_400_001 } });
            }
        }
        if matches!(ty, Ty::MultipointM | Ty::PolylineZ | Ty::PolygonM | Ty::Multipatch) || (tier == Tier::Thorough && !matches!(ty.family(), Family::Point | Family::Null)) {
            units.push(Unit { ty, kind: UKind::Cross });
        }
        for idx in 1..reduced_variants(ty).len() {
            units.push(Unit { ty, kind: UKind::Devs { idx, dmax: 1 } });
            if tier == Tier::Thorough && idx <= 2 {
                units.push(Unit { ty, kind: UKind::Devs { idx, dmax: 2 } });
            }
        }
    }
    let (agg, capped) = par_blocks(units.len(), Some(started + std::time::Duration::from_secs(tier.pick(50, 1500))), |b, ctx, tick| {
        enumerate(&units[b], tier, ctx, tick)
    });
    // the self-test runs the library too: on a tree that panics there it counts as failed (a verdict, if there is one,
    // takes precedence over it)
    let st = catch(|| selftest()).unwrap_or((1, 0));
    finish(
        RunInfo {
            prop: "C03",
            tier,
            level: "model_checking",
            engine: "E2 enumerator over files produced by the independent RefCodec encoder, decoded by the real ShapeReader (read, iter_shapes, read_as)",
            rule: "14 file types x {n=0; n=1 over every record variant (part structures with 0-3 parts of 0-3 vertices incl. empty first parts and zero parts, M block present/absent, PointZ 24/32 bytes, 4 stored-box variants, null record) x 5 numbering variants x 4 trailing variants; n=2,3 all ordered tuples over 6 representative variants x numbering x trailing; deviation sets of size <= d over every coordinate and stored-box field from the full float alphabet (NaNs included); EVERY part length from 2 to the size bound for one type per family (with and without the M block); every file of >= 2 records again through sources returning at most 1 resp. 5 bytes per read, and (files of 3 records) with the iterator driven through 14 programs of std adaptors (nth, skip, step_by, last, count) fresh and after one next(); a special measure / Z at the start, middle, end of a part of 300..20000 points, two long parts of every ordered pair over {260, 300, 1030, 16390} with and without the M block, long records with and without the M block followed by another record, three long parts of more than 2^16 points, an empty part inside such a record, 16384 / 20000 / 32767 / 32768 / 40000 / 65536 parts; small files again as a stream stored behind a prefix (shorter resp. longer than the stream), the source handed over positioned at its first byte; records of more than 10 MiB (a part of 700001 points; thorough also 1400001 and three more types) alone, last of two, and followed by a null record}; distinct = hash of the file bytes; non-trivial = foreign layout feature, deviation or >= 2 records",
            bounds: json!({"max_parts": 3, "max_part_len": 3, "max_records": 4, "deviation_bound": tier.pick(1, 2), "alphabet": f_m().len()}),
            exhaustive: true,
            assumptions: vec!["ring roles and the M range of a box whose M block is absent are not in the statement and are not compared".into()],
            started,
            states: 0,
            transitions: 0,
            selftest: st,
            extra: Default::default(),
        },
        agg,
        capped,
    )
}

pub fn replay(v: &Value) -> Vec<(String, String)> {
    match Case::from_json(v) {
        None => vec![("bad-replay-file".into(), "cannot parse case".into())],
        Some(case) => {
            let bytes = codec::encode(&case.file).bytes;
            match catch(|| observe(&case, &bytes)) {
                Ok(o) => judge(&case, &o),
                Err(p) => vec![(format!("{}:{}", case.file.ty.name(), p.sig()), p.msg)],
            }
        }
    }
}
