//! C14: with an index, records are located by the index alone.
//! Files (RefCodec) with every permutation of physical order and every
//! combination of fillers; subject = ShapeReader::with_shx.

use crate::bridge::*;
use crate::dev::Dev;
use crate::engine::*;
use crate::iterprog::{self, Prog, PROGS};
use crate::model::*;
use crate::refmodel::codec::{self, MBody, MRecord};
use crate::structs::*;
use serde_json::{json, Value};
use shapefile::ShapeReader;
use std::time::Instant;

/// filler kinds per gap: 0 none, 1: 2 bytes, 2: 8 bytes, 3: 14 bytes, 4: a
/// complete valid decoy record of the same type
#[derive(Clone, Debug)]
pub struct Case {
    pub ty: Ty,
    pub n: usize,
    /// physical slot j holds record perm[j]
    pub perm: Vec<usize>,
    pub gaps: Vec<u8>,
    pub fill_byte: u8,
    /// the length field of every index entry also covers the filler stored behind its record
    pub stretch: bool,
}

impl Case {
    pub fn to_json(&self) -> Value {
        json!({"ty": self.ty.name(), "n": self.n, "perm": self.perm, "gaps": self.gaps, "fill_byte": self.fill_byte, "index_lengths_cover_fillers": self.stretch})
    }
    pub fn from_json(v: &Value) -> Option<Case> {
        let arr = |k: &str| -> Option<Vec<u64>> { v.get(k)?.as_array()?.iter().map(|x| x.as_u64()).collect() };
        Some(Case {
            ty: Ty::from_name(v.get("ty")?.as_str()?)?,
            n: v.get("n")?.as_u64()? as usize,
            perm: arr("perm")?.into_iter().map(|x| x as usize).collect(),
            gaps: arr("gaps")?.into_iter().map(|x| x as u8).collect(),
            fill_byte: v.get("fill_byte")?.as_u64()? as u8,
            stretch: v.get("index_lengths_cover_fillers").and_then(|x| x.as_bool()).unwrap_or(false),
        })
    }
    fn hash(&self) -> u64 {
        let mut h = Fnv::new();
        h.str(&self.to_json().to_string());
        h.finish()
    }
    fn nontrivial(&self) -> bool {
        self.gaps.iter().any(|g| *g != 0) || self.perm.windows(2).any(|w| w[0] > w[1])
    }
}

/// n records of pairwise different size and content
pub fn records(ty: Ty, n: usize) -> Vec<MRecord> {
    let shapes: Vec<MShape> = match ty.family() {
        Family::Point => (0..n).map(|k| MShape::point(ty, dflt(k * 7 + 1))).collect(),
        _ => {
            // as constructed by the library's constructors would also do, but the
            // reader does not care: take the raw reduced structures, made distinct
            let red = reduced_set(ty);
            let mut v: Vec<MShape> = vec![];
            let mut k = 0;
            while v.len() < n {
                let mut s = red[k % red.len()].clone();
                // shift coordinates so that repeated structures still differ
                for p in s.parts.iter_mut() {
                    for q in p.pts.iter_mut() {
                        q[0] += (k / red.len()) as f64 * 64.0;
                    }
                }
                // polygons: close rings so that the file is spec-conformant
                if ty.family() == Family::Polygon {
                    for p in s.parts.iter_mut() {
                        if let (Some(a), Some(b)) = (p.pts.first().copied(), p.pts.last().copied()) {
                            if a != b {
                                p.pts.push(a);
                            }
                        }
                    }
                }
                v.push(s);
                k += 1;
            }
            v
        }
    };
    shapes
        .into_iter()
        .enumerate()
        .map(|(i, s)| {
            let bbox = codec::true_bbox(&s);
            MRecord { number: i as i32 + 1, body: MBody::Shape { shape: s, bbox, with_m: true } }
        })
        .collect()
}

fn encode_record(r: &MRecord) -> Vec<u8> {
    let mut f = vec![];
    let content = codec::encode_content(&r.body, &mut f, 0, 0);
    let mut d = vec![];
    d.extend(r.number.to_be_bytes());
    d.extend(((content.len() / 2) as i32).to_be_bytes());
    d.extend(content);
    d
}

pub fn build(case: &Case) -> (Vec<u8>, Vec<u8>, Vec<MRecord>) {
    build_m(case, true)
}

/// `with_m` false: the records are stored without their optional M block (where the type has one)
pub fn build_m(case: &Case, with_m: bool) -> (Vec<u8>, Vec<u8>, Vec<MRecord>) {
    let mut recs = records(case.ty, case.n);
    if !with_m {
        for r in recs.iter_mut() {
            if let MBody::Shape { with_m: w, shape, .. } = &mut r.body {
                *w = false;
                // what is not stored cannot be expected back
                for p in shape.parts.iter_mut() {
                    for q in p.pts.iter_mut() {
                        q[3] = NO_DATA;
                    }
                }
            }
        }
    }
    let decoy = {
        let mut d = records(case.ty, 1)[0].clone();
        d.number = 99;
        if let MBody::Shape { shape, .. } = &mut d.body {
            for p in shape.parts.iter_mut() {
                for q in p.pts.iter_mut() {
                    q[1] -= 512.0;
                }
            }
        }
        encode_record(&d)
    };
    let filler = |g: u8| -> Vec<u8> {
        match g {
            0 => vec![],
            1 => vec![case.fill_byte; 2],
            2 => vec![case.fill_byte; 8],
            3 => vec![case.fill_byte; 14],
            _ => decoy.clone(),
        }
    };
    let mut body: Vec<u8> = vec![];
    let mut offsets = vec![0usize; case.n];
    let mut lens = vec![0usize; case.n];
    for j in 0..case.n {
        body.extend(filler(case.gaps[j]));
        let r = encode_record(&recs[case.perm[j]]);
        offsets[case.perm[j]] = 100 + body.len();
        lens[case.perm[j]] = r.len() - 8 + if case.stretch { filler(case.gaps[j + 1]).len() / 2 * 2 } else { 0 };
        body.extend(r);
    }
    body.extend(filler(case.gaps[case.n]));
    let total = 100 + body.len();
    let mut shp = codec::encode_header((total / 2) as i32, case.ty.code(), &[0.0; 8]);
    shp.extend(body);
    let mut shx = codec::encode_header((50 + 4 * case.n) as i32, case.ty.code(), &[0.0; 8]);
    for i in 0..case.n {
        shx.extend(((offsets[i] / 2) as i32).to_be_bytes());
        shx.extend(((lens[i] / 2) as i32).to_be_bytes());
    }
    (shp, shx, recs)
}

pub struct Obs {
    pub count: Result<usize, String>,
    pub iter: Vec<Result<MRead, String>>,
    pub ended: bool,
    pub nth: Vec<Option<Result<MRead, String>>>,
    /// a typed iteration as another type, going on after every mismatch: the error of each item
    pub as_other: Vec<Result<(), String>>,
    /// (state the reader was brought into: 0 fresh, 1 after one next(), 2 after seek(1); program; what its calls returned)
    pub progs: Vec<(u8, Prog, crate::iterprog::Out<Result<MRead, String>>)>,
    /// per k: a fresh reader, read_nth_shape(k), then the iteration from the start
    pub after_nth: Vec<Vec<Result<MRead, String>>>,
}

pub fn observe(case: &Case, shp: &[u8], shx: &[u8]) -> Result<Obs, String> {
    observe_chunked(case, shp, shx, 0)
}

/// `chunk` > 0: both sources return at most that many bytes per read call
pub fn observe_chunked(case: &Case, shp: &[u8], shx: &[u8], chunk: usize) -> Result<Obs, String> {
    let dev = |b: &[u8]| {
        let d = Dev::quiet(b.to_vec());
        if chunk > 0 {
            d.set_chunking(crate::dev::Chunking::Uniform(chunk));
        }
        d
    };
    let mut r = ShapeReader::with_shx(dev(shp), dev(shx)).map_err(|e| err_kind(&e))?;
    let count = r.shape_count().map_err(|e| err_kind(&e));
    let mut iter = vec![];
    let mut ended = false;
    {
        let mut it = r.iter_shapes();
        loop {
            if iter.len() > case.n + 3 {
                break;
            }
            match it.next() {
                None => {
                    ended = true;
                    break;
                }
                Some(x) => iter.push(x.map(|s| from_lib(&s)).map_err(|e| err_kind(&e))),
            }
        }
    }
    let mut r2 = ShapeReader::with_shx(dev(shp), dev(shx)).map_err(|e| err_kind(&e))?;
    let nth = (0..case.n + 1).map(|i| r2.read_nth_shape(i).map(|x| x.map(|s| from_lib(&s)).map_err(|e| err_kind(&e)))).collect();
    // the iterator driven through the std adaptors (which an iterator type may override), from three reader states
    let mut progs = vec![];
    let mut r3 = ShapeReader::with_shx(dev(shp), dev(shx)).map_err(|e| err_kind(&e))?;
    for pre in 0..3u8 {
        for p in PROGS {
            let start_ok = match pre {
                0 => r3.seek(0).is_ok(),
                1 => r3.seek(0).is_ok() && r3.iter_shapes().next().is_some(),
                _ => r3.seek(1).is_ok(),
            };
            if !start_ok {
                continue;
            }
            let o = iterprog::run(r3.iter_shapes(), p, case.n + 3);
            progs.push((pre, p, iterprog::Out { answers: o.answers.into_iter().map(|a| a.map(|x| x.map(|s| from_lib(&s)).map_err(|e| err_kind(&e)))).collect(), count: o.count }));
        }
    }
    // the file read as another type: every entry is a mismatch, and the iteration goes from entry to entry
    let other = if case.ty == Ty::Point { Ty::PolygonZ } else { Ty::Point };
    let as_other: Vec<Result<(), String>> = crate::with_ty!(other, S => {
        let mut r4 = ShapeReader::with_shx(dev(shp), dev(shx)).map_err(|e| err_kind(&e))?;
        let v: Vec<Result<(), String>> = r4.iter_shapes_as::<S>().take(case.n + 3).map(|x| x.map(|_| ()).map_err(|e| err_kind(&e))).collect();
        v
    }, unreachable!());
    let mut after_nth = vec![];
    for k in 0..case.n {
        let mut r5 = ShapeReader::with_shx(dev(shp), dev(shx)).map_err(|e| err_kind(&e))?;
        let _ = r5.read_nth_shape(k);
        after_nth.push(r5.iter_shapes().take(case.n + 3).map(|x| x.map(|s| from_lib(&s)).map_err(|e| err_kind(&e))).collect());
    }
    Ok(Obs { count, iter, ended, nth, progs, as_other, after_nth })
}

/// The by-path routes (`read_shapes`, `read_shapes_as`, `ShapeReader::from_path`): the .shx next to the
/// .shp is an index that was supplied.  Returns (route, items or error).
pub fn observe_disk(case: &Case, shp: &[u8], shx: &[u8]) -> Vec<(String, Result<Vec<Result<MRead, String>>, String>)> {
    let mut v = observe_disk_named(case, shp, shx, false);
    // the .shp named in capitals, its index as the library's own writer names it (extension replaced by "shx")
    v.extend(observe_disk_named(case, shp, shx, true).into_iter().map(|(n, r)| (format!("{} [.SHP]", n), r)));
    v
}

fn observe_disk_named(case: &Case, shp: &[u8], shx: &[u8], capitals: bool) -> Vec<(String, Result<Vec<Result<MRead, String>>, String>)> {
    let dir = super::c01_c02::scratch_dir();
    let tid: String = format!("{:?}", std::thread::current().id()).chars().filter(|c| c.is_ascii_digit()).collect();
    let path = dir.join(if capitals { format!("C14-{}.SHP", tid) } else { format!("c14-{}.shp", tid) });
    std::fs::write(&path, shp).expect("scratch write");
    std::fs::write(path.with_extension("shx"), shx).expect("scratch write");
    let mut out = vec![];
    let conv = |v: Vec<shapefile::Shape>| v.iter().map(|s| Ok(from_lib(s))).collect::<Vec<_>>();
    out.push(("read_shapes(path)".to_string(), shapefile::read_shapes(&path).map(conv).map_err(|e| err_kind(&e))));
    out.push((
        "read_shapes_as(path)".to_string(),
        crate::with_ty!(case.ty, T => shapefile::read_shapes_as::<_, T>(&path).map(|v| v.into_iter().map(|s| Ok(from_lib(&shapefile::Shape::from(s)))).collect::<Vec<_>>()).map_err(|e| err_kind(&e)), Err("null".to_string())),
    ));
    out.push((
        "ShapeReader::from_path(path).iter_shapes".to_string(),
        ShapeReader::from_path(&path).map_err(|e| err_kind(&e)).map(|mut r| r.iter_shapes().take(case.n + 3).map(|x| x.map(|s| from_lib(&s)).map_err(|e| err_kind(&e))).collect()),
    ));
    out.push((
        "ShapeReader::from_path(path).read".to_string(),
        ShapeReader::from_path(&path).map_err(|e| err_kind(&e)).and_then(|mut r| r.read().map(conv).map_err(|e| err_kind(&e))),
    ));
    let _ = std::fs::remove_file(&path);
    let _ = std::fs::remove_file(path.with_extension("shx"));
    out
}

pub fn judge_disk(case: &Case, recs: &[MRecord], routes: &[(String, Result<Vec<Result<MRead, String>>, String>)]) -> Vec<(String, String)> {
    let tag = order_class(case);
    let mut out = vec![];
    for (route, r) in routes {
        match r {
            Err(e) => out.push((format!("by-path:{}:failed[{}]", route, tag), format!("{} (physical order {:?}, gaps {:?})", e, case.perm, case.gaps))),
            Ok(items) => {
                let ok = items.len() == case.n && items.iter().enumerate().all(|(i, it)| matches!(it, Ok(got) if super::c03::cmp_record(&recs[i], got).is_none()));
                if !ok {
                    let shown: Vec<String> = items.iter().map(|a| match a {
                        Err(e) => format!("Err({})", e),
                        Ok(got) => match recs.iter().position(|r| super::c03::cmp_record(r, got).is_none()) {
                            Some(k) => format!("entry {}", k),
                            None => "a shape no entry addresses".to_string(),
                        },
                    }).collect();
                    out.push((format!("by-path:{}:not-the-indexed-records[{}]", route, tag), format!("returned {:?} for {} index entries (physical order {:?}, gaps {:?})", shown, case.n, case.perm, case.gaps)));
                }
            }
        }
    }
    out
}

fn order_class(case: &Case) -> &'static str {
    if case.perm.windows(2).all(|w| w[0] < w[1]) {
        "physical=index-order"
    } else {
        "physical!=index-order"
    }
}

pub fn judge(case: &Case, recs: &[MRecord], o: &Result<Obs, String>) -> Vec<(String, String)> {
    let mut out = vec![];
    let tag = order_class(case);
    let o = match o {
        Ok(o) => o,
        Err(e) => return vec![(format!("open-failed[{}]", tag), e.clone())],
    };
    if case.stretch {
        // the length fields of the index disagree with the record headers: the statement ties a shape to the entry's
        // offset and is silent about that field, so a reader may refuse such an entry.  What is judged: no item is a
        // shape other than the record at its entry's offset, random access agrees with iteration, and an iteration
        // that follows a random access is the same as one on a fresh reader.
        let key = |x: &Result<MRead, String>, i: usize| -> Result<(), String> {
            match x {
                Ok(got) => match super::c03::cmp_record(&recs[i.min(recs.len() - 1)], got) {
                    None if i < recs.len() => Ok(()),
                    _ => Err("WRONG".into()),
                },
                Err(_) => Err("error".into()),
            }
        };
        let fresh: Vec<Result<(), String>> = o.iter.iter().enumerate().map(|(i, x)| key(x, i)).collect();
        if fresh.iter().any(|x| matches!(x, Err(e) if e == "WRONG")) || o.iter.len() > case.n {
            out.push((format!("stretched-index:iteration-wrong-record[{}]", tag), format!("iteration yielded {:?} for {} entries", fresh, case.n)));
        }
        for (i, x) in o.nth.iter().enumerate().take(case.n) {
            let a = match x {
                Some(r) => key(r, i),
                None => Err("None".into()),
            };
            if a != *fresh.get(i).unwrap_or(&Err("None".into())) && (a.is_ok() || fresh.get(i).map(|f| f.is_ok()).unwrap_or(false)) {
                out.push((format!("stretched-index:random-access-disagrees-with-iteration[{}]", tag), format!("entry {}: read_nth_shape gives {:?}, iteration {:?}", i, a, fresh.get(i))));
                break;
            }
        }
        for (k, items) in o.after_nth.iter().enumerate() {
            let again: Vec<Result<(), String>> = items.iter().enumerate().map(|(i, x)| key(x, i)).collect();
            if again != fresh {
                out.push((format!("iteration-after-random-access[{}]", tag), format!("read_nth_shape({}) on a fresh reader, then an iteration: {:?}; an iteration on a fresh reader: {:?}", k, again, fresh)));
                break;
            }
        }
        return out;
    }
    if o.count != Ok(case.n) {
        out.push((format!("shape-count[{}]", tag), format!("{:?} for {} entries", o.count, case.n)));
    }
    if !o.ended || o.iter.len() != case.n {
        out.push((
            format!("iteration-count[{}]", tag),
            format!("iteration yielded {} items{} for {} index entries (physical order {:?}, gaps {:?})", o.iter.len(), if o.ended { "" } else { " and did not end" }, case.n, case.perm, case.gaps),
        ));
    }
    for (i, it) in o.iter.iter().enumerate().take(case.n) {
        match it {
            Err(e) => {
                out.push((format!("iteration-error[{}]", tag), format!("item {}: {}", i, e)));
                break;
            }
            Ok(got) => {
                if let Some(c) = super::c03::cmp_record(&recs[i], got) {
                    out.push((format!("iteration-wrong-record[{}]", tag), format!("item {} is not the record at entry {}'s offset: {}", i, i, c)));
                    break;
                }
            }
        }
    }
    for (i, x) in o.nth.iter().enumerate() {
        if i < case.n {
            match x {
                Some(Ok(got)) => {
                    if let Some(c) = super::c03::cmp_record(&recs[i], got) {
                        out.push((format!("random-access-wrong-record[{}]", tag), format!("read_nth_shape({}): {}", i, c)));
                        break;
                    }
                }
                other => {
                    out.push((format!("random-access-failed[{}]", tag), format!("read_nth_shape({}) = {:?}", i, other.as_ref().map(|r| r.as_ref().map(|_| "shape")))));
                    break;
                }
            }
        } else if x.is_some() {
            out.push((format!("random-access-beyond-end[{}]", tag), format!("read_nth_shape({}) is Some", i)));
        }
    }
    {
        let other = if case.ty == Ty::Point { Ty::PolygonZ } else { Ty::Point };
        let want = Err(format!("MismatchShapeType(requested={},actual={})", other.code(), case.ty.code()));
        if o.as_other.len() != case.n || o.as_other.iter().any(|x| *x != want) {
            out.push((format!("typed-iteration-as-another-type[{}]", tag), format!("iter_shapes_as::<{}>() over {} index entries of type {} yielded {:?}; every entry is a type mismatch and nothing else", other.name(), case.n, case.ty.name(), o.as_other)));
        }
    }
    for (k, items) in o.after_nth.iter().enumerate() {
        let ok = items.len() == case.n && items.iter().enumerate().all(|(i, x)| matches!(x, Ok(got) if super::c03::cmp_record(&recs[i], got).is_none()));
        if !ok {
            let shown: Vec<String> = items.iter().map(|a| match a {
                Err(e) => format!("Err({})", e),
                Ok(got) => match recs.iter().position(|r| super::c03::cmp_record(r, got).is_none()) {
                    Some(k) => format!("entry {}", k),
                    None => "a shape no entry addresses".to_string(),
                },
            }).collect();
            out.push((format!("iteration-after-random-access[{}]", tag), format!("read_nth_shape({}) on a fresh reader, then an iteration: {:?} for {} entries", k, shown, case.n)));
            break;
        }
    }
    for (pre, p, o) in &o.progs {
        let start = if *pre == 0 { 0 } else { 1 };
        let (want, _) = iterprog::reference(start, case.n, *p, case.n + 3);
        let same = want.count == o.count
            && want.answers.len() == o.answers.len()
            && want.answers.iter().zip(&o.answers).all(|(w, g)| match (w, g) {
                (None, None) => true,
                (Some(k), Some(Ok(got))) => super::c03::cmp_record(&recs[*k], got).is_none(),
                _ => false,
            });
        if !same {
            let shown: Vec<String> = o.answers.iter().map(|a| match a {
                None => "None".to_string(),
                Some(Err(e)) => format!("Err({})", e),
                Some(Ok(got)) => match recs.iter().position(|r| super::c03::cmp_record(r, got).is_none()) {
                    Some(k) => format!("entry {}", k),
                    None => "a shape no entry addresses".to_string(),
                },
            }).collect();
            out.push((
                format!("adaptor-iteration[{}]", tag),
                format!("{} on an iteration {}: returned {:?} count {:?}, the entries in index order give {:?} count {:?}", p.name(), ["of a fresh reader", "after one next()", "after seek(1)"][*pre as usize], shown, o.count, want.answers, want.count),
            ));
            break;
        }
    }
    out
}

fn perms(n: usize) -> Vec<Vec<usize>> {
    fn rec(cur: &mut Vec<usize>, used: &mut Vec<bool>, n: usize, out: &mut Vec<Vec<usize>>) {
        if cur.len() == n {
            out.push(cur.clone());
            return;
        }
        for i in 0..n {
            if !used[i] {
                used[i] = true;
                cur.push(i);
                rec(cur, used, n, out);
                cur.pop();
                used[i] = false;
            }
        }
    }
    let mut out = vec![];
    rec(&mut vec![], &mut vec![false; n], n, &mut out);
    out
}

fn run_case(case: &Case, ctx: &mut Ctx) {
    let (shp, shx, recs) = build(case);
    let obs = match catch(|| observe(case, &shp, &shx)) {
        Ok(o) => o,
        Err(p) => {
            ctx.case_done(case.hash(), case.nontrivial(), 1);
            ctx.violation(p.sig(), || case.to_json(), || format!("{}:{} {}", p.file, p.line, p.msg));
            return;
        }
    };
    ctx.lib_calls += 4 + 2 * case.n as u64 + 3 * PROGS.len() as u64;
    let mut oh = Fnv::new();
    if let Ok(o) = &obs {
        oh.u64(o.iter.len() as u64);
        for it in &o.iter {
            match it {
                Ok(m) => m.shape.hash_into(&mut oh),
                Err(e) => oh.str(e),
            }
        }
    }
    ctx.case_done(case.hash(), case.nontrivial(), oh.finish());
    if case.nontrivial() && case.gaps.iter().any(|g| *g == 4) {
        ctx.sample(|| case.to_json());
    }
    for (sig, d) in judge(case, &recs, &obs) {
        ctx.violation(sig, || case.to_json(), || d);
    }
    // the by-path routes, for the cases whose fillers are {none, 8 bytes, decoy record}
    if case.nontrivial() && (case.n >= 2 || case.n == 0) && case.fill_byte == 0 && case.gaps.iter().all(|g| matches!(g, 0 | 2 | 4)) {
        match catch(|| observe_disk(case, &shp, &shx)) {
            Ok(routes) => {
                ctx.lib_calls += 6;
                for (sig, d) in judge_disk(case, &recs, &routes) {
                    ctx.violation(sig, || case.to_json(), || d);
                }
            }
            Err(p) => ctx.violation(format!("by-path:{}", p.sig()), || case.to_json(), || p.msg.clone()),
        }
    }
    // the same file through sources that return fewer bytes than asked (as a buffered file does at a refill)
    if case.nontrivial() {
        for chunk in [1usize, 7] {
            match catch(|| observe_chunked(case, &shp, &shx, chunk)) {
                Ok(o) => {
                    ctx.lib_calls += 4 + 2 * case.n as u64;
                    for (sig, d) in judge(case, &recs, &o) {
                        ctx.violation(format!("short-reads:{}", sig), || case.to_json(), || format!("sources returning <= {} bytes per read: {}", chunk, d));
                    }
                }
                Err(p) => ctx.violation(format!("short-reads:{}", p.sig()), || case.to_json(), || p.msg.clone()),
            }
        }
    }
}

fn selftest() -> (u64, u64) {
    let case = Case { ty: Ty::PolylineM, n: 3, perm: vec![0, 1, 2], gaps: vec![1, 0, 4, 2], fill_byte: 0xff, stretch: false };
    let (shp, shx, recs) = build(&case);
    let fresh = || observe(&case, &shp, &shx);
    if !judge(&case, &recs, &fresh()).is_empty() {
        return (1, 0);
    }
    let mut inj = 0;
    let mut det = 0;
    let mut t = |f: &dyn Fn(&mut Obs)| {
        let mut o = fresh();
        if let Ok(o) = &mut o {
            f(o);
        }
        inj += 1;
        det += (!judge(&case, &recs, &o).is_empty()) as u64;
    };
    t(&|o| {
        o.iter.pop();
    });
    t(&|o| o.iter.swap(0, 1));
    t(&|o| o.nth.swap(1, 2));
    t(&|o| o.count = Ok(4));
    t(&|o| o.ended = false);
    t(&|o| o.nth[3] = o.nth[0].clone());
    t(&|o| {
        let k = o.progs.iter().position(|(pre, p, _)| *pre == 2 && *p == Prog::Skip(1)).unwrap();
        o.progs[k].2.answers.remove(0);
    });
    t(&|o| {
        let k = o.progs.iter().position(|(pre, p, _)| *pre == 1 && *p == Prog::Count).unwrap();
        o.progs[k].2.count = Some(3);
    });
    (inj, det)
}

const FAR_OFFSETS: [[u64; 3]; 3] = [[100, (1u64 << 31) + 65536, 3 * (1u64 << 30) + 512], [3 * (1u64 << 30) + 512, 100, (1u64 << 31) + 65536], [(1u64 << 32) - 4096, (1u64 << 30) - 2, 100]];

/// Three records at the given byte offsets of a sparse source of 4 GiB - 2 bytes, located by the index.
pub fn far_verdicts(ty: Ty, offs: [u64; 3]) -> Vec<(String, String)> {
    let recs = records(ty, 3);
    let enc: Vec<Vec<u8>> = recs.iter().map(encode_record).collect();
    let total: u64 = (1u64 << 32) - 2;
    let mut hdr = codec::encode_header((total / 2) as i32, ty.code(), &[0.0; 8]);
    hdr[24..28].copy_from_slice(&(((total / 2) as u32) as i32).to_be_bytes());
    let mut chunks = vec![(0u64, hdr)];
    let mut shx = codec::encode_header(50 + 12, ty.code(), &[0.0; 8]);
    for i in 0..3 {
        chunks.push((offs[i], enc[i].clone()));
        shx.extend(((offs[i] / 2) as u32 as i32).to_be_bytes());
        shx.extend((((enc[i].len() - 8) / 2) as i32).to_be_bytes());
    }
    let run = catch(|| -> Result<Vec<Result<MRead, String>>, String> {
        let src = crate::sparse::Sparse { chunks: chunks.clone(), len: total, filler: 0xEE, pos: 0 };
        let mut r = ShapeReader::with_shx(src, Dev::quiet(shx.clone())).map_err(|e| err_kind(&e))?;
        let mut v: Vec<Result<MRead, String>> = r.iter_shapes().take(6).map(|x| x.map(|s| from_lib(&s)).map_err(|e| err_kind(&e))).collect();
        for i in 0..3 {
            v.push(match r.read_nth_shape(i) {
                None => Err("None".to_string()),
                Some(x) => x.map(|s| from_lib(&s)).map_err(|e| err_kind(&e)),
            });
        }
        Ok(v)
    });
    match run {
        Ok(Ok(v)) => {
            let ok = v.len() == 6 && (0..6).all(|i| matches!(&v[i], Ok(m) if super::c03::cmp_record(&recs[i % 3], m).is_none()));
            if ok {
                vec![]
            } else {
                vec![("far-offsets:wrong-or-missing-record".to_string(), format!("iteration then random access returned {:?}", v.iter().map(|x| x.as_ref().map(|_| "shape").map_err(|e| e.clone())).collect::<Vec<_>>()))]
            }
        }
        Ok(Err(e)) => vec![("far-offsets:open-failed".to_string(), e)],
        Err(p) => vec![(format!("far-offsets:{}", p.sig()), p.msg)],
    }
}

pub fn check(tier: Tier) -> i32 {
    let started = Instant::now();
    if !super::c01_c02::scratch_usable() {
        return 2;
    }
    let types: Vec<Ty> = ALL13.to_vec();
    // (n = 0: an index without entries over a .shp that holds nothing but filler, or a whole unlisted record)
    let ns: Vec<usize> = tier.pick(vec![0, 1, 2, 3], vec![0, 1, 2, 3, 4]);
    let mut cases = vec![];
    for ty in &types {
        for &n in &ns {
            for perm in perms(n) {
                for gaps in {
                    let mut cur: Vec<Vec<u8>> = vec![vec![]];
                    for _ in 0..=n {
                        let mut next = vec![];
                        for c in &cur {
                            for g in 0..5u8 {
                                let mut x = c.clone();
                                x.push(g);
                                next.push(x);
                            }
                        }
                        cur = next;
                    }
                    cur
                } {
                    let has_bytes = gaps.iter().any(|g| (1..=3).contains(g));
                    for fill_byte in if has_bytes { vec![0x00u8, 0xff] } else { vec![0x00u8] } {
                        cases.push(Case { ty: *ty, n, perm: perm.clone(), gaps: gaps.clone(), fill_byte, stretch: false });
                        if gaps.iter().skip(1).any(|g| *g != 0) {
                            cases.push(Case { ty: *ty, n, perm: perm.clone(), gaps: gaps.clone(), fill_byte, stretch: true });
                        }
                    }
                }
            }
        }
    }
    let nb = (cases.len() + 127) / 128;
    let (agg, capped) = par_blocks(nb, None, |b, ctx, tick| {
        for c in &cases[b * 128..((b + 1) * 128).min(cases.len())] {
            run_case(c, ctx);
            tick();
        }
    });
    // records stored far apart: byte offsets beyond 2^31 and 3 * 2^30 (legal: offsets are
    // non-negative i32 word counts), on a sparse source; physical and permuted index order
    let mut far = Ctx::new();
    for ty in [Ty::Point, Ty::PolylineZ] {
        for offs in FAR_OFFSETS {
            let cj = json!({"far_offsets": offs, "ty": ty.name()});
            let mut hh = Fnv::new();
            hh.str(&cj.to_string());
            far.lib_calls += 8;
            far.case_done(hh.finish(), true, 7);
            for (sig, d) in far_verdicts(ty, offs) {
                far.violation(sig, || cj.clone(), || d);
            }
        }
    }
    let mut agg = agg;
    {
        let extra = merge(vec![far]);
        agg.evals += extra.evals;
        agg.lib_calls += extra.lib_calls;
        agg.distinct_cases += extra.distinct_cases;
        agg.distinct_nontrivial += extra.distinct_nontrivial;
        for (k, f) in extra.findings {
            agg.findings.insert(k, f);
        }
    }
    // the self-test runs the library too: on a tree that panics there it counts as failed (a verdict, if there is one,
    // takes precedence over it)
    let st = catch(|| selftest()).unwrap_or((1, 0));
    super::c01_c02::cleanup_scratch();
    finish(
        RunInfo {
            prop: "C14",
            tier,
            level: "model_checking",
            engine: "E2 enumerator over RefCodec-built .shp/.shx pairs (all permutations x all filler combinations), read by the real ShapeReader::with_shx",
            rule: "types x n records (n = 0 included: a header-only index over fillers) of pairwise different size x every permutation of physical order against index order x every combination of fillers {none, 2, 8, 14 bytes, a complete valid decoy record} before / between / after x filler byte {0x00, 0xff}; header length covers the whole file; every case with a filler behind a record again with index length fields that cover that filler (judged for consistency only: no item is another shape than the record at its entry's offset, random access agrees with iteration, an iteration after a random access equals one on a fresh reader); a random access to every entry of a fresh reader followed by an iteration; every non-trivial case again through sources that return at most 1 resp. 7 bytes per read; a typed iteration as another type going from mismatch to mismatch (one per entry); the iterator also driven through 14 programs of std adaptors (nth, skip, step_by, last, count) from 3 reader states; cases with fillers in {none, 8 bytes, decoy} also as files on disk through read_shapes, read_shapes_as, ShapeReader::from_path; plus records at byte offsets beyond 2^31 and 3*2^30 on a sparse source (physical and permuted index order); non-trivial = some filler or physical order != index order",
            bounds: json!({"types": types.iter().map(|t| t.name()).collect::<Vec<_>>(), "n": ns, "gap_kinds": 5, "cases": cases.len()}),
            exhaustive: true,
            assumptions: vec!["fillers of odd length are impossible (offsets are in 16-bit words)".into()],
            started,
            states: 0,
            transitions: 0,
            selftest: st,
            extra: Default::default(),
        },
        agg,
        capped,
    )
}

pub fn replay(v: &Value) -> Vec<(String, String)> {
    if let Some(a) = v.get("far_offsets").and_then(|x| x.as_array()) {
        let offs: Vec<u64> = a.iter().filter_map(|x| x.as_u64()).collect();
        return match (offs.len(), v.get("ty").and_then(|x| x.as_str()).and_then(Ty::from_name)) {
            (3, Some(ty)) => far_verdicts(ty, [offs[0], offs[1], offs[2]]),
            _ => vec![("bad-replay-file".into(), "cannot parse case".into())],
        };
    }
    match Case::from_json(v) {
        None => vec![("bad-replay-file".into(), "cannot parse case".into())],
        Some(case) => {
            let (shp, shx, recs) = build(&case);
            let mut v = match catch(|| observe(&case, &shp, &shx)) {
                Ok(o) => judge(&case, &recs, &o),
                Err(p) => vec![(p.sig(), p.msg)],
            };
            if let Ok(routes) = catch(|| observe_disk(&case, &shp, &shx)) {
                v.extend(judge_disk(&case, &recs, &routes));
            }
            for chunk in [1usize, 7] {
                if let Ok(o) = catch(|| observe_chunked(&case, &shp, &shx, chunk)) {
                    v.extend(judge(&case, &recs, &o).into_iter().map(|(s, d)| (format!("short-reads:{}", s), d)));
                }
            }
            v
        }
    }
}
