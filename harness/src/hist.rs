//! E1: the stateright history explorer (DESIGN §2.4).  The state *is* the
//! history (configuration bytes followed by operation bytes) — no merging —
//! and the `always` property executes that history on the real library.

use crate::engine::Ctx;
use stateright::{Checker, Model, Property};
use std::sync::atomic::{AtomicUsize, Ordering};
use std::sync::{Arc, Mutex};

pub type Hist = Vec<u8>;

pub struct HistModel {
    /// initial states: configuration prefixes
    pub inits: Vec<Hist>,
    pub cfg_len: usize,
    pub depth: usize,
    /// actions enabled after the given history (configuration included)
    pub enabled: Arc<dyn Fn(&Hist) -> Vec<u8> + Send + Sync>,
    /// executes the history on the real code and records into the context
    pub exec: Arc<dyn Fn(&Hist, &mut Ctx) + Send + Sync>,
    pub shards: Arc<Vec<Mutex<Ctx>>>,
}

thread_local! {
    static SHARD: std::cell::Cell<usize> = std::cell::Cell::new(usize::MAX);
}
static NEXT_SHARD: AtomicUsize = AtomicUsize::new(0);

impl Model for HistModel {
    type State = Hist;
    type Action = u8;
    fn init_states(&self) -> Vec<Hist> {
        self.inits.clone()
    }
    fn actions(&self, s: &Hist, out: &mut Vec<u8>) {
        if s.len() - self.cfg_len < self.depth {
            out.extend((self.enabled)(s));
        }
    }
    fn next_state(&self, s: &Hist, a: u8) -> Option<Hist> {
        let mut n = s.clone();
        n.push(a);
        Some(n)
    }
    fn properties(&self) -> Vec<Property<Self>> {
        vec![Property::always("history conforms to the reference model", |m: &HistModel, s: &Hist| {
            let shard = SHARD.with(|c| {
                if c.get() == usize::MAX {
                    c.set(NEXT_SHARD.fetch_add(1, Ordering::SeqCst));
                }
                c.get()
            }) % m.shards.len();
            let mut ctx = m.shards[shard].lock().unwrap();
            (m.exec)(s, &mut ctx);
            // violations are recorded in the context (with their
            // signature), never turned into a stateright discovery: the
            // search must go on to find *other* violations too.
            true
        })]
    }
}

pub struct HistResult {
    pub ctxs: Vec<Ctx>,
    pub states_generated: u64,
    pub unique_states: u64,
    pub max_depth: u64,
}

pub fn explore(
    inits: Vec<Hist>,
    cfg_len: usize,
    depth: usize,
    enabled: Arc<dyn Fn(&Hist) -> Vec<u8> + Send + Sync>,
    exec: Arc<dyn Fn(&Hist, &mut Ctx) + Send + Sync>,
) -> HistResult {
    let n = crate::engine::nthreads();
    let shards: Arc<Vec<Mutex<Ctx>>> = Arc::new((0..n * 4).map(|_| Mutex::new(Ctx::new())).collect());
    let model = HistModel {
        inits,
        cfg_len,
        depth,
        enabled,
        exec,
        shards: shards.clone(),
    };
    let checker = model.checker().threads(n).spawn_bfs().join();
    let (g, u, d) = (
        checker.state_count() as u64,
        checker.unique_state_count() as u64,
        checker.max_depth() as u64,
    );
    drop(checker);
    let shards = match Arc::try_unwrap(shards) {
        Ok(v) => v,
        Err(_) => panic!("history explorer: contexts still shared"),
    };
    HistResult {
        ctxs: shards.into_iter().map(|m| m.into_inner().unwrap()).collect(),
        states_generated: g,
        unique_states: u,
        max_depth: d,
    }
}
