//! Consumption programs for the iterators the readers hand out: the standard
//! `Iterator` adaptors a caller may drive them with (`nth`, `skip`,
//! `step_by`, `last`, `count`), next to plain `next`.  An iterator type may
//! override any of these methods, so "only `next` is ever called" is an
//! assumption about the caller, not about the library.
//!
//! The reference semantics is std's own: the same program run over a plain
//! counting iterator of the records that remain (`RefIt`).

use std::cell::Cell;
use std::rc::Rc;

#[derive(Clone, Copy, Debug, PartialEq, Eq, Hash)]
pub enum Prog {
    /// `nth(k)` then `next()`
    NthNext(usize),
    /// `next()`, `nth(k)`, `next()`
    NextNthNext(usize),
    /// `nth(a)`, `nth(b)`
    NthNth(usize, usize),
    /// `skip(k)` then everything
    Skip(usize),
    /// `next()` then `skip(k)` then everything
    NextSkip(usize),
    /// `step_by(s)` then everything
    StepBy(usize),
    /// `last()`
    Last,
    /// `next()` then `last()`
    NextLast,
    /// `count()`
    Count,
    /// `next()` then `nth(usize::MAX)`
    NextNthHuge,
    /// `nth(usize::MAX)`
    NthHuge,
}

pub const PROGS: [Prog; 14] = [
    Prog::NthNext(0),
    Prog::NthNext(1),
    Prog::NextNthNext(0),
    Prog::NextNthNext(1),
    Prog::NthNth(1, 0),
    Prog::Skip(1),
    Prog::Skip(2),
    Prog::NextSkip(1),
    Prog::StepBy(2),
    Prog::Last,
    Prog::NextLast,
    Prog::Count,
    Prog::NextNthHuge,
    Prog::NthHuge,
];

impl Prog {
    pub fn name(self) -> String {
        match self {
            Prog::NthNext(k) => format!("nth({});next", k),
            Prog::NextNthNext(k) => format!("next;nth({});next", k),
            Prog::NthNth(a, b) => format!("nth({});nth({})", a, b),
            Prog::Skip(k) => format!("skip({}).collect", k),
            Prog::NextSkip(k) => format!("next;skip({}).collect", k),
            Prog::StepBy(s) => format!("step_by({}).collect", s),
            Prog::Last => "last".into(),
            Prog::NextLast => "next;last".into(),
            Prog::Count => "count".into(),
            Prog::NextNthHuge => "next;nth(usize::MAX)".into(),
            Prog::NthHuge => "nth(usize::MAX)".into(),
        }
    }
    pub fn from_name(s: &str) -> Option<Prog> {
        PROGS.iter().copied().find(|p| p.name() == s)
    }
}

/// What a program observed: the items the calls returned (`None` answers
/// included, in call order), and a count where the program asks for one.
#[derive(Clone, Debug, PartialEq)]
pub struct Out<T> {
    pub answers: Vec<Option<T>>,
    pub count: Option<usize>,
}

/// `cap` bounds collecting adaptors (an overriding `nth` may never end).
pub fn run<T, I: Iterator<Item = T>>(mut it: I, prog: Prog, cap: usize) -> Out<T> {
    let mut answers = vec![];
    let mut count = None;
    let collect = |it: &mut dyn Iterator<Item = T>, answers: &mut Vec<Option<T>>| {
        let mut n = 0;
        loop {
            if n >= cap {
                break;
            }
            match it.next() {
                None => {
                    answers.push(None);
                    break;
                }
                Some(x) => answers.push(Some(x)),
            }
            n += 1;
        }
    };
    match prog {
        Prog::NthNext(k) => {
            answers.push(it.nth(k));
            answers.push(it.next());
        }
        Prog::NextNthNext(k) => {
            answers.push(it.next());
            answers.push(it.nth(k));
            answers.push(it.next());
        }
        Prog::NthNth(a, b) => {
            answers.push(it.nth(a));
            answers.push(it.nth(b));
        }
        Prog::Skip(k) => {
            let mut s = it.skip(k);
            collect(&mut s, &mut answers);
        }
        Prog::NextSkip(k) => {
            answers.push(it.next());
            let mut s = it.skip(k);
            collect(&mut s, &mut answers);
        }
        Prog::StepBy(s) => {
            let mut s = it.step_by(s);
            collect(&mut s, &mut answers);
        }
        Prog::Last => answers.push(it.last()),
        Prog::NextLast => {
            answers.push(it.next());
            answers.push(it.last());
        }
        Prog::Count => count = Some(it.count()),
        Prog::NextNthHuge => {
            answers.push(it.next());
            answers.push(it.nth(usize::MAX));
        }
        Prog::NthHuge => answers.push(it.nth(usize::MAX)),
    }
    Out { answers, count }
}

/// The plain sequence `start, start+1, .., n-1`; `pos` is shared so that the
/// caller learns how far a program consumed it.
pub struct RefIt {
    pub pos: Rc<Cell<usize>>,
    pub n: usize,
}

impl Iterator for RefIt {
    type Item = usize;
    fn next(&mut self) -> Option<usize> {
        let p = self.pos.get();
        if p < self.n {
            self.pos.set(p + 1);
            Some(p)
        } else {
            None
        }
    }
}

/// Reference answer of `prog` over records `start..n`, and the position
/// reached.
pub fn reference(start: usize, n: usize, prog: Prog, cap: usize) -> (Out<usize>, usize) {
    let pos = Rc::new(Cell::new(start.min(n)));
    let out = run(RefIt { pos: pos.clone(), n }, prog, cap);
    (out, pos.get())
}
