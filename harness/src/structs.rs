//! Structure generators: the finite shape-builder grammar of DESIGN §2.4 (E2).
//! Library independent.

use crate::model::*;

/// ring / patch vertex templates on the lattice, shifted by `dx` so that
/// different rings of one shape do not coincide.  z and m get distinct
/// defaults; closed templates repeat the first vertex bit for bit.
#[derive(Clone, Copy, Debug, PartialEq, Eq)]
pub enum RingT {
    Single,
    OpenTriCw,
    ClosedTriCcw,
    ClosedSquareCw,
    Collinear,
    Empty,
}
pub const RING_TEMPLATES_FIRST: [RingT; 5] = [
    RingT::Single,
    RingT::OpenTriCw,
    RingT::ClosedTriCcw,
    RingT::ClosedSquareCw,
    RingT::Collinear,
];
pub const RING_TEMPLATES_ANY: [RingT; 6] = [
    RingT::Single,
    RingT::OpenTriCw,
    RingT::ClosedTriCcw,
    RingT::ClosedSquareCw,
    RingT::Collinear,
    RingT::Empty,
];

pub fn ring_pts(t: RingT, ring_idx: usize) -> Vec<P4> {
    let dx = 10.0 * ring_idx as f64;
    let xy: &[(f64, f64)] = match t {
        RingT::Single => &[(1.0, 1.0)],
        RingT::OpenTriCw => &[(0.0, 0.0), (0.0, 2.0), (2.0, 0.0)],
        RingT::ClosedTriCcw => &[(0.0, 0.0), (2.0, 0.0), (0.0, 2.0), (0.0, 0.0)],
        RingT::ClosedSquareCw => &[(0.0, 0.0), (0.0, 2.0), (2.0, 2.0), (2.0, 0.0), (0.0, 0.0)],
        RingT::Collinear => &[(0.0, 0.0), (1.0, 1.0), (2.0, 2.0)],
        RingT::Empty => &[],
    };
    let closed = matches!(t, RingT::ClosedTriCcw | RingT::ClosedSquareCw);
    let mut v: Vec<P4> = xy
        .iter()
        .enumerate()
        .map(|(i, (x, y))| {
            let k = (ring_idx * 8 + i) as f64;
            [x + dx, *y, 100.0 + k, 1000.0 + k * 0.5]
        })
        .collect();
    if closed {
        let f = v[0];
        *v.last_mut().unwrap() = f;
    }
    v
}

fn seq_pts(start: usize, n: usize) -> Vec<P4> {
    (0..n).map(|i| dflt(start + i)).collect()
}

/// every vector over `alphabet` of length 1..=maxlen
fn vectors(alphabet: &[usize], maxlen: usize) -> Vec<Vec<usize>> {
    let mut out = vec![];
    let mut cur: Vec<Vec<usize>> = vec![vec![]];
    for _ in 0..maxlen {
        let mut next = vec![];
        for c in &cur {
            for a in alphabet {
                let mut n = c.clone();
                n.push(*a);
                next.push(n);
            }
        }
        out.extend(next.iter().cloned());
        cur = next;
    }
    out
}

#[derive(Clone, Copy, PartialEq, Eq, Debug)]
pub enum Scope {
    /// the small set used inside sequences / histories
    Reduced,
    Quick,
    Thorough,
}

/// All structures of a type in the given scope (default coordinates).
pub fn structures(ty: Ty, scope: Scope) -> Vec<MShape> {
    let mut out = vec![];
    match ty.family() {
        Family::Null => {}
        Family::Point => out.push(MShape::point(ty, dflt(0))),
        Family::Multipoint => {
            let max = match scope {
                Scope::Reduced => 3,
                Scope::Quick => 4,
                Scope::Thorough => 6,
            };
            for n in 1..=max {
                out.push(MShape {
                    ty,
                    parts: vec![MPart {
                        kind: 0,
                        pts: seq_pts(0, n),
                    }],
                });
            }
        }
        Family::Polyline => {
            let (alpha, maxparts): (&[usize], usize) = match scope {
                Scope::Reduced => (&[2, 3], 2),
                Scope::Quick => (&[2, 3], 3),
                Scope::Thorough => (&[2, 3, 5], 4),
            };
            let mut vs = vectors(alpha, maxparts);
            if scope == Scope::Quick {
                vs.push(vec![2, 3, 2, 3]);
            }
            if scope == Scope::Thorough {
                vs.push(vec![2, 2, 3, 2, 5, 2]);
            }
            for lens in vs {
                let mut parts = vec![];
                let mut k = 0;
                for l in lens {
                    parts.push(MPart {
                        kind: 0,
                        pts: seq_pts(k, l),
                    });
                    k += l;
                }
                out.push(MShape { ty, parts });
            }
        }
        Family::Polygon => {
            let maxrings = match scope {
                Scope::Reduced => 2,
                Scope::Quick => 3,
                Scope::Thorough => 4,
            };
            // ring spec = (template, role)
            let mut firsts = vec![];
            for t in RING_TEMPLATES_FIRST {
                for role in 0..2u8 {
                    firsts.push((t, role));
                }
            }
            let mut anys = vec![];
            for t in RING_TEMPLATES_ANY {
                for role in 0..2u8 {
                    anys.push((t, role));
                }
            }
            if scope == Scope::Reduced {
                firsts = vec![(RingT::OpenTriCw, 0), (RingT::ClosedSquareCw, 0), (RingT::Single, 1)];
                anys = vec![(RingT::ClosedTriCcw, 1), (RingT::Empty, 0)];
            }
            let mut cur: Vec<Vec<(RingT, u8)>> = firsts.iter().map(|f| vec![*f]).collect();
            for depth in 1..=maxrings {
                for spec in &cur {
                    // the 4-ring level of Thorough is restricted to non-empty,
                    // role-alternating shapes to stay tractable
                    out.push(MShape {
                        ty,
                        parts: spec
                            .iter()
                            .enumerate()
                            .map(|(i, (t, role))| MPart {
                                kind: *role,
                                pts: ring_pts(*t, i),
                            })
                            .collect(),
                    });
                }
                if depth == maxrings {
                    break;
                }
                let mut next = vec![];
                for spec in &cur {
                    for a in &anys {
                        if depth >= 3 && (a.0 == RingT::Empty || a.0 == RingT::Single) {
                            continue;
                        }
                        let mut n = spec.clone();
                        n.push(*a);
                        next.push(n);
                    }
                }
                cur = next;
            }
        }
        Family::Multipatch => {
            let maxp = match scope {
                Scope::Reduced => 2,
                Scope::Quick => 2,
                Scope::Thorough => 3,
            };
            let lens_first: &[usize] = if scope == Scope::Reduced { &[3] } else { &[1, 3, 4] };
            let lens_any: &[usize] = if scope == Scope::Reduced { &[0, 4] } else { &[0, 1, 3, 4] };
            let kinds: &[u8] = if scope == Scope::Reduced { &[2, 0] } else { &[0, 1, 2, 3, 4, 5] };
            let mut cur: Vec<Vec<(u8, usize)>> = vec![];
            for k in kinds {
                for l in lens_first {
                    cur.push(vec![(*k, *l)]);
                }
            }
            for depth in 1..=maxp {
                for spec in &cur {
                    let mut parts = vec![];
                    let mut base = 0;
                    for (k, l) in spec {
                        // ring-kind patches of length 4 are given closed, others open
                        let mut pts = seq_pts(base, *l);
                        if *l == 4 && *k >= 2 {
                            pts[3] = pts[0];
                        }
                        base += l;
                        parts.push(MPart { kind: *k, pts });
                    }
                    out.push(MShape { ty, parts });
                }
                if depth == maxp {
                    break;
                }
                let mut next = vec![];
                for spec in &cur {
                    for k in kinds {
                        for l in lens_any {
                            let mut n = spec.clone();
                            n.push((*k, *l));
                            next.push(n);
                        }
                    }
                }
                cur = next;
            }
        }
    }
    out
}

/// ≤ 6 structures of pairwise different encoded size (so record offsets are
/// not an arithmetic progression).  For point types there is only one size;
/// different coordinates are used instead.
pub fn reduced_set(ty: Ty) -> Vec<MShape> {
    match ty.family() {
        Family::Point => (0..3).map(|k| MShape::point(ty, dflt(k * 3))).collect(),
        _ => {
            let all = structures(ty, Scope::Reduced);
            let mut seen = std::collections::BTreeSet::new();
            let mut out = vec![];
            for s in all {
                // size after the constructors closed the rings
                let closes = |p: &MPart| -> usize {
                    let ringish = match s.ty.family() {
                        Family::Polygon => true,
                        Family::Multipatch => p.kind >= 2,
                        _ => false,
                    };
                    match (p.pts.first(), p.pts.last()) {
                        (Some(a), Some(b)) if ringish && a != b => p.pts.len() + 1,
                        _ => p.pts.len(),
                    }
                };
                let key = (s.parts.len(), s.parts.iter().map(closes).sum::<usize>());
                if seen.insert(key) {
                    out.push(s);
                }
                if out.len() == 6 {
                    break;
                }
            }
            out
        }
    }
}

/// Three shapes a, b, c of pairwise different size for histories.
pub fn abc(ty: Ty) -> [MShape; 3] {
    let r = reduced_set(ty);
    match ty.family() {
        Family::Point => [r[0].clone(), r[1].clone(), r[2].clone()],
        _ => {
            assert!(r.len() >= 3, "{:?}", ty);
            [r[0].clone(), r[1].clone(), r[2].clone()]
        }
    }
}

#[derive(Clone, Copy, Debug, PartialEq, Eq)]
pub struct Slot {
    pub shape: usize,
    pub part: usize,
    pub vertex: usize,
    pub dim: usize,
}

pub fn slots(shapes: &[MShape]) -> Vec<Slot> {
    let mut v = vec![];
    for (si, s) in shapes.iter().enumerate() {
        let dims = s.ty.dims();
        for (pi, p) in s.parts.iter().enumerate() {
            for vi in 0..p.pts.len() {
                for d in 0..4 {
                    if dims[d] {
                        v.push(Slot {
                            shape: si,
                            part: pi,
                            vertex: vi,
                            dim: d,
                        });
                    }
                }
            }
        }
    }
    v
}

pub fn apply(shapes: &mut [MShape], s: Slot, val: f64) {
    shapes[s.shape].parts[s.part].pts[s.vertex][s.dim] = val;
}

/// all ordered tuples of length n over 0..k
pub fn tuples(k: usize, n: usize) -> Vec<Vec<usize>> {
    let mut cur: Vec<Vec<usize>> = vec![vec![]];
    for _ in 0..n {
        let mut next = vec![];
        for c in &cur {
            for a in 0..k {
                let mut x = c.clone();
                x.push(a);
                next.push(x);
            }
        }
        cur = next;
    }
    cur
}

/// Sizes straddling powers of two (internal block / cap constants live there).
pub const LADDER: [usize; 16] = [255, 256, 257, 999, 1000, 1001, 1023, 1024, 1025, 2999, 3000, 3001, 4097, 8193, 65537, 70001];
/// record / part counts straddling the same kind of thresholds
pub const COUNT_LADDER: [usize; 13] = [255, 256, 257, 999, 1000, 1001, 1023, 1024, 1025, 2049, 2999, 3001, 4097];

/// One shape whose (last) part has exactly n vertices (n >= 2), preceded by a short part where the type has parts.
pub fn sized(ty: Ty, n: usize) -> MShape {
    let big = |start: usize, n: usize| -> Vec<P4> {
        (0..n).map(|i| { let k = (start + i) as f64; [k * 0.5, 3.0 - k * 0.25, 100.0 + k, 1000.0 + k * 0.125] }).collect()
    };
    match ty.family() {
        Family::Multipoint => MShape { ty, parts: vec![MPart { kind: 0, pts: big(0, n) }] },
        Family::Polyline => MShape { ty, parts: vec![MPart { kind: 0, pts: big(0, 2) }, MPart { kind: 0, pts: big(2, n) }] },
        Family::Polygon => MShape { ty, parts: vec![MPart { kind: 0, pts: big(0, 3) }, MPart { kind: 1, pts: big(3, n) }] },
        Family::Multipatch => MShape { ty, parts: vec![MPart { kind: 2, pts: big(0, 3) }, MPart { kind: 0, pts: big(3, n) }] },
        _ => MShape::point(ty, dflt(n)),
    }
}

/// Large shapes: one long part (after a short one where the type has parts)
/// for every ladder size, and many short parts for the sizes <= 1025.
pub fn ladder(ty: Ty) -> Vec<MShape> {
    let mut out = vec![];
    let big = |start: usize, n: usize| -> Vec<P4> {
        // pairwise distinct dyadic coordinates, no ring closure by accident
        (0..n).map(|i| { let k = (start + i) as f64; [k * 0.5, 3.0 - k * 0.25, 100.0 + k, 1000.0 + k * 0.125] }).collect()
    };
    match ty.family() {
        Family::Null | Family::Point => {}
        Family::Multipoint => {
            for n in LADDER {
                out.push(MShape { ty, parts: vec![MPart { kind: 0, pts: big(0, n) }] });
            }
        }
        fam => {
            let k_first = if fam == Family::Multipatch { 2 } else { 0 };
            let k_big = if fam == Family::Multipatch { 0 } else if fam == Family::Polygon { 1 } else { 0 };
            for n in LADDER {
                out.push(MShape { ty, parts: vec![MPart { kind: k_first, pts: big(0, 3) }, MPart { kind: k_big, pts: big(3, n) }, MPart { kind: k_first, pts: big(3 + n, 2) }] });
            }
            for p in [999usize, 1000, 1001, 1023, 1024, 1025] {
                out.push(MShape { ty, parts: (0..p).map(|i| MPart { kind: if fam == Family::Multipatch { (i % 6) as u8 } else { (i % 2) as u8 * (fam == Family::Polygon) as u8 }, pts: big(i * 2, 2) }).collect() });
            }
        }
    }
    out
}
