//! E3: field-mutation enumerator with process isolation (C07, C17).
//! Parent: enumerates the inputs, runs ranges of them in worker
//! subprocesses, attributes crashes / hangs to the case in progress.

use crate::alloc;
use crate::bridge::*;
use crate::dev::Dev;
use crate::engine::*;
use crate::model::*;
use crate::props::c14;
use crate::refmodel::codec::{self, Field, FieldClass, MBody, MFile, MRecord};
use crate::with_ty;
use serde_json::{json, Value};
use shapefile::{Shape, ShapeReader};
use std::io::{BufRead, BufReader, Write};
use std::process::{Command, Stdio};
use std::time::{Duration, Instant};

#[derive(Clone, Copy, PartialEq, Eq, Debug)]
pub enum Prop {
    C07,
    C17,
}

pub struct Base {
    /// large file: only the unmutated input, every field x boundary values and a
    /// ladder of truncation lengths are generated (no per-byte sweeps)
    pub big: bool,
    pub ty: Ty,
    pub shp: Vec<u8>,
    pub shx: Vec<u8>,
    pub shp_fields: Vec<Field>,
    pub shx_fields: Vec<Field>,
}

pub fn bases() -> Vec<Base> {
    let mut out = vec![];
    for ty in ALL14 {
        for n in [1usize, 2, 3] {
            let records: Vec<MRecord> = if ty == Ty::Null {
                (0..n).map(|i| MRecord { number: i as i32 + 1, body: MBody::Null }).collect()
            } else if n == 1 && ty.is_multipart() {
                // one record with four parts (so that offsets have inner pairs)
                let lens = [2usize, 3, 2, 3];
                let mut k = 0;
                let parts = lens
                    .iter()
                    .enumerate()
                    .map(|(pi, l)| {
                        let mut pts: Vec<P4> = (0..*l).map(|i| dflt(k + i)).collect();
                        k += l;
                        if ty.family() == Family::Polygon {
                            let f = pts[0];
                            pts.push(f);
                        }
                        MPart { kind: if ty == Ty::Multipatch { (pi % 6) as u8 } else { 0 }, pts }
                    })
                    .collect();
                let shape = MShape { ty, parts };
                let bbox = codec::true_bbox(&shape);
                vec![MRecord { number: 1, body: MBody::Shape { shape, bbox, with_m: true } }]
            } else {
                // multi-part where the type allows: skip the single-part first structure
                let mut r = c14::records(ty, n + 1);
                r.remove(0);
                for (i, x) in r.iter_mut().enumerate() {
                    x.number = i as i32 + 1;
                }
                r
            };
            let f = MFile { ty, header_box: [1.0, 2.0, 3.0, 4.0, 0.0, 0.0, 0.0, 0.0], records, trailing: vec![] };
            let enc = codec::encode(&f);
            let order: Vec<usize> = (0..n).collect();
            let (shx, shx_fields) = codec::encode_shx(&f, &enc, &order);
            out.push(Base { big: false, ty, shp: enc.bytes, shx, shp_fields: enc.fields, shx_fields });
        }
    }
    out.extend(real_bases());
    // honest records with one long part followed by very many short ones
    for ty in [Ty::PolylineZ, Ty::Polygon, Ty::Multipatch] {
        let pts = |start: usize, n: usize| -> Vec<P4> { (0..n).map(|i| { let k = (start + i) as f64; [k * 0.5, 3.0 - k * 0.25, 100.0 + k, 1000.0 + k * 0.125] }).collect() };
        let mut parts = vec![MPart { kind: if ty == Ty::Multipatch { 2 } else { 0 }, pts: pts(0, 2000) }];
        for i in 0..1500 {
            parts.push(MPart { kind: if ty == Ty::Multipatch { (i % 6) as u8 } else { 0 }, pts: pts(2000 + 2 * i, 2) });
        }
        let shape = MShape { ty, parts };
        let bbox = codec::true_bbox(&shape);
        let f = MFile { ty, header_box: [0.0; 8], records: vec![MRecord { number: 1, body: MBody::Shape { shape, bbox, with_m: true } }], trailing: vec![] };
        let enc = codec::encode(&f);
        let (shx, shx_fields) = codec::encode_shx(&f, &enc, &[0]);
        // (the first 40 fields: headers, counts and the first part offsets; 1501 offsets x 18 values would dominate the run)
        out.push(Base { big: true, ty, shp: enc.bytes, shx, shp_fields: enc.fields.into_iter().take(40).collect(), shx_fields });
    }
    // honest records of 8192..65536 points in very many small parts
    for (ty, nparts, per) in [(Ty::PolylineZ, 2000usize, 5usize), (Ty::Polygon, 1500, 7), (Ty::Multipatch, 2100, 4)] {
        let mut k = 0usize;
        let parts = (0..nparts).map(|i| {
            let mut pts: Vec<P4> = (0..per).map(|j| { let q = (k + j) as f64; [q * 0.5, 3.0 - q * 0.25, 100.0 + q, 1000.0 + q * 0.125] }).collect();
            k += per;
            if ty.family() == Family::Polygon {
                let f = pts[0];
                *pts.last_mut().unwrap() = f;
            }
            MPart { kind: if ty == Ty::Multipatch { (i % 2) as u8 } else { 0 }, pts }
        }).collect();
        let shape = MShape { ty, parts };
        let bbox = codec::true_bbox(&shape);
        let f = MFile { ty, header_box: [0.0; 8], records: vec![MRecord { number: 1, body: MBody::Shape { shape, bbox, with_m: true } }], trailing: vec![] };
        let enc = codec::encode(&f);
        let (shx, shx_fields) = codec::encode_shx(&f, &enc, &[0]);
        out.push(Base { big: true, ty, shp: enc.bytes, shx, shp_fields: enc.fields.into_iter().take(24).collect(), shx_fields });
    }
    // records that combine two unusual but legal features: a stored box that is inverted, not a number or the
    // "empty envelope", and a part structure with no part at all / an empty first part / empty parts only / an
    // open ring behind an empty part
    for ty in [Ty::Polyline, Ty::PolygonM, Ty::PolylineZ, Ty::PolygonZ, Ty::Multipatch] {
        for structure in 0..5usize {
            let mk = |n: usize, start: usize| -> Vec<P4> { (0..n).map(|i| dflt(start + i)).collect() };
            let lens: Vec<usize> = match structure {
                0 => vec![],
                1 => vec![0, 3],
                2 => vec![0, 0],
                3 => vec![3, 0],
                _ => vec![0, 4, 0, 3],
            };
            let mut k = 0;
            let parts: Vec<MPart> = lens.iter().enumerate().map(|(pi, l)| {
                let pts = mk(*l, k);
                k += l;
                MPart { kind: if ty == Ty::Multipatch { [2u8, 3, 4, 5, 0, 1][(pi + structure) % 6] } else { 0 }, pts }
            }).collect();
            let shape = MShape { ty, parts };
            let t = codec::true_bbox(&shape);
            for bv in 0..5usize {
                let mut bbox = t;
                match bv {
                    0 => {}
                    1 => bbox.swap(0, 2),
                    2 => bbox.swap(1, 3),
                    3 => {
                        bbox[0] = f64::NAN;
                        bbox[3] = f64::NAN;
                    }
                    _ => {
                        bbox[0] = f64::MAX;
                        bbox[1] = f64::MAX;
                        bbox[2] = -f64::MAX;
                        bbox[3] = -f64::MAX;
                    }
                }
                if bv == 1 && bbox[0] <= bbox[2] {
                    bbox[0] = bbox[2] + 1.0;
                }
                if bv == 2 && bbox[1] <= bbox[3] {
                    bbox[1] = bbox[3] + 1.0;
                }
                let f = MFile { ty, header_box: [0.0; 8], records: vec![MRecord { number: 1, body: MBody::Shape { shape: shape.clone(), bbox, with_m: structure % 2 == 0 } }, MRecord { number: 2, body: MBody::Null }], trailing: vec![] };
                let enc = codec::encode(&f);
                let (shx, shx_fields) = codec::encode_shx(&f, &enc, &[0, 1]);
                out.push(Base { big: true, ty, shp: enc.bytes, shx, shp_fields: enc.fields, shx_fields });
            }
        }
    }
    // large valid files: one long part per record, sizes beyond 8 Ki and 64 Ki points
    for ty in [Ty::MultipointZ, Ty::PolylineZ, Ty::PolygonM, Ty::Multipatch, Ty::Polyline] {
        for n in if std::env::var("VCHECK_E3_HUGE").is_ok() { vec![8193usize, 65537] } else { vec![8193usize] } {
            let shape = crate::structs::sized(ty, n);
            let bbox = codec::true_bbox(&shape);
            let f = MFile { ty, header_box: [0.0; 8], records: vec![MRecord { number: 1, body: MBody::Shape { shape, bbox, with_m: true } }, MRecord { number: 2, body: MBody::Null }], trailing: vec![] };
            let enc = codec::encode(&f);
            let (shx, shx_fields) = codec::encode_shx(&f, &enc, &[0, 1]);
            out.push(Base { big: true, ty, shp: enc.bytes, shx, shp_fields: enc.fields, shx_fields });
        }
    }
    out
}

fn fld(off: usize, be: bool, name: String, class: FieldClass) -> Field {
    Field { off, big_endian: be, name, class }
}

/// Field map of an arbitrary (valid) .shp, derived with RefCodec's scan.
fn fields_of(shp: &[u8]) -> Vec<Field> {
    let mut f = vec![
        fld(0, true, "hdr.filecode".into(), FieldClass::FileCode),
        fld(24, true, "hdr.length".into(), FieldClass::FileLength),
        fld(28, false, "hdr.version".into(), FieldClass::Version),
        fld(32, false, "hdr.type".into(), FieldClass::HeaderType),
    ];
    if let Ok(df) = codec::decode_file(shp, &codec::DecodeOpts { strict: false }) {
        for (i, r) in df.records.iter().enumerate().take(4) {
            let o = r.offset;
            f.push(fld(o, true, format!("rec{}.number", i), FieldClass::RecNumber));
            f.push(fld(o + 4, true, format!("rec{}.length", i), FieldClass::RecLength));
            f.push(fld(o + 8, false, format!("rec{}.type", i), FieldClass::RecType));
            let ty = r.read.shape.ty;
            let c = o + 12;
            match ty.family() {
                Family::Multipoint => f.push(fld(c + 32, false, format!("rec{}.numpoints", i), FieldClass::NumPoints)),
                Family::Polyline | Family::Polygon | Family::Multipatch => {
                    f.push(fld(c + 32, false, format!("rec{}.numparts", i), FieldClass::NumParts));
                    f.push(fld(c + 36, false, format!("rec{}.numpoints", i), FieldClass::NumPoints));
                    let np = r.read.shape.parts.len().min(6);
                    for k in 0..np {
                        f.push(fld(c + 40 + 4 * k, false, format!("rec{}.part{}", i, k), FieldClass::PartOffset));
                    }
                    if ty == Ty::Multipatch {
                        let all = r.read.shape.parts.len();
                        for k in 0..np {
                            f.push(fld(c + 40 + 4 * all + 4 * k, false, format!("rec{}.kind{}", i, k), FieldClass::PatchKind));
                        }
                    }
                }
                _ => {}
            }
        }
    }
    f.retain(|x| x.off + 4 <= shp.len());
    f
}

/// The library's own fixture files (written by other producers): real-world
/// layouts as additional base files.  Skipped silently if the directory is absent.
fn real_bases() -> Vec<Base> {
    let mut out = vec![];
    let dir = std::path::Path::new("/repo/tests/data");
    let mut names: Vec<std::path::PathBuf> = match std::fs::read_dir(dir) {
        Ok(rd) => rd.flatten().map(|e| e.path()).filter(|p| p.extension().and_then(|x| x.to_str()) == Some("shp")).collect(),
        Err(_) => return out,
    };
    names.sort();
    for p in names {
        let shp = match std::fs::read(&p) {
            Ok(b) if b.len() >= 100 && b.len() <= 4096 => b,
            _ => continue, // the 27 KiB fixture would dominate the enumeration
        };
        let ty = shp.get(32..36).and_then(|b| Ty::from_code(i32::from_le_bytes(b.try_into().unwrap()))).unwrap_or(Ty::Null);
        let shx = std::fs::read(p.with_extension("shx")).ok().unwrap_or_else(|| {
            // synthesise the index from RefCodec's scan
            let mut x = shp[..100].to_vec();
            let mut n = 0;
            if let Ok(df) = codec::decode_file(&shp, &codec::DecodeOpts { strict: false }) {
                for r in &df.records {
                    x.extend(((r.offset / 2) as i32).to_be_bytes());
                    x.extend(r.content_words.to_be_bytes());
                    n += 1;
                }
            }
            x[24..28].copy_from_slice(&((50 + 4 * n) as i32).to_be_bytes());
            x
        });
        let shp_fields = fields_of(&shp);
        let mut shx_fields = vec![fld(0, true, "shx.filecode".into(), FieldClass::FileCode), fld(24, true, "shx.length".into(), FieldClass::FileLength), fld(32, false, "shx.type".into(), FieldClass::HeaderType)];
        let mut o = 100;
        while o + 8 <= shx.len() && o < 100 + 8 * 4 {
            shx_fields.push(fld(o, true, format!("shx.entry{}.offset", (o - 100) / 8), FieldClass::IdxOffset));
            shx_fields.push(fld(o + 4, true, format!("shx.entry{}.length", (o - 100) / 8), FieldClass::IdxLength));
            o += 8;
        }
        out.push(Base { big: false, ty, shp, shx, shp_fields, shx_fields });
    }
    out
}

#[derive(Clone, Debug, PartialEq)]
pub enum Mutation {
    None,
    /// overwrite field #idx of the target file with value
    Field { idx: usize, value: i32 },
    Pair { a: usize, va: i32, b: usize, vb: i32 },
    Truncate(usize),
    Extend { n: usize, byte: u8 },
    BitFlip { byte: usize, bit: u8 },
    /// valid header prefix (file code) + 96 pattern bytes
    Tail(u8),
    /// another base file's bytes shifted right by k bytes behind a valid file code
    Shifted { other: usize, k: usize },
    /// consistent-but-unbacked: count field(s) set to 2^k, declared lengths recomputed, no data behind
    Ladder { k: u32, which: u8 },
    /// two lying length fields in two different files: the index header's and the main header's
    Cross { shx_len: i32, shp_len: i32 },
    /// the unmutated .shp / .shx read through the complete Reader next to an attribute table whose header declares
    /// this many rows (it holds as many as the .shp has records, at most 3)
    DbfRows(u32),
    /// the unmutated files on disk next to a FoxPro attribute table (version byte `version`) with one memo field and
    /// a memo companion file (.fpt) of 24 bytes whose only memo declares `declared` bytes; read by path
    Memo { version: u8, declared: u32 },
}

#[derive(Clone, Debug)]
pub struct Input {
    pub base: usize,
    /// true: the .shp is mutated, false: the .shx
    pub on_shp: bool,
    pub m: Mutation,
}

impl Input {
    pub fn to_json(&self) -> Value {
        json!({"base": self.base, "on_shp": self.on_shp, "mutation": format!("{:?}", self.m)})
    }
}

fn b32(orig: i32) -> Vec<i32> {
    let mut v = vec![
        0, 1, -1, 2, -2, 3, 4, 7, 8, 16, 50, 100, 1 << 15, 1 << 16, 1 << 24, 1 << 27, 1 << 28, 1 << 29, (1 << 30) - 1, 1 << 30, (1 << 30) + 1,
        i32::MAX - 1, i32::MAX, i32::MIN, i32::MIN + 1, -(1 << 30), -8,
        orig.wrapping_add(1), orig.wrapping_sub(1), orig.wrapping_add(2), orig.wrapping_sub(2), orig.wrapping_mul(2), orig / 2,
    ];
    // every power of two and its neighbours, both signs; the original value shifted by
    // every power of two (size checks done modulo 2^32 accept such counts)
    for k in 0..31 {
        let p = 1i32 << k;
        v.extend([p - 1, p, p + 1, -p, -p - 1, -p + 1, orig.wrapping_add(p), orig.wrapping_sub(p)]);
    }
    v.push(orig.wrapping_add(i32::MIN));
    // where n * d (d = the size of an item or of a group of per-point blocks) crosses 2^31 resp. 2^32, and
    // where n * d + (a block header) does
    for d in [4i64, 8, 12, 16, 20, 24, 28, 32, 36, 40, 48, 56, 64] {
        for top in [1i64 << 31, 1i64 << 32] {
            for delta in [-3i64, -2, -1, 0, 1, 2] {
                let n = top / d + delta;
                if n > 0 && n <= i32::MAX as i64 {
                    v.push(n as i32);
                }
            }
            // the middle of the band between two thresholds
            let mid = (top / d + top / (d + 8)) / 2;
            if mid > 0 && mid <= i32::MAX as i64 {
                v.push(mid as i32);
            }
        }
    }
    v.sort_unstable();
    v.dedup();
    v.retain(|x| *x != orig);
    v
}

fn rd_field(bytes: &[u8], f: &Field) -> i32 {
    let a: [u8; 4] = bytes[f.off..f.off + 4].try_into().unwrap();
    if f.big_endian {
        i32::from_be_bytes(a)
    } else {
        i32::from_le_bytes(a)
    }
}
fn wr_field(bytes: &mut [u8], f: &Field, v: i32) {
    let a = if f.big_endian { v.to_be_bytes() } else { v.to_le_bytes() };
    bytes[f.off..f.off + 4].copy_from_slice(&a);
}

fn interacting(a: FieldClass, b: FieldClass) -> bool {
    use FieldClass::*;
    let len = |c| matches!(c, FileLength | RecLength | IdxLength);
    let cnt = |c| matches!(c, NumParts | NumPoints);
    (len(a) && cnt(b)) || (cnt(a) && len(b)) || (cnt(a) && cnt(b)) || (cnt(a) && b == PartOffset) || (a == PartOffset && cnt(b)) || (a == IdxOffset && b == IdxLength)
}

const PAIR_VALUES: [i32; 9] = [0, -1, 1, 7, 1 << 16, 1 << 28, 1 << 30, i32::MAX, i32::MIN];

pub fn inputs(tier: Tier, bs: &[Base]) -> Vec<Input> {
    let mut v = vec![];
    for (bi, b) in bs.iter().enumerate() {
        v.push(Input { base: bi, on_shp: true, m: Mutation::None });
        for on_shp in [true, false] {
            let (bytes, fields) = if on_shp { (&b.shp, &b.shp_fields) } else { (&b.shx, &b.shx_fields) };
            // 1/2: every field x B32
            for (fi, f) in fields.iter().enumerate() {
                let vals = if b.big {
                    let o = rd_field(bytes, f);
                    vec![0, 1, -1, 2, 7, 255, 1 << 16, 1 << 28, (1 << 30) - 1, 1 << 30, i32::MAX, i32::MIN, o.wrapping_add(1), o.wrapping_sub(1), o.wrapping_mul(2), o / 2, o.wrapping_add(1 << 28), o.wrapping_add(1 << 27)]
                } else {
                    b32(rd_field(bytes, f))
                };
                for val in vals {
                    v.push(Input { base: bi, on_shp, m: Mutation::Field { idx: fi, value: val } });
                }
            }
            // 3: truncations and extensions
            if b.big {
                // around every power of two, around the ends of the blocks of the record, the last 40 bytes
                let mut cuts: Vec<usize> = vec![];
                for k in 6..24 {
                    for d in [0usize, 1, 2] {
                        cuts.push((1usize << k) + d);
                        cuts.push((1usize << k).saturating_sub(d));
                    }
                }
                for j in 1..=40 {
                    cuts.push(bytes.len().saturating_sub(j));
                }
                cuts.sort_unstable();
                cuts.dedup();
                for l in cuts.into_iter().filter(|l| *l < bytes.len()) {
                    v.push(Input { base: bi, on_shp, m: Mutation::Truncate(l) });
                }
                continue;
            }
            for l in 0..bytes.len() {
                v.push(Input { base: bi, on_shp, m: Mutation::Truncate(l) });
            }
            for n in [1usize, 2, 7, 8, 100] {
                for byte in [0x00u8, 0xff] {
                    v.push(Input { base: bi, on_shp, m: Mutation::Extend { n, byte } });
                }
            }
            // 4: single-bit flips
            for byte in 0..bytes.len() {
                for bit in 0..8u8 {
                    v.push(Input { base: bi, on_shp, m: Mutation::BitFlip { byte, bit } });
                }
            }
            // 5: interacting pairs (quick: a 5x5 value grid; thorough: 9x9)
            {
                for (ai, fa) in fields.iter().enumerate() {
                    for (bj, fb) in fields.iter().enumerate().skip(ai + 1) {
                        if interacting(fa.class, fb.class) {
                            let vals: &[i32] = if tier == Tier::Thorough { &PAIR_VALUES } else { &PAIR_VALUES[..5] };
                            for va in vals.iter().copied() {
                                for vb in vals.iter().copied() {
                                    v.push(Input { base: bi, on_shp, m: Mutation::Pair { a: ai, va, b: bj, vb } });
                                }
                            }
                        }
                    }
                }
            }
        }
        if b.big {
            continue;
        }
        // 6: tails
        for p in 0..5u8 {
            v.push(Input { base: bi, on_shp: true, m: Mutation::Tail(p) });
            v.push(Input { base: bi, on_shp: false, m: Mutation::Tail(p) });
        }
        for other in 0..bs.len() {
            if other % 4 == bi % 4 && other != bi {
                for k in 1..=7 {
                    v.push(Input { base: bi, on_shp: true, m: Mutation::Shifted { other, k } });
                }
            }
        }
        // ladders
        let kmax = tier.pick(27, 30);
        for k in 10..=kmax {
            for which in [0u8, 1, 2, 3, 7] {
                v.push(Input { base: bi, on_shp: which != 3, m: Mutation::Ladder { k, which } });
            }
        }
        // an honest part of more than 1024 points in front of the lie (8, 9); no part at all but n points (10), from n = 1
        for k in 10..=kmax {
            for which in [8u8, 9] {
                v.push(Input { base: bi, on_shp: true, m: Mutation::Ladder { k, which } });
            }
        }
        for k in 0..=kmax {
            v.push(Input { base: bi, on_shp: true, m: Mutation::Ladder { k, which: 10 } });
            v.push(Input { base: bi, on_shp: true, m: Mutation::Ladder { k, which: 12 } });
        }
        // the complete Reader next to an attribute table whose header lies about its row count
        for declared in [0u32, 1, 2, 4, 1 << 10, 1 << 16, 1 << 21, 1 << 24, 1 << 28, u32::MAX] {
            v.push(Input { base: bi, on_shp: true, m: Mutation::DbfRows(declared) });
        }
        if bi == 0 {
            for version in [0x30u8, 0xF5, 0x31, 0x83, 0x8B] {
                for declared in [0u32, 8, 1 << 16, 1 << 22, 1 << 26, 1 << 30, u32::MAX] {
                    v.push(Input { base: bi, on_shp: true, m: Mutation::Memo { version, declared } });
                }
            }
        }
        // runs of 2^k zeroed index entries (11)
        for k in 0..=tier.pick(14, 16) {
            v.push(Input { base: bi, on_shp: false, m: Mutation::Ladder { k, which: 11 } });
        }
        // two lying length fields in two different files
        for a in [1i32 << 20, 1 << 24, 1 << 28, 1 << 30, i32::MAX] {
            for c in [1i32 << 20, 1 << 24, 1 << 28, 1 << 30, i32::MAX] {
                v.push(Input { base: bi, on_shp: true, m: Mutation::Cross { shx_len: a, shp_len: c } });
            }
        }
        // partially backed ladders: the parts array (4) resp. 2^k + 1 index entries (6) are really there
        for k in 8..=tier.pick(13, 15) {
            for which in [4u8, 5, 6] {
                v.push(Input { base: bi, on_shp: which != 6, m: Mutation::Ladder { k, which } });
            }
        }
    }
    v
}

/// Build (shp, shx) for an input.  Returns None when the mutation does not
/// apply to this base (e.g. a ladder on a point type).
pub fn materialise(bs: &[Base], inp: &Input) -> Option<(Vec<u8>, Vec<u8>)> {
    let b = &bs[inp.base];
    let mut shp = b.shp.clone();
    let mut shx = b.shx.clone();
    if let Mutation::Cross { shx_len, shp_len } = &inp.m {
        if shp.len() >= 28 && shx.len() >= 28 {
            shx[24..28].copy_from_slice(&shx_len.to_be_bytes());
            shp[24..28].copy_from_slice(&shp_len.to_be_bytes());
        }
        return Some((shp, shx));
    }
    {
        let (bytes, fields) = if inp.on_shp { (&mut shp, &b.shp_fields) } else { (&mut shx, &b.shx_fields) };
        match &inp.m {
            Mutation::None => {}
            Mutation::Field { idx, value } => wr_field(bytes, &fields[*idx], *value),
            Mutation::Pair { a, va, b: bj, vb } => {
                wr_field(bytes, &fields[*a], *va);
                wr_field(bytes, &fields[*bj], *vb);
            }
            Mutation::Truncate(l) => bytes.truncate(*l),
            Mutation::Extend { n, byte } => bytes.extend(std::iter::repeat(*byte).take(*n)),
            Mutation::BitFlip { byte, bit } => bytes[*byte] ^= 1 << bit,
            Mutation::Tail(p) => {
                bytes.truncate(4);
                for i in 0..96u8 {
                    bytes.push(match p {
                        0 => 0x00,
                        1 => 0xff,
                        2 => 0x7f,
                        3 => 0x80,
                        _ => i,
                    });
                }
            }
            Mutation::Shifted { other, k } => {
                bytes.truncate(4);
                bytes.extend(std::iter::repeat(0u8).take(*k));
                bytes.extend(&bs[*other].shp[4..]);
            }
            Mutation::Cross { .. } => unreachable!(),
            Mutation::DbfRows(_) | Mutation::Memo { .. } => {}
            Mutation::Ladder { k, which } => {
                let n: i64 = 1i64 << k;
                if *which == 11 {
                    // 2^k index entries that are all zero (offset 0, length 0), the header consistent with them
                    bytes.truncate(100);
                    bytes[24..28].copy_from_slice(&((50 + 4 * n) as i32).to_be_bytes());
                    bytes.extend(std::iter::repeat(0u8).take(8 * n as usize));
                } else if *which == 6 {
                    // 2^k + 1 real entries, header declares 2^24 of them
                    let declared: i64 = 50 + 4 * (1i64 << 24);
                    let entry: Vec<u8> = bytes.get(100..108).map(|x| x.to_vec()).unwrap_or(vec![0, 0, 0, 50, 0, 0, 0, 10]);
                    bytes.truncate(100);
                    bytes[24..28].copy_from_slice(&(declared as i32).to_be_bytes());
                    for _ in 0..(n + 1) {
                        bytes.extend(&entry);
                    }
                } else if *which == 4 || *which == 5 {
                    // 2^k parts whose start indices are really there, each declaring L points; no points behind
                    let ty = b.ty;
                    let fam = ty.family();
                    if !ty.is_multipart() {
                        return None;
                    }
                    let l: i64 = if *which == 4 { 1024 } else { 1 };
                    let (parts, points) = (n, n * l);
                    if points > i32::MAX as i64 {
                        return None;
                    }
                    let mut size: i64 = 4 + 32 + 4 + 4 + 4 * parts;
                    if fam == Family::Multipatch {
                        size += 4 * parts;
                    }
                    size += 16 * points;
                    if ty.has_z() {
                        size += 16 + 8 * points;
                    }
                    if ty.carries_m() {
                        size += 16 + 8 * points;
                    }
                    let words = size / 2;
                    if 50 + 4 + words > i32::MAX as i64 {
                        return None;
                    }
                    bytes.truncate(100 + 8 + 4 + 32);
                    bytes[24..28].copy_from_slice(&((50 + 4 + words) as i32).to_be_bytes());
                    bytes[104..108].copy_from_slice(&(words as i32).to_be_bytes());
                    bytes.extend((parts as i32).to_le_bytes());
                    bytes.extend((points as i32).to_le_bytes());
                    for i in 0..parts {
                        bytes.extend(((i * l) as i32).to_le_bytes());
                    }
                    if fam == Family::Multipatch {
                        for i in 0..parts {
                            bytes.extend(((i % 6) as i32).to_le_bytes());
                        }
                    }
                    // the first part's points are there, nothing else
                    for _ in 0..l.min(8) {
                        bytes.extend([0u8; 16]);
                    }
                } else if *which == 3 {
                    // index header declaring n entries, none present
                    let words = 50 + 4 * n;
                    if words > i32::MAX as i64 {
                        return None;
                    }
                    bytes.truncate(100);
                    bytes[24..28].copy_from_slice(&(words as i32).to_be_bytes());
                } else {
                    // first record declares n points (which 0), n parts (which 1) or both (2);
                    // record and file length recomputed so that every size check passes
                    let ty = b.ty;
                    let fam = ty.family();
                    if fam == Family::Point || fam == Family::Null {
                        return None;
                    }
                    if fam == Family::Multipoint && *which != 0 {
                        return None;
                    }
                    if *which == 7 && fam == Family::Multipoint {
                        return None;
                    }
                    if (*which == 8 || *which == 9 || *which == 10 || *which == 12) && fam == Family::Multipoint {
                        return None;
                    }
                    // 8 / 9: an honest first part of 1025 / 3000 points that are really there, then a last part declaring n more
                    let real: i64 = match which {
                        8 => 1025,
                        9 => 3000,
                        _ => 0,
                    };
                    let (parts, points): (i64, i64) = match which {
                        0 | 7 => (1, n),
                        1 => (n, 0),
                        8 | 9 => (2, real + n),
                        // no part at all, n points
                        10 => (0, n),
                        // two parts, the FIRST one declaring n points, the last one 2
                        12 => (2, n + 2),
                        _ => (n, n),
                    };
                    let mut size: i64 = 4 + 32 + 4; // type, box, numpoints
                    if fam != Family::Multipoint {
                        size += 4 + 4 * parts;
                    }
                    if fam == Family::Multipatch {
                        size += 4 * parts;
                    }
                    size += 16 * points;
                    if ty.has_z() {
                        size += 16 + 8 * points;
                    }
                    if ty.carries_m() {
                        size += 16 + 8 * points;
                    }
                    let words = size / 2;
                    if words > i32::MAX as i64 || 50 + 4 + words > i32::MAX as i64 {
                        return None;
                    }
                    bytes.truncate(100 + 8 + 4 + 32);
                    bytes[24..28].copy_from_slice(&((50 + 4 + words) as i32).to_be_bytes());
                    bytes[104..108].copy_from_slice(&(words as i32).to_be_bytes());
                    if fam != Family::Multipoint {
                        bytes.extend((parts as i32).to_le_bytes());
                    }
                    bytes.extend((points as i32).to_le_bytes());
                    if *which == 8 || *which == 9 {
                        bytes.extend(0i32.to_le_bytes());
                        bytes.extend((real as i32).to_le_bytes());
                        if fam == Family::Multipatch {
                            bytes.extend(0i32.to_le_bytes());
                            bytes.extend(1i32.to_le_bytes());
                        }
                        for i in 0..real {
                            bytes.extend((i as f64).to_le_bytes());
                            bytes.extend((-(i as f64)).to_le_bytes());
                        }
                    } else if *which == 12 {
                        bytes.extend(0i32.to_le_bytes());
                        bytes.extend((n as i32).to_le_bytes());
                        if fam == Family::Multipatch {
                            bytes.extend(0i32.to_le_bytes());
                            bytes.extend(1i32.to_le_bytes());
                        }
                        bytes.extend([0u8; 48]);
                    } else if *which == 10 {
                        // what little follows is not what is declared (for small n it is more than declared)
                        bytes.extend([0u8; 64]);
                    } else if *which == 7 {
                        // the single part starts at num_points: it is empty, no x/y data is needed,
                        // the Z / M range blocks are there, the per-point arrays are not
                        bytes.extend((points as i32).to_le_bytes());
                        if fam == Family::Multipatch {
                            bytes.extend(5i32.to_le_bytes());
                        }
                        bytes.extend([0u8; 64]);
                    } else {
                        // a little data behind it, nothing like what is declared
                        bytes.extend([0u8; 24]);
                    }
                }
            }
        }
    }
    Some((shp, shx))
}

// ---------------------------------------------------------------------
// driver: one input through every reader entry point

pub struct CaseResult {
    pub findings: Vec<(String, String)>,
    pub lib_calls: u64,
    pub outcome: u64,
}

struct Meter {
    budget: usize,
    prop: Prop,
    findings: Vec<(String, String)>,
    calls: u64,
    out: Fnv,
}

impl Meter {
    /// run one reader call under catch + allocation measurement
    fn call<T>(&mut self, entry: &str, f: impl FnOnce() -> T) -> Option<T> {
        self.calls += 1;
        let base = alloc::reset();
        let r = catch(f);
        let (peak, largest) = alloc::measure(base);
        if self.prop == Prop::C17 && (peak > self.budget || largest > self.budget) {
            let class = if largest > self.budget { "single-request" } else { "peak" };
            self.findings.push((
                format!("memory:{}:{}", entry, class),
                format!("{}: peak {} bytes, largest request {} bytes, budget {} bytes", entry, peak, largest, self.budget),
            ));
        }
        match r {
            Ok(v) => Some(v),
            Err(p) => {
                self.out.str(&p.sig());
                if self.prop == Prop::C07 {
                    self.findings.push((format!("{}:{}", entry, p.sig()), format!("{}: panic at {}:{}: {}", entry, p.file, p.line, p.msg)));
                }
                None
            }
        }
    }
    /// returns whether the iteration came to its end (None) within the cap
    fn drain<I, T>(&mut self, entry: &str, cap: usize, it: &mut I, mut each: impl FnMut(&Result<T, shapefile::Error>)) -> bool
    where
        I: Iterator<Item = Result<T, shapefile::Error>>,
    {
        let mut n = 0usize;
        let mut ended = false;
        loop {
            let item = match self.call(entry, || it.next()) {
                Some(x) => x,
                None => break, // panicked: the iterator state is unknown
            };
            match item {
                None => {
                    ended = true;
                    break;
                }
                Some(x) => {
                    each(&x);
                    self.out.u64(x.is_ok() as u64);
                    drop(x);
                    n += 1;
                    if n > cap {
                        if self.prop == Prop::C07 {
                            self.findings.push((format!("{}:iteration-does-not-end", entry), format!("{}: more than {} items from an input of that many bytes", entry, cap)));
                        }
                        break;
                    }
                }
            }
        }
        self.out.u64(n as u64);
        ended
    }
}

pub fn drive(prop: Prop, shp: &[u8], shx: &[u8], hdr_ty: Ty) -> CaseResult {
    let total = shp.len() + shx.len();
    let cap = total + 16;
    let mut m = Meter { budget: 64 * total + 64 * 1024, prop, findings: vec![], calls: 0, out: Fnv::new() };
    // 1. no index: iter_shapes to the end
    let mut plain_ends = (false, false); // (without index, with index)
    if let Some(Ok(mut r)) = m.call("new", || ShapeReader::new(Dev::quiet(shp.to_vec()))) {
        if let Some(mut it) = m.call("iter_shapes()", || r.iter_shapes()) {
            plain_ends.0 = m.drain("iter_shapes", cap, &mut it, |_| {});
        }
    }
    // 2. typed iteration with the header's own type
    if hdr_ty != Ty::Null {
        if let Some(Ok(mut r)) = m.call("new", || ShapeReader::new(Dev::quiet(shp.to_vec()))) {
            with_ty!(hdr_ty, T => {
                if let Some(mut it) = m.call("iter_shapes_as()", || r.iter_shapes_as::<T>()) {
                    m.drain("iter_shapes_as", cap, &mut it, |_| {});
                }
            }, ());
        }
    }
    // 2b. typed iteration as two fixed other types (the mismatch path; with an index it goes on after errors)
    for other in [Ty::Point, Ty::PolygonZ] {
        if other == hdr_ty {
            continue;
        }
        if let Some(Ok(mut r)) = m.call("with_shx", || ShapeReader::with_shx(Dev::quiet(shp.to_vec()), Dev::quiet(shx.to_vec()))) {
            with_ty!(other, T => {
                if let Some(mut it) = m.call("iter_shapes_as()", || r.iter_shapes_as::<T>()) {
                    m.drain("iter_shapes_as<other>+shx", cap, &mut it, |_| {});
                }
            }, ());
        }
    }
    // 3. read()
    if let Some(Ok(r)) = m.call("new", || ShapeReader::new(Dev::quiet(shp.to_vec()))) {
        let r = m.call("read", move || r.read().map(|v| v.len()));
        m.out.u64(match r {
            Some(Ok(n)) => n as u64,
            _ => u64::MAX,
        });
    }
    // 4. with index
    if let Some(Ok(mut r)) = m.call("with_shx", || ShapeReader::with_shx(Dev::quiet(shp.to_vec()), Dev::quiet(shx.to_vec()))) {
        let count = m.call("shape_count", || r.shape_count()).and_then(|c| c.ok()).unwrap_or(0);
        m.out.u64(count as u64);
        if let Some(mut it) = m.call("iter_shapes()+shx", || r.iter_shapes()) {
            let mut n = 0usize;
            loop {
                let hint_ok = m.call("size_hint", || it.size_hint()).is_some();
                let item = match m.call("iter_shapes+shx", || it.next()) {
                    Some(x) => x,
                    None => break,
                };
                if item.is_none() {
                    plain_ends.1 = true;
                }
                if item.is_none() || !hint_ok {
                    break;
                }
                drop(item);
                n += 1;
                if n > cap {
                    if prop == Prop::C07 {
                        m.findings.push(("iter_shapes+shx:iteration-does-not-end".into(), format!("more than {} items", cap)));
                    }
                    break;
                }
            }
            m.out.u64(n as u64);
        }
        for i in 0..count.min(8) + 1 {
            let x = m.call("read_nth_shape", || r.read_nth_shape(i).map(|x| x.is_ok()));
            m.out.u64(match x {
                Some(Some(true)) => 1,
                Some(Some(false)) => 2,
                Some(None) => 3,
                None => 4,
            });
            m.call("seek", || r.seek(i).is_ok());
            if let Some(mut it) = m.call("iter_shapes()+shx", || r.iter_shapes()) {
                m.call("seek+next", || it.next().map(|x| x.is_ok()));
            }
        }
    }
    // 4b. gathering an iteration through the size-hint driven std paths
    if let Some(Ok(mut r)) = m.call("new", || ShapeReader::new(Dev::quiet(shp.to_vec()))) {
        if plain_ends.0 {
            let n = m.call("iter_shapes().collect::<Vec<_>>", || r.iter_shapes().collect::<Vec<_>>().len());
            m.out.u64(n.unwrap_or(0) as u64);
        }
    }
    if let Some(Ok(mut r)) = m.call("with_shx", || ShapeReader::with_shx(Dev::quiet(shp.to_vec()), Dev::quiet(shx.to_vec()))) {
        if plain_ends.1 {
            let n = m.call("iter_shapes()+shx.collect::<Vec<_>>", || r.iter_shapes().collect::<Vec<_>>().len());
            m.out.u64(n.unwrap_or(0) as u64);
        }
    }
    // 5. the iterators driven through the std adaptors an iterator type may override
    {
        use crate::iterprog::{self, Prog};
        for p in [Prog::NextNthHuge, Prog::NthHuge, Prog::NextLast, Prog::Count, Prog::StepBy(2), Prog::NextSkip(1), Prog::NthNext(1)] {
            // programs that consume the whole iteration cannot be capped from outside: where the plain iteration
            // does not end (reported above) std's default `count` / `last` / `nth` would spin on it
            let unbounded = matches!(p, Prog::NextNthHuge | Prog::NthHuge | Prog::NextLast | Prog::Count);
            if unbounded && !plain_ends.0 {
                continue;
            }
            if let Some(Ok(mut r)) = m.call("new", || ShapeReader::new(Dev::quiet(shp.to_vec()))) {
                let o = m.call(&format!("iter_shapes().{}", p.name()), || {
                    let o = iterprog::run(r.iter_shapes(), p, cap);
                    (o.answers.len(), o.count)
                });
                if let (Some((n, c)), Prop::C07) = (o, prop) {
                    m.out.u64(n as u64);
                    if n > cap || c.unwrap_or(0) > cap {
                        m.findings.push((format!("iter_shapes().{}:iteration-does-not-end", p.name()), format!("{} items / count {:?} from an input of {} bytes", n, c, total)));
                    }
                }
            }
            if unbounded && !plain_ends.1 {
                continue;
            }
            if let Some(Ok(mut r)) = m.call("with_shx", || ShapeReader::with_shx(Dev::quiet(shp.to_vec()), Dev::quiet(shx.to_vec()))) {
                let o = m.call(&format!("iter_shapes()+shx.{}", p.name()), || {
                    let o = iterprog::run(r.iter_shapes(), p, cap);
                    (o.answers.len(), o.count)
                });
                if let (Some((n, c)), Prop::C07) = (o, prop) {
                    m.out.u64(n as u64);
                    if n > cap || c.unwrap_or(0) > cap {
                        m.findings.push((format!("iter_shapes()+shx.{}:iteration-does-not-end", p.name()), format!("{} items / count {:?} from an input of {} bytes", n, c, total)));
                    }
                }
            }
        }
    }
    CaseResult { findings: m.findings, lib_calls: m.calls, outcome: m.out.finish() }
}

fn header_ty(shp: &[u8]) -> Ty {
    shp.get(32..36).and_then(|b| Ty::from_code(i32::from_le_bytes(b.try_into().unwrap()))).unwrap_or(Ty::Null)
}

pub fn run_input(prop: Prop, bs: &[Base], inp: &Input) -> Option<CaseResult> {
    let (shp, shx) = materialise(bs, inp)?;
    if let Mutation::DbfRows(declared) = &inp.m {
        return Some(drive_complete(prop, &shp, &shx, *declared));
    }
    if let Mutation::Memo { version, declared } = &inp.m {
        return Some(drive_memo(prop, &shp, &shx, *version, *declared));
    }
    Some(drive(prop, &shp, &shx, header_ty(&shp)))
}

/// The data set on disk, its attribute table having a memo field and a memo companion file, read by path.
pub fn drive_memo(prop: Prop, shp: &[u8], shx: &[u8], version: u8, declared: u32) -> CaseResult {
    let backlink: u16 = if (0x30..=0x32).contains(&version) { 263 } else { 0 };
    let mut dbf = vec![version, 124, 1, 1];
    dbf.extend_from_slice(&1u32.to_le_bytes());
    dbf.extend_from_slice(&(32 + 32 + 1 + backlink).to_le_bytes());
    dbf.extend_from_slice(&(if version & 0x0F == 0x03 || version == 0x8B { 11u16 } else { 5 }).to_le_bytes());
    dbf.extend_from_slice(&[0u8; 20]);
    let mut name = [0u8; 11];
    name[..4].copy_from_slice(b"NOTE");
    dbf.extend_from_slice(&name);
    dbf.push(b'M');
    dbf.extend_from_slice(&[0u8; 4]);
    let foxpro = dbf[10] == 5;
    dbf.push(if foxpro { 4 } else { 10 });
    dbf.push(0);
    dbf.extend_from_slice(&[0u8; 14]);
    dbf.push(0x0D);
    dbf.extend(std::iter::repeat(0u8).take(backlink as usize));
    dbf.push(b' ');
    if foxpro {
        dbf.extend_from_slice(&1u32.to_le_bytes());
    } else {
        dbf.extend_from_slice(b"         1");
    }
    dbf.push(0x1A);
    let mut memo = vec![];
    memo.extend_from_slice(&2u32.to_le_bytes());
    memo.extend_from_slice(&0u16.to_be_bytes());
    memo.extend_from_slice(&8u16.to_be_bytes());
    memo.extend_from_slice(&1u32.to_be_bytes());
    memo.extend_from_slice(&declared.to_be_bytes());
    memo.extend_from_slice(b"a memo!!");
    let dir = crate::props::c01_c02::scratch_dir().join(format!("memo-{:02x}-{}", version, declared));
    let _ = std::fs::create_dir_all(&dir);
    let total = shp.len() + shx.len() + dbf.len() + memo.len();
    let mut m = Meter { budget: 64 * total + 64 * 1024, prop, findings: vec![], calls: 0, out: Fnv::new() };
    for ext in ["fpt", "dbt"] {
        let _ = std::fs::remove_file(dir.join("set.fpt"));
        let _ = std::fs::remove_file(dir.join("set.dbt"));
        let ok = [("shp", shp), ("shx", shx), ("dbf", &dbf[..]), (ext, &memo[..])].iter().all(|(e, b)| std::fs::write(dir.join(format!("set.{}", e)), b).is_ok());
        if !ok {
            eprintln!("vcheck: cannot write the data set under {}", dir.display());
            std::process::exit(2);
        }
        let path = dir.join("set.shp");
        let n = m.call(&format!("shapefile::read(.{})", ext), || shapefile::read(&path).map(|v| v.len()));
        m.out.u64(match n {
            Some(Ok(n)) => n as u64 + 1,
            Some(Err(_)) => 0,
            None => u64::MAX,
        });
        if let Some(Ok(mut r)) = m.call(&format!("Reader::from_path(.{})", ext), || shapefile::Reader::from_path(&path)) {
            if let Some(mut it) = m.call("iter_shapes_and_records()", || r.iter_shapes_and_records()) {
                m.drain(&format!("from_path(.{}).iter_shapes_and_records", ext), total + 16, &mut it, |_| {});
            }
        }
    }
    let _ = std::fs::remove_dir_all(&dir);
    crate::props::c01_c02::cleanup_scratch();
    CaseResult { findings: m.findings, lib_calls: m.calls, outcome: m.out.finish() }
}

/// The complete Reader over the files and an attribute table of three real rows whose header declares `declared`.
pub fn drive_complete(prop: Prop, shp: &[u8], shx: &[u8], declared: u32) -> CaseResult {
    let dbf = {
        let d = Dev::quiet(vec![]);
        {
            let mut tw = crate::table::table_writer(d.clone());
            for i in 0..3 {
                tw.write_record(&crate::table::good_row(i)).expect("row");
            }
        }
        let mut b = d.data();
        b[4..8].copy_from_slice(&declared.to_le_bytes());
        b
    };
    let total = shp.len() + shx.len() + dbf.len();
    let cap = total + 16;
    let mut m = Meter { budget: 64 * total + 64 * 1024, prop, findings: vec![], calls: 0, out: Fnv::new() };
    for with_index in [true, false] {
        let open = |m: &mut Meter| -> Option<shapefile::Reader<Dev, Dev>> {
            let sr = m.call("open", || if with_index { ShapeReader::with_shx(Dev::quiet(shp.to_vec()), Dev::quiet(shx.to_vec())) } else { ShapeReader::new(Dev::quiet(shp.to_vec())) })?.ok()?;
            let dr = m.call("dbase::Reader::new", || shapefile::dbase::Reader::new(Dev::quiet(dbf.clone())))?.ok()?;
            Some(shapefile::Reader::new(sr, dr))
        };
        let tag = if with_index { "+shx" } else { "" };
        if let Some(mut r) = open(&mut m) {
            let n = m.call(&format!("Reader::read{}", tag), || r.read().map(|v| v.len()));
            m.out.u64(match n {
                Some(Ok(n)) => n as u64,
                _ => u64::MAX,
            });
        }
        if let Some(mut r) = open(&mut m) {
            if let Some(mut it) = m.call("iter_shapes_and_records()", || r.iter_shapes_and_records()) {
                m.drain(&format!("Reader::iter_shapes_and_records{}", tag), cap, &mut it, |_| {});
            }
        }
    }
    CaseResult { findings: m.findings, lib_calls: m.calls, outcome: m.out.finish() }
}

// ---------------------------------------------------------------------
// worker

pub fn worker_main(prop: Prop, tier: Tier, from: usize, to: usize) -> i32 {
    // a worker must not outlive its supervisor (a spinning orphan would keep a core and every inherited descriptor)
    unsafe {
        libc::prctl(libc::PR_SET_PDEATHSIG, libc::SIGKILL);
    }
    let bs = bases();
    let ins = inputs(tier, &bs);
    let stdout = std::io::stdout();
    let mut out = stdout.lock();
    for i in from..to.min(ins.len()) {
        let _ = writeln!(out, "S {}", i);
        let _ = out.flush();
        match run_input(prop, &bs, &ins[i]) {
            None => {
                let _ = writeln!(out, "N {}", i);
            }
            Some(r) => {
                for (sig, d) in &r.findings {
                    let _ = writeln!(out, "V {} {}\t{}", i, sig.replace(['\n', '\t'], " "), d.replace(['\n', '\t'], " "));
                }
                let _ = writeln!(out, "E {} {} {}", i, r.lib_calls, r.outcome);
            }
        }
    }
    let _ = writeln!(out, "Q");
    let _ = out.flush();
    0
}

// ---------------------------------------------------------------------
// parent

struct RangeState {
    next: usize,
    end: usize,
}

fn sig_for_abnormal(status: &std::process::ExitStatus, saw_cap: bool) -> String {
    use std::os::unix::process::ExitStatusExt;
    if saw_cap || status.code() == Some(86) {
        "process-killed:allocation-request-above-1GiB".into()
    } else if let Some(s) = status.signal() {
        format!("process-killed:signal-{}", s)
    } else {
        format!("process-exit:{}", status.code().unwrap_or(-1))
    }
}

/// Run the range [from, to) in worker subprocesses, restarting after the
/// case that killed a worker.  Results are recorded into `ctx`.
fn supervise(prop: Prop, tier: Tier, ins: &[Input], from: usize, to: usize, ctx: &mut Ctx, tick: &dyn Fn()) {
    let exe = std::env::current_exe().expect("current_exe");
    let mut st = RangeState { next: from, end: to };
    while st.next < st.end {
        let mut child = Command::new(&exe)
            .arg("worker")
            .arg(format!("{:?}", prop))
            .arg(tier.name())
            .arg(st.next.to_string())
            .arg(st.end.to_string())
            .stdin(Stdio::null())
            .stdout(Stdio::piped())
            .stderr(Stdio::null())
            .spawn()
            .expect("spawn worker");
        let stdout = child.stdout.take().unwrap();
        // reader thread -> channel, so that the parent can time out
        let (tx, rx) = std::sync::mpsc::channel::<String>();
        let h = std::thread::spawn(move || {
            for line in BufReader::new(stdout).lines().map_while(Result::ok) {
                if tx.send(line).is_err() {
                    break;
                }
            }
        });
        let mut current: Option<usize> = None;
        let mut finished = false;
        let mut saw_cap = false;
        let mut hung = false;
        loop {
            match rx.recv_timeout(Duration::from_secs(E3_HANG_SECS)) {
                Ok(line) => {
                    tick();
                    let mut it = line.splitn(3, ' ');
                    match it.next() {
                        Some("S") => current = it.next().and_then(|x| x.parse().ok()),
                        Some("N") => {
                            current = None;
                            st.next = it.next().and_then(|x| x.parse::<usize>().ok()).map(|x| x + 1).unwrap_or(st.next + 1);
                        }
                        Some("V") => {
                            let i: usize = it.next().and_then(|x| x.parse().ok()).unwrap_or(0);
                            let rest = it.next().unwrap_or("");
                            let (sig, d) = rest.split_once('\t').unwrap_or((rest, ""));
                            let (sig, d) = (sig.to_string(), d.to_string());
                            ctx.violation(sig, || ins[i].to_json(), || d);
                        }
                        Some("E") => {
                            let i: usize = it.next().and_then(|x| x.parse().ok()).unwrap_or(0);
                            let rest = it.next().unwrap_or("");
                            let mut p = rest.split(' ');
                            let calls: u64 = p.next().and_then(|x| x.parse().ok()).unwrap_or(0);
                            let outcome: u64 = p.next().and_then(|x| x.parse().ok()).unwrap_or(0);
                            let mut h = Fnv::new();
                            h.u64(i as u64);
                            ctx.lib_calls += calls;
                            ctx.case_done(h.finish(), ins[i].m != Mutation::None, outcome);
                            if matches!(ins[i].m, Mutation::Ladder { .. }) {
                                ctx.sample(|| ins[i].to_json());
                            }
                            current = None;
                            st.next = i + 1;
                        }
                        Some("X") => saw_cap = true,
                        Some("Q") => finished = true,
                        _ => {}
                    }
                }
                Err(std::sync::mpsc::RecvTimeoutError::Timeout) => {
                    hung = true;
                    let _ = child.kill();
                    break;
                }
                Err(std::sync::mpsc::RecvTimeoutError::Disconnected) => break,
            }
        }
        let status = child.wait().expect("wait worker");
        let _ = h.join();
        if finished && status.success() {
            st.next = st.end;
            break;
        }
        // abnormal end: attribute to the case in progress
        match current {
            Some(i) => {
                let sig = if hung { format!("hang:no-progress-for-{}s", E3_HANG_SECS) } else { sig_for_abnormal(&status, saw_cap) };
                let mut h = Fnv::new();
                h.u64(i as u64);
                ctx.case_done(h.finish(), true, 2);
                ctx.violation(sig.clone(), || ins[i].to_json(), || format!("worker died while reading this input: {}", sig));
                st.next = i + 1;
            }
            None => {
                // died between cases: machinery trouble, not a verdict
                eprintln!("vcheck: worker for range {}..{} ended abnormally outside a case ({:?})", st.next, st.end, status);
                ctx.bump("machinery_failures", 1);
                st.next = st.end;
            }
        }
    }
}

/// A worker that reports nothing for this long is taken to hang on the case in progress (shorter than the
/// engine's own watchdog, which would otherwise end the whole run as a machinery failure first).
const E3_HANG_SECS: u64 = 8;

pub fn check(prop: Prop, tier: Tier) -> i32 {
    let started = Instant::now();
    let bs = bases();
    let ins = inputs(tier, &bs);
    let chunk = 1000usize;
    let nblocks = (ins.len() + chunk - 1) / chunk;
    let (agg, capped) = par_blocks(nblocks, None, |b, ctx, tick| {
        supervise(prop, tier, &ins, b * chunk, ((b + 1) * chunk).min(ins.len()), ctx, tick);
    });
    if agg.extra.get("machinery_failures").copied().unwrap_or(0) > 0 {
        eprintln!("vcheck: worker failures outside any case: machinery failure");
        return 2;
    }
    // self-test: the driver must notice a synthetic allocation / panic / endless iterator
    // the self-test runs the library too: on a tree that panics there it counts as failed (a verdict, if there is one,
    // takes precedence over it)
    let st = catch(|| selftest(prop)).unwrap_or((1, 0));
    let (id, rule, level) = match prop {
        Prop::C07 => (
            "C07",
            "42 synthetic base files (14 type codes x {1,2,3} records, RefCodec, up to 4 parts, M block present) plus the library's own fixture files under tests/data (other producers' layouts, <= 4 KiB) with their .shx; every 32-bit field (file code, length, version, type, record number, content length, record type, part count, point count, every part offset, every patch kind, every index offset/length) x boundary values B32; every truncation length and extensions by {1,2,7,8,100} bytes of {00,ff}; every single-bit flip; valid file code + 96-byte pattern tails; other base files shifted by 1-7 bytes; (thorough) interacting field pairs x 9x9 values; consistent-but-unbacked count ladders; each input driven through new/iter_shapes/iter_shapes_as/read/with_shx/shape_count/size_hint/next/read_nth_shape/seek in a worker subprocess with overflow checks and debug assertions on; non-trivial = any mutation",
            "model_checking",
        ),
        Prop::C17 => (
            "C17",
            "all inputs of C07 plus consistent-but-unbacked ladders (count fields = 2^k, k = 10..27 (thorough 30), declared record / file / index lengths recomputed so that every size check passes, no data behind them); per reader call: peak live bytes above the level at entry and largest single request, measured by a counting global allocator; bound 64 x (len(shp)+len(shx)) + 64 KiB; non-trivial = any mutation",
            "model_checking",
        ),
    };
    finish(
        RunInfo {
            prop: id,
            tier,
            level,
            engine: "E3 field-mutation enumerator, worker subprocesses (crash / hang attribution), counting global allocator",
            rule,
            bounds: json!({"base_files": bs.len(), "inputs": ins.len(), "b32_values": b32(12345).len(), "hang_seconds": HANG_SECS, "hard_alloc_cap": alloc::HARD_CAP}),
            exhaustive: true,
            assumptions: vec![
                "random bit-flip sets and unstructured random bytes of the statement are replaced by complete enumeration of the named finite families; byte strings outside them are not covered".into(),
                "iteration bound used: len(shp)+len(shx)+16 items".into(),
            ],
            started,
            states: 0,
            transitions: 0,
            selftest: st,
            extra: Default::default(),
        },
        agg,
        capped,
    )
}

fn selftest(prop: Prop) -> (u64, u64) {
    let mut inj = 0;
    let mut det = 0;
    let mut m = Meter { budget: 1000, prop, findings: vec![], calls: 0, out: Fnv::new() };
    match prop {
        Prop::C07 => {
            inj += 1;
            m.call::<()>("selftest", || panic!("attempt to multiply with overflow"));
            det += (!m.findings.is_empty()) as u64;
            let mut m2 = Meter { budget: 1000, prop, findings: vec![], calls: 0, out: Fnv::new() };
            inj += 1;
            let mut endless = std::iter::repeat_with(|| Err::<Shape, _>(shapefile::Error::InvalidShapeRecordSize));
            m2.drain("selftest", 50, &mut endless, |_| {});
            det += m2.findings.iter().any(|f| f.0.contains("does-not-end")) as u64;
        }
        Prop::C17 => {
            inj += 1;
            m.call("selftest", || {
                let v: Vec<u8> = Vec::with_capacity(1 << 20);
                std::hint::black_box(&v);
            });
            det += m.findings.iter().any(|f| f.0.contains("single-request")) as u64;
            let mut m2 = Meter { budget: 100_000, prop, findings: vec![], calls: 0, out: Fnv::new() };
            inj += 1;
            m2.call("selftest", || {
                let v: Vec<Vec<u8>> = (0..64).map(|_| vec![1u8; 4096]).collect();
                std::hint::black_box(&v);
            });
            det += m2.findings.iter().any(|f| f.0.contains("peak")) as u64;
        }
    }
    (inj, det)
}

/// Replay: the case is re-run in a subprocess so that an abort is reported, not suffered.
pub fn replay(prop: Prop, v: &Value) -> Vec<(String, String)> {
    let bs = bases();
    let desc = v.get("mutation").and_then(|x| x.as_str()).unwrap_or("").to_string();
    let base = v.get("base").and_then(|x| x.as_u64()).unwrap_or(0) as usize;
    let on_shp = v.get("on_shp").and_then(|x| x.as_bool()).unwrap_or(true);
    // find the input by its description in the thorough enumeration (superset of quick)
    let ins = inputs(Tier::Thorough, &bs);
    let idx = ins.iter().position(|i| i.base == base && i.on_shp == on_shp && format!("{:?}", i.m) == desc);
    let idx = match idx {
        Some(i) => i,
        None => return vec![("bad-replay-file".into(), "input not found in the enumeration".into())],
    };
    let mut ctx = Ctx::new();
    supervise(prop, Tier::Thorough, &ins, idx, idx + 1, &mut ctx, &|| {});
    ctx.findings.into_iter().map(|(k, f)| (k, f.detail)).collect()
}
