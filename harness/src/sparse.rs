//! A sparse Read + Seek source: a few byte ranges at arbitrary (huge)
//! offsets, filler everywhere else, a declared total length.  Lets C14 place
//! records beyond 2 GiB without materialising the file.

use std::io::{self, Read, Seek, SeekFrom};

pub struct Sparse {
    pub chunks: Vec<(u64, Vec<u8>)>,
    pub len: u64,
    pub filler: u8,
    pub pos: u64,
}

impl Read for Sparse {
    fn read(&mut self, buf: &mut [u8]) -> io::Result<usize> {
        if self.pos >= self.len || buf.is_empty() {
            return Ok(0);
        }
        // serve at most up to the next chunk boundary, at most 64 KiB of filler at a time
        let want = (buf.len() as u64).min(self.len - self.pos).min(65536) as usize;
        for b in buf[..want].iter_mut() {
            *b = self.filler;
        }
        for (off, data) in &self.chunks {
            let (a0, a1) = (*off, *off + data.len() as u64);
            let (b0, b1) = (self.pos, self.pos + want as u64);
            let lo = a0.max(b0);
            let hi = a1.min(b1);
            if lo < hi {
                buf[(lo - b0) as usize..(hi - b0) as usize].copy_from_slice(&data[(lo - a0) as usize..(hi - a0) as usize]);
            }
        }
        self.pos += want as u64;
        Ok(want)
    }
}

impl Seek for Sparse {
    fn seek(&mut self, from: SeekFrom) -> io::Result<u64> {
        let new = match from {
            SeekFrom::Start(n) => n as i128,
            SeekFrom::End(n) => self.len as i128 + n as i128,
            SeekFrom::Current(n) => self.pos as i128 + n as i128,
        };
        if new < 0 || new > u64::MAX as i128 {
            return Err(io::Error::new(io::ErrorKind::InvalidInput, "seek out of range"));
        }
        self.pos = new as u64;
        Ok(self.pos)
    }
}
