//! `Dev`: the instrumented in-memory device that owns every environment
//! answer (DESIGN §2.2).  Read + Write + Seek over a shared byte vector with an
//! operation log, a fault plan and a short-I/O schedule.

use std::cell::RefCell;
use std::io::{self, Read, Seek, SeekFrom, Write};
use std::rc::Rc;

pub const INJECTED: &str = "vcheck-injected";

/// every error kind a destination or source can answer with (the stable variants of std::io::ErrorKind)
pub const ALL_KINDS: [io::ErrorKind; 39] = [
    io::ErrorKind::Other,
    io::ErrorKind::NotFound,
    io::ErrorKind::PermissionDenied,
    io::ErrorKind::ConnectionRefused,
    io::ErrorKind::ConnectionReset,
    io::ErrorKind::HostUnreachable,
    io::ErrorKind::NetworkUnreachable,
    io::ErrorKind::ConnectionAborted,
    io::ErrorKind::NotConnected,
    io::ErrorKind::AddrInUse,
    io::ErrorKind::AddrNotAvailable,
    io::ErrorKind::NetworkDown,
    io::ErrorKind::BrokenPipe,
    io::ErrorKind::AlreadyExists,
    io::ErrorKind::WouldBlock,
    io::ErrorKind::NotADirectory,
    io::ErrorKind::IsADirectory,
    io::ErrorKind::DirectoryNotEmpty,
    io::ErrorKind::ReadOnlyFilesystem,
    io::ErrorKind::StaleNetworkFileHandle,
    io::ErrorKind::InvalidInput,
    io::ErrorKind::InvalidData,
    io::ErrorKind::TimedOut,
    io::ErrorKind::WriteZero,
    io::ErrorKind::StorageFull,
    io::ErrorKind::NotSeekable,
    io::ErrorKind::QuotaExceeded,
    io::ErrorKind::FileTooLarge,
    io::ErrorKind::ResourceBusy,
    io::ErrorKind::ExecutableFileBusy,
    io::ErrorKind::Deadlock,
    io::ErrorKind::CrossesDevices,
    io::ErrorKind::TooManyLinks,
    io::ErrorKind::InvalidFilename,
    io::ErrorKind::ArgumentListTooLong,
    io::ErrorKind::Interrupted,
    io::ErrorKind::Unsupported,
    io::ErrorKind::UnexpectedEof,
    io::ErrorKind::OutOfMemory,
];

#[derive(Clone, Debug, PartialEq, Eq)]
pub enum Op {
    Write { call: u32, pos: u64, bytes: Vec<u8> },
    Read { call: u32, pos: u64, asked: usize, got: usize },
    Seek { call: u32, result: u64 },
    Flush { call: u32 },
    /// an operation that was answered with the injected error (no effect)
    Failed { call: u32, what: &'static str },
}

impl Op {
    pub fn call(&self) -> u32 {
        match self {
            Op::Write { call, .. }
            | Op::Read { call, .. }
            | Op::Seek { call, .. }
            | Op::Flush { call }
            | Op::Failed { call, .. } => *call,
        }
    }
}

#[derive(Clone, Copy, Debug, PartialEq, Eq)]
pub enum FaultMode {
    OneShot,
    Persistent,
}

#[derive(Clone, Debug)]
pub enum Chunking {
    /// every transfer moves everything
    Full,
    /// every transfer moves at most c bytes
    Uniform(usize),
    /// operation number `op` (0-based, counted over reads resp. writes of
    /// this device) moves at most `max` bytes, all others everything
    One { op: u64, max: usize },
    /// like One but the operation moves len-1 bytes
    OneAllButLast { op: u64 },
}

pub struct DevInner {
    pub data: Vec<u8>,
    pub pos: u64,
    pub log: Vec<Op>,
    pub logging: bool,
    pub call: u32,
    /// number of operations (read/write/seek/flush) issued so far
    pub nops: u64,
    /// number of transfers (read or write calls) so far, for Chunking::One
    pub ntransfers: u64,
    pub fault_at: Vec<(u64, FaultMode)>,
    pub dead: bool,
    pub faults_fired: u32,
    pub chunking: Chunking,
    pub unflushed: u64,
    /// the kind of the injected errors
    pub fault_kind: io::ErrorKind,
    /// a write hit by a fault is not answered with an error but accepts 0 bytes (`Ok(0)`: a full destination;
    /// std's `write_all` turns that into ErrorKind::WriteZero)
    pub zero_write_on_fault: bool,
    /// the calls during which a fault fired (kept even when logging is off)
    pub fault_calls: Vec<u32>,
    /// a seek hit by a fault still moves the position before it reports the error (a layered destination whose
    /// lower layer has already moved)
    pub seek_moves_on_fault: bool,
    /// where a failing seek leaves the position (std::io::Seek leaves it unspecified); None: see above
    pub seek_lands_on_fault: Option<u64>,
}

#[derive(Clone)]
pub struct Dev(pub Rc<RefCell<DevInner>>);

impl Dev {
    pub fn new() -> Dev {
        Dev::with_data(vec![])
    }
    pub fn with_data(data: Vec<u8>) -> Dev {
        Dev(Rc::new(RefCell::new(DevInner {
            data,
            pos: 0,
            log: vec![],
            logging: true,
            call: 0,
            nops: 0,
            ntransfers: 0,
            fault_at: vec![],
            dead: false,
            faults_fired: 0,
            chunking: Chunking::Full,
            unflushed: 0,
            fault_kind: io::ErrorKind::Other,
            zero_write_on_fault: false,
            fault_calls: vec![],
            seek_moves_on_fault: false,
            seek_lands_on_fault: None,
        })))
    }
    pub fn quiet(data: Vec<u8>) -> Dev {
        let d = Dev::with_data(data);
        d.0.borrow_mut().logging = false;
        d
    }
    pub fn set_call(&self, c: u32) {
        self.0.borrow_mut().call = c;
    }
    pub fn data(&self) -> Vec<u8> {
        self.0.borrow().data.clone()
    }
    pub fn len(&self) -> usize {
        self.0.borrow().data.len()
    }
    pub fn log(&self) -> Vec<Op> {
        self.0.borrow().log.clone()
    }
    pub fn log_len(&self) -> usize {
        self.0.borrow().log.len()
    }
    pub fn nops(&self) -> u64 {
        self.0.borrow().nops
    }
    pub fn unflushed(&self) -> u64 {
        self.0.borrow().unflushed
    }
    pub fn fault_calls(&self) -> Vec<u32> {
        self.0.borrow().fault_calls.clone()
    }
    pub fn faults_fired(&self) -> u32 {
        self.0.borrow().faults_fired
    }
    /// may be called several times: every listed operation fails
    pub fn fail_at(&self, k: u64, mode: FaultMode) {
        self.0.borrow_mut().fault_at.push((k, mode));
    }
    /// operations k, k+1, .., k+n-1 fail once each (a call that is tried again at once fails n times in a row)
    pub fn fail_burst(&self, k: u64, n: u64) {
        for i in 0..n {
            self.fail_at(k + i, FaultMode::OneShot);
        }
    }
    pub fn set_seek_lands_on_fault(&self, at: Option<u64>) {
        self.0.borrow_mut().seek_lands_on_fault = at;
    }
    pub fn set_seek_moves_on_fault(&self, on: bool) {
        self.0.borrow_mut().seek_moves_on_fault = on;
    }
    pub fn set_zero_write_on_fault(&self, on: bool) {
        self.0.borrow_mut().zero_write_on_fault = on;
    }
    pub fn set_fault_kind(&self, kind: io::ErrorKind) {
        self.0.borrow_mut().fault_kind = kind;
    }
    pub fn set_chunking(&self, c: Chunking) {
        self.0.borrow_mut().chunking = c;
    }
    pub fn heal(&self) {
        let mut d = self.0.borrow_mut();
        d.dead = false;
        d.fault_at.clear();
    }
}

impl DevInner {
    /// Returns Err if this operation is to fail.
    fn gate(&mut self, what: &'static str) -> io::Result<()> {
        let k = self.nops;
        self.nops += 1;
        let mut fail = self.dead;
        for (at, mode) in self.fault_at.iter() {
            if *at == k {
                fail = true;
                if *mode == FaultMode::Persistent {
                    self.dead = true;
                }
            }
        }
        if fail {
            self.faults_fired += 1;
            let c = self.call;
            self.fault_calls.push(c);
            if self.logging {
                let call = self.call;
                self.log.push(Op::Failed { call, what });
            }
            Err(io::Error::new(self.fault_kind, INJECTED))
        } else {
            Ok(())
        }
    }
    fn limit(&mut self, len: usize) -> usize {
        let t = self.ntransfers;
        self.ntransfers += 1;
        if len == 0 {
            return 0;
        }
        match self.chunking {
            Chunking::Full => len,
            Chunking::Uniform(c) => len.min(c.max(1)),
            Chunking::One { op, max } => {
                if op == t {
                    len.min(max.max(1))
                } else {
                    len
                }
            }
            Chunking::OneAllButLast { op } => {
                if op == t && len > 1 {
                    len - 1
                } else {
                    len
                }
            }
        }
    }
}

impl Write for Dev {
    fn write(&mut self, buf: &[u8]) -> io::Result<usize> {
        let mut d = self.0.borrow_mut();
        if let Err(e) = d.gate("write") {
            if d.zero_write_on_fault {
                return Ok(0);
            }
            return Err(e);
        }
        let n = d.limit(buf.len());
        let pos = d.pos as usize;
        if d.data.len() < pos + n {
            d.data.resize(pos + n, 0);
        }
        d.data[pos..pos + n].copy_from_slice(&buf[..n]);
        if d.logging {
            let call = d.call;
            d.log.push(Op::Write {
                call,
                pos: pos as u64,
                bytes: buf[..n].to_vec(),
            });
        }
        d.pos += n as u64;
        d.unflushed += n as u64;
        Ok(n)
    }
    fn flush(&mut self) -> io::Result<()> {
        let mut d = self.0.borrow_mut();
        d.gate("flush")?;
        if d.logging {
            let call = d.call;
            d.log.push(Op::Flush { call });
        }
        d.unflushed = 0;
        Ok(())
    }
}

impl Read for Dev {
    fn read(&mut self, buf: &mut [u8]) -> io::Result<usize> {
        let mut d = self.0.borrow_mut();
        d.gate("read")?;
        let pos = d.pos as usize;
        let avail = d.data.len().saturating_sub(pos);
        let want = buf.len().min(avail);
        let n = d.limit(want);
        if n > 0 {
            buf[..n].copy_from_slice(&d.data[pos..pos + n]);
        }
        if d.logging {
            let call = d.call;
            d.log.push(Op::Read {
                call,
                pos: pos as u64,
                asked: buf.len(),
                got: n,
            });
        }
        d.pos += n as u64;
        Ok(n)
    }
}

impl Seek for Dev {
    fn seek(&mut self, from: SeekFrom) -> io::Result<u64> {
        let mut d = self.0.borrow_mut();
        if let Err(e) = d.gate("seek") {
            if let Some(at) = d.seek_lands_on_fault {
                d.pos = at;
            } else if d.seek_moves_on_fault {
                let new = match from {
                    SeekFrom::Start(n) => n as i128,
                    SeekFrom::End(n) => d.data.len() as i128 + n as i128,
                    SeekFrom::Current(n) => d.pos as i128 + n as i128,
                };
                if new >= 0 && new <= u64::MAX as i128 {
                    d.pos = new as u64;
                }
            }
            return Err(e);
        }
        let new = match from {
            SeekFrom::Start(n) => n as i128,
            SeekFrom::End(n) => d.data.len() as i128 + n as i128,
            SeekFrom::Current(n) => d.pos as i128 + n as i128,
        };
        if new < 0 || new > u64::MAX as i128 {
            return Err(io::Error::new(
                io::ErrorKind::InvalidInput,
                "seek to a negative or overflowing position",
            ));
        }
        d.pos = new as u64;
        if d.logging {
            let call = d.call;
            let result = d.pos;
            d.log.push(Op::Seek { call, result });
        }
        Ok(d.pos)
    }
}

/// The sequence of crash images of a write log (DESIGN §2.2): the image after
/// the first k operations plus the first b bytes of operation k+1 when that
/// is a write.  Calls `f(k, b, image)`; b = 0 means "exactly k operations".
/// Seeks and flushes change no byte, so only images that differ by content
/// position are produced once per (k,b).
pub fn crash_images(log: &[Op], mut f: impl FnMut(usize, usize, &[u8])) {
    let mut img: Vec<u8> = vec![];
    f(0, 0, &img);
    for (k, op) in log.iter().enumerate() {
        if let Op::Write { pos, bytes, .. } = op {
            let pos = *pos as usize;
            for b in 1..bytes.len() {
                // partial: first b bytes
                let mut part = img.clone();
                if part.len() < pos + b {
                    part.resize(pos + b, 0);
                }
                part[pos..pos + b].copy_from_slice(&bytes[..b]);
                f(k, b, &part);
            }
            if img.len() < pos + bytes.len() {
                img.resize(pos + bytes.len(), 0);
            }
            img[pos..pos + bytes.len()].copy_from_slice(bytes);
        }
        f(k + 1, 0, &img);
    }
}
