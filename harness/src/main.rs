#![allow(dead_code)]
mod alloc;
mod bridge;
mod dev;
mod e3;
mod engine;
mod frun;
mod hist;
mod iterprog;
mod model;
mod oracle;
mod pexec;
mod props;
mod refmodel;
mod sparse;
mod structs;
mod table;
mod wexec;

use engine::Tier;

#[global_allocator]
static GLOBAL: alloc::Counting = alloc::Counting;
use serde_json::Value;

type CheckFn = fn(Tier) -> i32;
type ReplayFn = fn(&Value) -> Vec<(String, String)>;

fn registry() -> Vec<(&'static str, CheckFn, ReplayFn)> {
    use props::*;
    vec![
        ("C01", |t| c01_c02::check(c01_c02::Which::C01, t), |v| c01_c02::replay(c01_c02::Which::C01, v)),
        ("C02", |t| c01_c02::check(c01_c02::Which::C02, t), |v| c01_c02::replay(c01_c02::Which::C02, v)),
        ("C03", c03::check, c03::replay),
        ("C04", c04::check, c04::replay),
        ("C05", c05::check, c05::replay),
        ("C06", c06::check, c06::replay),
        ("C07", |t| e3::check(e3::Prop::C07, t), |v| e3::replay(e3::Prop::C07, v)),
        ("C08", c08::check, c08::replay),
        ("C09", c09::check, c09::replay),
        ("C10", c10::check, c10::replay),
        ("C11", c11::check, c11::replay),
        ("C12", c12::check, c12::replay),
        ("C13", c13::check, c13::replay),
        ("C14", c14::check, c14::replay),
        ("C15", c15::check, c15::replay),
        ("C16", c16::check, c16::replay),
        ("C17", |t| e3::check(e3::Prop::C17, t), |v| e3::replay(e3::Prop::C17, v)),
        ("C18", c18::check, c18::replay),
        ("C19", c19::check, c19::replay),
    ]
}

fn usage() -> ! {
    eprintln!("usage: vcheck <C01..C19> quick|thorough | vcheck replay <file>");
    std::process::exit(2)
}

fn main() {
    engine::install_panic_hook();
    let args: Vec<String> = std::env::args().collect();
    if args.len() < 3 {
        usage();
    }
    if args[1] == "worker" {
        // vcheck worker C07|C17 quick|thorough <from> <to>
        let prop = if args[2] == "C07" { e3::Prop::C07 } else { e3::Prop::C17 };
        let tier = if args[3] == "quick" { Tier::Quick } else { Tier::Thorough };
        let from: usize = args[4].parse().unwrap();
        let to: usize = args[5].parse().unwrap();
        std::process::exit(e3::worker_main(prop, tier, from, to));
    }
    if args[1] == "replay" {
        std::process::exit(replay(&args[2]));
    }
    let tier = match args[2].as_str() {
        "quick" => Tier::Quick,
        "thorough" => Tier::Thorough,
        _ => usage(),
    };
    for (id, check, _) in registry() {
        if id == args[1] {
            std::process::exit(check(tier));
        }
    }
    usage();
}

fn replay(path: &str) -> i32 {
    let s = match std::fs::read_to_string(path) {
        Ok(s) => s,
        Err(e) => {
            eprintln!("vcheck: {}: {}", path, e);
            return 2;
        }
    };
    let v: Value = match serde_json::from_str(&s) {
        Ok(v) => v,
        Err(e) => {
            eprintln!("vcheck: {}: {}", path, e);
            return 2;
        }
    };
    let prop = v.get("property").and_then(|x| x.as_str()).unwrap_or("").to_string();
    let case = v.get("case").cloned().unwrap_or(Value::Null);
    let mut verdicts = None;
    for (id, _, rp) in registry() {
        if id == prop {
            // run twice: the same case must give the same verdict (DESIGN 2.2)
            let a = rp(&case);
            let b = rp(&case);
            if a != b {
                eprintln!("vcheck: replay is not deterministic: {:?} vs {:?}", a, b);
                return 2;
            }
            verdicts = Some(a);
        }
    }
    let verdicts = match verdicts {
        Some(v) => v,
        None => {
            eprintln!("vcheck: no replay for property {:?}", prop);
            return 2;
        }
    };
    // listed findings are findings, not alarms, in a replay as in a check
    let known = engine::load_known();
    let mut new = 0;
    for (sig, detail) in &verdicts {
        match known.matches(&prop, sig) {
            Some(what) => println!("KNOWN-FINDING: property={} {} [{}]", prop, what, sig),
            None => {
                new += 1;
                println!("VIOLATION property={} replay={}", prop, path);
                println!("  signature: {}", sig);
                println!("  detail: {}", detail);
            }
        }
    }
    if new == 0 {
        println!("replay {}: property {} holds on this case{}", path, prop, if verdicts.is_empty() { "" } else { " (listed findings apart)" });
        0
    } else {
        1
    }
}
