#![allow(dead_code)]
mod bridge;
mod dev;
mod engine;
mod model;
mod props;
mod refmodel;
mod structs;

use engine::Tier;

fn usage() -> ! {
    eprintln!("usage: vcheck <C01..C19> quick|thorough | vcheck replay <file>");
    std::process::exit(2)
}

fn main() {
    engine::install_panic_hook();
    let args: Vec<String> = std::env::args().collect();
    if args.len() < 3 {
        usage();
    }
    if args[1] == "replay" {
        std::process::exit(replay(&args[2]));
    }
    let tier = match args[2].as_str() {
        "quick" => Tier::Quick,
        "thorough" => Tier::Thorough,
        _ => usage(),
    };
    let code = match args[1].as_str() {
        "C01" => props::c01_c02::check(props::c01_c02::Which::C01, tier),
        "C02" => props::c01_c02::check(props::c01_c02::Which::C02, tier),
        _ => usage(),
    };
    std::process::exit(code);
}

fn replay(path: &str) -> i32 {
    let s = match std::fs::read_to_string(path) {
        Ok(s) => s,
        Err(e) => {
            eprintln!("vcheck: {}: {}", path, e);
            return 2;
        }
    };
    let v: serde_json::Value = match serde_json::from_str(&s) {
        Ok(v) => v,
        Err(e) => {
            eprintln!("vcheck: {}: {}", path, e);
            return 2;
        }
    };
    let prop = v.get("property").and_then(|x| x.as_str()).unwrap_or("");
    let case = v.get("case").cloned().unwrap_or(serde_json::Value::Null);
    let verdicts = match prop {
        "C01" => props::c01_c02::replay(props::c01_c02::Which::C01, &case),
        "C02" => props::c01_c02::replay(props::c01_c02::Which::C02, &case),
        _ => {
            eprintln!("vcheck: no replay for property {:?}", prop);
            return 2;
        }
    };
    if verdicts.is_empty() {
        println!("replay {}: property {} holds on this case", path, prop);
        0
    } else {
        for (sig, detail) in &verdicts {
            println!("VIOLATION property={} replay={}", prop, path);
            println!("  signature: {}", sig);
            println!("  detail: {}", detail);
        }
        1
    }
}
