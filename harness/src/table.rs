//! The attribute table used by C08 / C10 / C15: a numeric `idx` and a
//! character `name`; every row carries its own index.

use crate::dev::Dev;
use shapefile::dbase::{FieldName, FieldValue, Record, TableWriter, TableWriterBuilder};
use std::convert::TryFrom;

pub fn builder() -> TableWriterBuilder {
    TableWriterBuilder::new()
        .add_numeric_field(FieldName::try_from("idx").unwrap(), 8, 0)
        .add_character_field(FieldName::try_from("name").unwrap(), 12)
}

pub fn table_writer(dst: Dev) -> TableWriter<Dev> {
    builder().build_with_dest(dst)
}

pub fn good_row(i: usize) -> Record {
    let mut r = Record::default();
    r.insert("idx".into(), FieldValue::Numeric(Some(i as f64)));
    r.insert("name".into(), FieldValue::Character(Some(format!("row{}", i))));
    r
}

/// second field missing: the table writer fails after the first field
pub fn row_missing_field(i: usize) -> Record {
    let mut r = Record::default();
    r.insert("idx".into(), FieldValue::Numeric(Some(i as f64)));
    r
}

/// second field of the wrong type
pub fn row_wrong_type(i: usize) -> Record {
    let mut r = Record::default();
    r.insert("idx".into(), FieldValue::Numeric(Some(i as f64)));
    r.insert("name".into(), FieldValue::Numeric(Some(1.0)));
    r
}

/// first field of the wrong type: the table writer fails on the first field
pub fn row_wrong_first(i: usize) -> Record {
    let mut r = Record::default();
    r.insert("idx".into(), FieldValue::Character(Some(format!("{}", i))));
    r.insert("name".into(), FieldValue::Character(Some(format!("row{}", i))));
    r
}

pub fn row_idx(r: &Record) -> Option<i64> {
    match r.get("idx") {
        Some(FieldValue::Numeric(Some(v))) => Some(*v as i64),
        _ => None,
    }
}

pub fn row_name(r: &Record) -> Option<String> {
    match r.get("name") {
        Some(FieldValue::Character(Some(s))) => Some(s.clone()),
        _ => None,
    }
}

/// number of rows the .dbf header declares (bytes 4..8, little endian),
/// read by the harness itself
pub fn dbf_declared_rows(dbf: &[u8]) -> Option<u32> {
    Some(u32::from_le_bytes(dbf.get(4..8)?.try_into().ok()?))
}

/// (header size, record size) from the .dbf header
pub fn dbf_layout(dbf: &[u8]) -> Option<(usize, usize)> {
    let h = u16::from_le_bytes(dbf.get(8..10)?.try_into().ok()?) as usize;
    let r = u16::from_le_bytes(dbf.get(10..12)?.try_into().ok()?) as usize;
    Some((h, r))
}

/// dbf bytes with the "last update" date masked: the table writer stamps
/// today's date, which is the only clock in the whole system.
pub fn mask_date(dbf: &[u8]) -> Vec<u8> {
    let mut v = dbf.to_vec();
    for i in 1..4 {
        if i < v.len() {
            v[i] = 0;
        }
    }
    v
}
