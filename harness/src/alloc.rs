//! Counting global allocator (DESIGN §2.4, E3).  Per-thread counters: live
//! bytes, peak live bytes and largest single request since the last reset.
//! A single request above the hard cap ends the process with a marker on
//! stderr (an allocation failure cannot be caught; better to die with a
//! message that the supervisor attributes to the case in progress).

use std::alloc::{GlobalAlloc, Layout, System};
use std::cell::Cell;

pub const HARD_CAP: usize = 1 << 30;

pub struct Counting;

thread_local! {
    static LIVE: Cell<isize> = const { Cell::new(0) };
    static PEAK: Cell<isize> = const { Cell::new(0) };
    static LARGEST: Cell<usize> = const { Cell::new(0) };
}

#[inline]
fn on_alloc(size: usize) {
    if size > HARD_CAP {
        let msg = b"vcheck-alloc-cap: single allocation request above 1 GiB\n";
        unsafe {
            libc::write(2, msg.as_ptr() as *const libc::c_void, msg.len());
            // also on stdout, for the worker protocol
            let m2 = b"\nX alloc-cap\n";
            libc::write(1, m2.as_ptr() as *const libc::c_void, m2.len());
            libc::_exit(86);
        }
    }
    let _ = LIVE.try_with(|l| {
        let v = l.get() + size as isize;
        l.set(v);
        let _ = PEAK.try_with(|p| {
            if v > p.get() {
                p.set(v)
            }
        });
    });
    let _ = LARGEST.try_with(|g| {
        if size > g.get() {
            g.set(size)
        }
    });
}

#[inline]
fn on_free(size: usize) {
    let _ = LIVE.try_with(|l| l.set(l.get() - size as isize));
}

unsafe impl GlobalAlloc for Counting {
    unsafe fn alloc(&self, layout: Layout) -> *mut u8 {
        on_alloc(layout.size());
        System.alloc(layout)
    }
    unsafe fn alloc_zeroed(&self, layout: Layout) -> *mut u8 {
        on_alloc(layout.size());
        System.alloc_zeroed(layout)
    }
    unsafe fn dealloc(&self, ptr: *mut u8, layout: Layout) {
        on_free(layout.size());
        System.dealloc(ptr, layout)
    }
    unsafe fn realloc(&self, ptr: *mut u8, layout: Layout, new_size: usize) -> *mut u8 {
        // a realloc may need old + new at once
        on_alloc(new_size);
        let r = System.realloc(ptr, layout, new_size);
        on_free(layout.size());
        r
    }
}

/// Start measuring on this thread: peak and largest are reset relative to
/// the current live level.
pub fn reset() -> isize {
    let base = LIVE.with(|l| l.get());
    PEAK.with(|p| p.set(base));
    LARGEST.with(|g| g.set(0));
    base
}

/// (peak live bytes above `base`, largest single request) since `reset`.
pub fn measure(base: isize) -> (usize, usize) {
    let peak = PEAK.with(|p| p.get());
    ((peak - base).max(0) as usize, LARGEST.with(|g| g.get()))
}
