//! Oracles shared by several properties, built on RefCodec only.

use crate::model::*;
use crate::refmodel::codec::{self, DFile, DecodeOpts};

/// C04's byte-level clause: the .shx has the .shp header except for its
/// length field (50 + 4n words) and entry i = (word offset of record i,
/// content words of record i), for exactly the n records RefCodec finds.
pub fn shx_matches_shp(shp: &[u8], shx: &[u8]) -> Result<DFile, String> {
    let df = codec::decode_file(shp, &DecodeOpts { strict: true }).map_err(|e| format!("shp: {}", e))?;
    let n = df.records.len();
    if shx.len() < 100 {
        return Err(format!("shx: only {} bytes", shx.len()));
    }
    if shx.len() != 100 + 8 * n {
        return Err(format!("shx: {} bytes for {} records (expected {})", shx.len(), n, 100 + 8 * n));
    }
    for i in 0..100 {
        if (24..28).contains(&i) {
            continue;
        }
        if shx[i] != shp[i] {
            return Err(format!("shx: header byte {} is {:#x}, .shp has {:#x}", i, shx[i], shp[i]));
        }
    }
    let (h, entries) = codec::decode_shx(shx)?;
    if h.len_words as usize != 50 + 4 * n {
        return Err(format!("shx: length field {} words, expected {}", h.len_words, 50 + 4 * n));
    }
    for (i, (off, len)) in entries.iter().enumerate() {
        let r = &df.records[i];
        if *off as i64 * 2 != r.offset as i64 {
            return Err(format!("shx: entry {} offset {} words, record starts at byte {}", i, off, r.offset));
        }
        if *len != r.content_words {
            return Err(format!("shx: entry {} length {} words, record has {}", i, len, r.content_words));
        }
    }
    Ok(df)
}

/// Raw (un-normalised) equality between what RefCodec decoded from a record
/// written by the library and the shape handed to the writer.
pub fn decoded_equals_handed(rec: &codec::DRecord, exp: &MRead) -> Option<String> {
    let (e, g) = (&exp.shape, &rec.read.shape);
    let dims = e.ty.dims();
    if e.ty != g.ty || e.parts.len() != g.parts.len() {
        return Some(format!(
            "structure: type/parts {:?}/{} vs {:?}/{}",
            g.ty,
            g.parts.len(),
            e.ty,
            e.parts.len()
        ));
    }
    for (pi, (ep, gp)) in e.parts.iter().zip(&g.parts).enumerate() {
        if ep.pts.len() != gp.pts.len() {
            return Some(format!("structure: part {} has {} points, handed {}", pi, gp.pts.len(), ep.pts.len()));
        }
        if e.ty.family() == Family::Multipatch && ep.kind != gp.kind {
            return Some(format!("patch-kind: part {} kind {} handed {}", pi, gp.kind, ep.kind));
        }
        for (vi, (ev, gv)) in ep.pts.iter().zip(&gp.pts).enumerate() {
            for d in 0..4 {
                if !dims[d] {
                    continue;
                }
                if d == 3 && !rec.has_m_block {
                    if !is_nodata(ev[3]) {
                        return Some(format!(
                            "m-block-absent: part {} vertex {} handed measure {}",
                            pi,
                            vi,
                            fshow(ev[3])
                        ));
                    }
                    continue;
                }
                if ev[d].to_bits() != gv[d].to_bits() {
                    return Some(format!(
                        "coord-{}: part {} vertex {} stored {} handed {}",
                        ["x", "y", "z", "m"][d],
                        pi,
                        vi,
                        fshow(gv[d]),
                        fshow(ev[d])
                    ));
                }
            }
        }
    }
    if let (Some(eb), Some(gb)) = (&exp.bbox, &rec.read.bbox) {
        let m = dims[3] && rec.has_m_block;
        let used = [true, true, true, true, dims[2], dims[2], m, m];
        for k in 0..8 {
            if used[k] && eb[k].to_bits() != gb[k].to_bits() {
                return Some(format!("stored-box: field {} stored {} shape says {}", k, fshow(gb[k]), fshow(eb[k])));
            }
        }
    }
    None
}

/// The .shp image is a complete well-formed file holding exactly `shapes`.
pub fn shp_holds_exactly(shp: &[u8], ty: Ty, shapes: &[MRead]) -> Option<String> {
    shp_holds_exactly_opt(shp, ty, shapes, false)
}

/// `typed_empty_ok`: a file without records may already declare its type (a first write that failed after the
/// header space was reserved)
pub fn shp_holds_exactly_opt(shp: &[u8], ty: Ty, shapes: &[MRead], typed_empty_ok: bool) -> Option<String> {
    let df = match codec::decode_file(shp, &DecodeOpts { strict: true }) {
        Ok(d) => d,
        Err(e) => return Some(format!("validator: {}", e)),
    };
    let want_ty = if shapes.is_empty() { 0 } else { ty.code() };
    if df.header.ty_code != want_ty && !(typed_empty_ok && shapes.is_empty() && df.header.ty_code == ty.code()) {
        return Some(format!("header-type: {} expected {}", df.header.ty_code, want_ty));
    }
    if df.records.len() != shapes.len() {
        return Some(format!("record-count: {} records, expected {}", df.records.len(), shapes.len()));
    }
    for (i, (r, e)) in df.records.iter().zip(shapes).enumerate() {
        if let Some(c) = decoded_equals_handed(r, e) {
            return Some(format!("record {}: {}", i, c));
        }
    }
    None
}

pub fn clause_class(c: &str) -> String {
    let c = c.trim_start_matches(|ch: char| ch.is_ascii_digit() || ch == ' ');
    let head = c.split(|ch: char| ch == ' ' || ch == ':').next().unwrap_or(c);
    head.chars().filter(|c| !c.is_ascii_digit()).collect()
}
