//! Executing histories on the complete `Writer` (.shp + .shx + .dbf) over
//! three instrumented devices.  Shared by C08 and C10.

use crate::bridge::*;
use crate::dev::Dev;
use crate::engine::catch;
use crate::table;
use crate::wexec::{CallRes, Palette};
use shapefile::{ShapeWriter, Writer};

#[derive(Clone, Copy, Debug, PartialEq, Eq, Hash)]
pub enum POp {
    /// palette shape a (0) / b (1) with a valid row
    Good(u8),
    /// shape of another type + valid row
    BadType,
    /// shape a + row whose second field is missing
    RowMissing,
    /// shape a + row whose second field has the wrong type
    RowWrongType,
    /// shape a + row whose first field has the wrong type
    RowWrongFirst,
}

pub const POPS: [POp; 6] = [
    POp::Good(0),
    POp::Good(1),
    POp::BadType,
    POp::RowMissing,
    POp::RowWrongType,
    POp::RowWrongFirst,
];

impl POp {
    pub fn name(self) -> &'static str {
        match self {
            POp::Good(0) => "OkA",
            POp::Good(_) => "OkB",
            POp::BadType => "BadType",
            POp::RowMissing => "RowMissingField",
            POp::RowWrongType => "RowWrongType",
            POp::RowWrongFirst => "RowWrongFirstField",
        }
    }
    pub fn from_name(s: &str) -> Option<POp> {
        POPS.iter().copied().find(|p| p.name() == s)
    }
    pub fn row_rejected(self) -> bool {
        matches!(self, POp::RowMissing | POp::RowWrongType | POp::RowWrongFirst)
    }
}

pub fn pops_name(ops: &[POp]) -> String {
    ops.iter().map(|o| o.name()).collect::<Vec<_>>().join(",")
}
pub fn pops_from_name(s: &str) -> Option<Vec<POp>> {
    if s.is_empty() {
        return Some(vec![]);
    }
    s.split(',').map(POp::from_name).collect()
}

pub struct PEnv {
    pub shp: Dev,
    pub shx: Dev,
    pub dbf: Dev,
}
impl PEnv {
    pub fn new() -> PEnv {
        PEnv {
            shp: Dev::new(),
            shx: Dev::new(),
            dbf: Dev::new(),
        }
    }
    pub fn set_call(&self, c: u32) {
        self.shp.set_call(c);
        self.shx.set_call(c);
        self.dbf.set_call(c);
    }
}

/// Runs the history, then drops the writer (call id = ops.len()).
/// The row of operation i carries idx = i.
pub fn exec_complete(pal: &Palette, ops: &[POp], env: &PEnv) -> Vec<CallRes> {
    exec_complete_on(pal, ops, env, false)
}

/// `pre_typed`: the complete writer is built over a shape writer that has already received shape a (call id
/// 1000), so the file has its type before the first call through the complete writer
pub fn exec_complete_on(pal: &Palette, ops: &[POp], env: &PEnv, pre_typed: bool) -> Vec<CallRes> {
    let mut sw = ShapeWriter::with_shx(env.shp.clone(), env.shx.clone());
    if pre_typed {
        env.set_call(1000);
        write_shape(&mut sw, &pal.lib[0]).expect("pre-write on a healthy destination");
    }
    let mut w = Writer::new(sw, table::table_writer(env.dbf.clone()));
    let mut results = vec![];
    for (i, op) in ops.iter().enumerate() {
        env.set_call(i as u32);
        let wr = &mut w;
        let r = catch(|| match op {
            POp::Good(k) => write_pair(wr, &pal.lib[*k as usize], &table::good_row(i)),
            POp::BadType => write_pair(wr, pal.other.as_ref().expect("no other-type shape"), &table::good_row(i)),
            POp::RowMissing => write_pair(wr, &pal.lib[0], &table::row_missing_field(i)),
            POp::RowWrongType => write_pair(wr, &pal.lib[0], &table::row_wrong_type(i)),
            POp::RowWrongFirst => write_pair(wr, &pal.lib[0], &table::row_wrong_first(i)),
        });
        results.push(match r {
            Ok(Ok(())) => CallRes::Ok,
            Ok(Err(e)) => CallRes::Err(err_kind(&e)),
            Err(p) => CallRes::Panic(p.sig()),
        });
    }
    env.set_call(ops.len() as u32);
    if let Err(p) = catch(move || drop(w)) {
        results.push(CallRes::Panic(format!("drop:{}", p.sig())));
    }
    results
}
