//! Faulted writer runs: a writer history executed on devices of which one or
//! two operations fail once (the deviation bound: 0 faults is the ordinary
//! run, then every single fault, then every unordered pair).  Shared by the
//! properties that speak about the files a writer leaves behind (C02, C04,
//! C10, C11): what they state must also hold when the destination failed
//! once or twice and works again.

use crate::dev::{FaultMode, Op};
use crate::engine::*;
use crate::model::*;
use crate::wexec::*;
use serde_json::{json, Value};

#[derive(Clone, Debug)]
pub struct FCase {
    pub ty: Ty,
    /// type of the shape a rejected write (WOp::R) offers
    pub other: Option<Ty>,
    pub with_shx: bool,
    pub ops: Vec<WOp>,
    /// (device 0 = .shp / 1 = .shx, operation index counted on the run itself)
    pub faults: Vec<(u8, u64)>,
    /// the writer is not dropped at the end of a scope but by stack unwinding (the caller panics with it alive)
    pub panic_drop: bool,
    /// a write hit by a fault accepts 0 bytes instead of returning an error
    pub zero_writes: bool,
    /// index into dev::ALL_KINDS of the error kind the faults answer with (0 = Other)
    pub kind: u8,
    /// a seek hit by a fault moves the position before it reports the error
    pub seek_moves: bool,
    /// the history ends with the consuming write_shapes(self, [shape c]) instead of a plain drop
    pub consume: bool,
}

impl FCase {
    pub fn to_json(&self) -> Value {
        json!({"fault_run": {"ty": self.ty.name(), "other": self.other.map(|t| t.name()), "with_shx": self.with_shx, "ops": ops_name(&self.ops), "panic_drop": self.panic_drop, "zero_writes": self.zero_writes, "kind": format!("{:?}", crate::dev::ALL_KINDS[self.kind as usize]), "seek_moves": self.seek_moves, "consume": self.consume,
            "faults": self.faults.iter().map(|(d, k)| json!([(["shp", "shx"][*d as usize]), k])).collect::<Vec<_>>()}})
    }
    pub fn from_json(v: &Value) -> Option<FCase> {
        let f = v.get("fault_run")?;
        Some(FCase {
            ty: Ty::from_name(f.get("ty")?.as_str()?)?,
            other: f.get("other").and_then(|x| x.as_str()).and_then(Ty::from_name),
            with_shx: f.get("with_shx")?.as_bool()?,
            ops: ops_from_name(f.get("ops")?.as_str()?)?,
            panic_drop: f.get("panic_drop").and_then(|x| x.as_bool()).unwrap_or(false),
            zero_writes: f.get("zero_writes").and_then(|x| x.as_bool()).unwrap_or(false),
            kind: f.get("kind").and_then(|x| x.as_str()).and_then(|n| crate::dev::ALL_KINDS.iter().position(|k| format!("{:?}", k) == n)).unwrap_or(0) as u8,
            seek_moves: f.get("seek_moves").and_then(|x| x.as_bool()).unwrap_or(false),
            consume: f.get("consume").and_then(|x| x.as_bool()).unwrap_or(false),
            faults: f.get("faults")?.as_array()?.iter().map(|x| Some((if x.get(0)?.as_str()? == "shp" { 0u8 } else { 1u8 }, x.get(1)?.as_u64()?))).collect::<Option<Vec<_>>>()?,
        })
    }
    pub fn hash(&self) -> u64 {
        let mut h = Fnv::new();
        h.str(&self.to_json().to_string());
        h.finish()
    }
    pub fn palette(&self) -> Palette {
        Palette::new(self.ty, self.other)
    }
}

pub struct FRun {
    pub results: Vec<CallRes>,
    /// calls during which a fault fired
    pub fired: Vec<u32>,
    pub shp: Vec<u8>,
    pub shx: Vec<u8>,
    pub shp_log: Vec<Op>,
    pub shx_log: Vec<Op>,
    /// palette indices of the shapes whose write returned Ok, in order
    pub accepted: Vec<u8>,
    /// per successful finalize: (.shp log entries when it returned, shapes accepted before it); the final drop included when no fault fired in it
    pub finalized: Vec<(usize, usize)>,
    /// .shx log entries at the same moments
    pub finalized_shx: Vec<usize>,
    /// the history ended with the consuming write_shapes
    pub consumed: bool,
}

impl FRun {
    /// no fault fired during the final drop (which cannot report one and would leave the files incomplete)
    pub fn drop_undisturbed(&self, n_ops: usize) -> bool {
        // (the consuming write_shapes that may end a history is call n_ops; the writer is dropped inside it: a fault
        // during that call was in its writes if the call returned an error, in the unreportable drop otherwise)
        let ending_reported = self.consumed && matches!(self.results.get(n_ops), Some(CallRes::Err(_)));
        self.fired.iter().all(|c| (*c as usize) < n_ops || ((*c as usize) == n_ops && ending_reported))
    }
    pub fn all_fired(&self, case: &FCase) -> bool {
        let fired = self.shp_log.iter().chain(self.shx_log.iter()).filter(|o| matches!(o, Op::Failed { .. })).count();
        fired == case.faults.len()
    }
}

pub fn run(pal: &Palette, case: &FCase) -> FRun {
    let env = WEnv::new(case.with_shx);
    for d in std::iter::once(&env.shp).chain(env.shx.iter()) {
        d.set_zero_write_on_fault(case.zero_writes);
        d.set_fault_kind(crate::dev::ALL_KINDS[case.kind as usize]);
        d.set_seek_moves_on_fault(case.seek_moves);
    }
    for (d, k) in &case.faults {
        if *d == 0 {
            env.shp.fail_at(*k, FaultMode::OneShot);
        } else if let Some(x) = &env.shx {
            x.fail_at(*k, FaultMode::OneShot);
        }
    }
    let mut accepted = vec![];
    let mut finalized = vec![];
    let mut finalized_shx = vec![];
    let envr = &env;
    let ending = if case.consume { Ending::WriteShapes(1) } else if case.panic_drop { Ending::DropWhilePanicking } else { Ending::Drop };
    let results = exec_writer(pal, &case.ops, ending, &env, |_, op, r| match (op, r) {
        (WOp::W(k), CallRes::Ok) => accepted.push(k),
        (WOp::F, CallRes::Ok) => {
            finalized.push((envr.shp.log_len(), accepted.len()));
            finalized_shx.push(envr.shx.as_ref().map(|x| x.log_len()).unwrap_or(0));
        }
        _ => {}
    });
    let shp_log = env.shp.log();
    let shx_log = env.shx.as_ref().map(|x| x.log()).unwrap_or_default();
    let mut fired: Vec<u32> = shp_log.iter().chain(shx_log.iter()).filter_map(|o| if let Op::Failed { call, .. } = o { Some(*call) } else { None }).collect();
    fired.sort_unstable();
    let n = case.ops.len();
    if case.consume && results.get(n) == Some(&CallRes::Ok) {
        accepted.push(2);
    }
    let ending_reported = case.consume && matches!(results.get(n), Some(CallRes::Err(_)));
    if fired.iter().all(|c| (*c as usize) < n || ((*c as usize) == n && ending_reported)) {
        finalized.push((shp_log.len(), accepted.len()));
        finalized_shx.push(shx_log.len());
    }
    FRun { consumed: case.consume, finalized_shx, results, fired, shp: env.shp.data(), shx: env.shx.as_ref().map(|x| x.data()).unwrap_or_default(), shp_log, shx_log, accepted, finalized }
}

/// The part of a destination its header declares (a `Write + Seek` destination cannot be truncated: what a
/// failed write left behind the end stays there).
pub fn declared(b: &[u8]) -> &[u8] {
    let l = b.get(24..28).map(|x| i32::from_be_bytes(x.try_into().unwrap()) as i64 * 2).filter(|l| *l >= 100 && *l as usize <= b.len()).map(|l| l as usize).unwrap_or(b.len());
    &b[..l]
}

/// Every single fault and (if `pairs`) every unordered pair of faults for a history; operation indices run a
/// little beyond the fault-free log, because a failed call changes what follows.  Runs in which not every
/// planned fault fired are single-fault (or fault-free) runs and are not reported.
pub fn for_each(ty: Ty, other: Option<Ty>, with_shx: bool, ops: &[WOp], pairs: bool, mut f: impl FnMut(&Palette, &FCase, &FRun)) {
    let mut case = FCase { ty, other, with_shx, ops: ops.to_vec(), faults: vec![], panic_drop: false, zero_writes: false, kind: 0, seek_moves: false, consume: false };
    let pal = case.palette();
    let base = run(&pal, &case);
    // no fault, but the writer is dropped while the caller's panic unwinds
    case.panic_drop = true;
    let unwound = run(&pal, &case);
    f(&pal, &case, &unwound);
    case.panic_drop = false;
    // the history ended by the consuming write_shapes, under every single fault (its own operations included)
    if ops.len() <= 2 {
        case.consume = true;
        let b2 = run(&pal, &case);
        f(&pal, &case, &b2);
        for (d, l) in [(0u8, b2.shp_log.len() as u64 + 4), (1u8, if with_shx { b2.shx_log.len() as u64 + 4 } else { 0 })] {
            for k in 0..l {
                case.faults = vec![(d, k)];
                let r = run(&pal, &case);
                if r.all_fired(&case) {
                    f(&pal, &case, &r);
                }
            }
        }
        case.faults = vec![];
        case.consume = false;
    }
    let l0 = base.shp_log.len() as u64 + 6;
    let l1 = if with_shx { base.shx_log.len() as u64 + 6 } else { 0 };
    let mut plans: Vec<Vec<(u8, u64)>> = vec![];
    for k in 0..l0 {
        plans.push(vec![(0, k)]);
    }
    for k in 0..l1 {
        plans.push(vec![(1, k)]);
    }
    if pairs {
        for k1 in 0..l0 {
            for k2 in k1 + 1..l0 {
                plans.push(vec![(0, k1), (0, k2)]);
            }
            for k2 in 0..l1 {
                plans.push(vec![(0, k1), (1, k2)]);
            }
        }
        for k1 in 0..l1 {
            for k2 in k1 + 1..l1 {
                plans.push(vec![(1, k1), (1, k2)]);
            }
        }
    }
    for p in plans {
        let single = p.len() == 1;
        case.faults = p;
        let r = run(&pal, &case);
        if r.all_fired(&case) {
            f(&pal, &case, &r);
        }
        // single faults again with the destination accepting 0 bytes instead of failing (where the operation
        // is not a write this is the same run and is not repeated)
        if single {
            case.zero_writes = true;
            let r0 = run(&pal, &case);
            case.zero_writes = false;
            if r0.all_fired(&case) && (r0.shp != r.shp || r0.shx != r.shx || r0.results != r.results) {
                case.zero_writes = true;
                f(&pal, &case, &r0);
                case.zero_writes = false;
            }
            // ... with a seek that moves before it fails (the same run where the operation is no seek)
            case.seek_moves = true;
            let r1 = run(&pal, &case);
            case.seek_moves = false;
            if r1.all_fired(&case) && (r1.shp != r.shp || r1.shx != r.shx || r1.results != r.results) {
                case.seek_moves = true;
                f(&pal, &case, &r1);
                case.seek_moves = false;
            }
            // ... and, on short histories, with every other error kind
            if ops.len() <= 2 {
                for k in 1..crate::dev::ALL_KINDS.len() as u8 {
                    case.kind = k;
                    let rk = run(&pal, &case);
                    if rk.all_fired(&case) {
                        f(&pal, &case, &rk);
                    }
                }
                case.kind = 0;
            }
        }
    }
}

/// every history over the given operations, lengths 1..=maxlen
pub fn histories(alphabet: &[WOp], maxlen: usize) -> Vec<Vec<WOp>> {
    let mut all = vec![];
    let mut cur: Vec<Vec<WOp>> = vec![vec![]];
    for _ in 0..maxlen {
        let mut next = vec![];
        for c in &cur {
            for op in alphabet {
                let mut x = c.clone();
                x.push(*op);
                next.push(x);
            }
        }
        all.extend(next.iter().cloned());
        cur = next;
    }
    all
}

/// Runs `judge` over every faulted run of every (type, with/without index, history) unit on all cores.
pub fn sweep(
    types: &[Ty],
    other: impl Fn(Ty) -> Option<Ty> + Sync,
    shx_modes: &[bool],
    hists: &[Vec<WOp>],
    pairs: bool,
    deadline: Option<std::time::Instant>,
    judge: impl Fn(&Palette, &FCase, &FRun, &mut Ctx) + Sync,
) -> (Agg, bool) {
    let mut units = vec![];
    for ty in types {
        for s in shx_modes {
            for h in hists {
                units.push((*ty, *s, h.clone()));
            }
        }
    }
    par_blocks(units.len(), deadline, |b, ctx, tick| {
        let (ty, s, h) = &units[b];
        for_each(*ty, other(*ty), *s, h, pairs, |pal, case, run| {
            ctx.lib_calls += case.ops.len() as u64 + 2;
            judge(pal, case, run, ctx);
            tick();
        });
    })
}
