//! Every recorded violation (a file under <verif>/replays/) is a plain unit
//! test: it is re-executed on the current tree *without* the explorer and
//! must not violate its property any more.  With no replay files (the state
//! of an unchanged, conforming tree) the test passes trivially.
//!
//! Run with: cd /verif/harness && cargo test --release --offline --test replays
use std::process::Command;

#[test]
fn recorded_violations_do_not_reproduce() {
    let dir = std::env::var("VERIF_DIR").unwrap_or_else(|_| "/verif".into());
    let rd = match std::fs::read_dir(format!("{}/replays", dir)) {
        Ok(r) => r,
        Err(_) => return,
    };
    let mut failed = vec![];
    for e in rd.flatten() {
        let p = e.path();
        if p.extension().and_then(|x| x.to_str()) != Some("json") {
            continue;
        }
        if p.file_name().and_then(|x| x.to_str()).map(|n| n.starts_with("C20-")).unwrap_or(false) {
            continue; // replayed by the geo harness
        }
        let out = Command::new(env!("CARGO_BIN_EXE_vcheck")).arg("replay").arg(&p).output().expect("run vcheck");
        if !out.status.success() {
            failed.push(format!("{}: {}", p.display(), String::from_utf8_lossy(&out.stdout)));
        }
    }
    assert!(failed.is_empty(), "violations reproduce:\n{}", failed.join("\n"));
}
