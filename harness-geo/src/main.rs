#![allow(dead_code)]
// The geo harness shares the model, the engine and the bridge with the main
// harness; it is a crate of its own so that the default-feature library is
// what C01-C19 exercise (feature unification would otherwise compile the geo
// glue into every check).
#[path = "../../harness/src/model.rs"]
mod model;
#[path = "../../harness/src/engine.rs"]
mod engine;
#[path = "../../harness/src/bridge.rs"]
mod bridge;
#[path = "../../harness/src/structs.rs"]
mod structs;
#[path = "../../harness/src/refmodel/mod.rs"]
mod refmodel;
mod c20;

use engine::Tier;

fn main() {
    engine::install_panic_hook();
    let args: Vec<String> = std::env::args().collect();
    if args.len() < 3 {
        eprintln!("usage: vcheck-geo C20 quick|thorough | vcheck-geo replay <file>");
        std::process::exit(2);
    }
    if args[1] == "replay" {
        let s = std::fs::read_to_string(&args[2]).unwrap_or_default();
        let v: serde_json::Value = serde_json::from_str(&s).unwrap_or(serde_json::Value::Null);
        let case = v.get("case").cloned().unwrap_or(serde_json::Value::Null);
        let a = c20::replay(&case);
        let b = c20::replay(&case);
        if a != b {
            eprintln!("vcheck-geo: replay is not deterministic");
            std::process::exit(2);
        }
        if a.is_empty() {
            println!("replay {}: property C20 holds on this case", args[2]);
            std::process::exit(0);
        }
        for (sig, d) in &a {
            println!("VIOLATION property=C20 replay={}", args[2]);
            println!("  signature: {}", sig);
            println!("  detail: {}", d);
        }
        std::process::exit(1);
    }
    let tier = if args[2] == "thorough" { Tier::Thorough } else { Tier::Quick };
    std::process::exit(c20::check(tier));
}
