//! C20: geo-types conversions preserve coordinates, order and ring nesting;
//! geo-traits points report readable dimensions.  Engine E2, oracle RefGeo.

use crate::bridge::*;
use crate::engine::*;
use crate::model::*;
use geo_traits::{CoordTrait, LineStringTrait, MultiLineStringTrait, MultiPointTrait, PointTrait};
use geo_types as gt;
use serde_json::{json, Value};
use shapefile::{Point, PointM, PointZ, Shape};
use std::convert::TryFrom;
use std::time::Instant;

type XY = (u64, u64);

/// RefGeo: the image of a shape, as groups of coordinate lists (bit patterns).
#[derive(Clone, Debug, PartialEq)]
pub enum GeoImg {
    Point(XY),
    MultiPoint(Vec<XY>),
    Lines(Vec<Vec<XY>>),
    /// polygons: (exterior, holes)
    Polygons(Vec<(Vec<XY>, Vec<Vec<XY>>)>),
    Refused,
}

fn xy(p: &P4) -> XY {
    (p[0].to_bits(), p[1].to_bits())
}

/// Expected image of a constructed shape (written from the statement).
pub fn expect_image(built: &MShape) -> GeoImg {
    match built.ty.family() {
        Family::Null => GeoImg::Refused,
        Family::Point => GeoImg::Point(xy(&built.parts[0].pts[0])),
        Family::Multipoint => GeoImg::MultiPoint(built.parts[0].pts.iter().map(xy).collect()),
        Family::Polyline => GeoImg::Lines(built.parts.iter().map(|p| p.pts.iter().map(xy).collect()).collect()),
        Family::Polygon | Family::Multipatch => {
            let mut polys: Vec<(Vec<XY>, Vec<Vec<XY>>)> = vec![];
            for p in &built.parts {
                let opens = if built.ty == Ty::Multipatch {
                    match p.kind {
                        0 | 1 => return GeoImg::Refused,
                        2 | 4 => true,
                        _ => false,
                    }
                } else {
                    p.kind == 0
                };
                let ring: Vec<XY> = p.pts.iter().map(xy).collect();
                if opens {
                    polys.push((ring, vec![]));
                } else if let Some(last) = polys.last_mut() {
                    last.1.push(ring);
                } else {
                    // hole before any outer: outside the statement's outer-first domain
                    polys.push((vec![], vec![ring]));
                }
            }
            GeoImg::Polygons(polys)
        }
    }
}

fn ls(l: &gt::LineString<f64>) -> Vec<XY> {
    l.0.iter().map(|c| (c.x.to_bits(), c.y.to_bits())).collect()
}

pub fn image_of_geometry(g: &gt::Geometry<f64>) -> GeoImg {
    match g {
        gt::Geometry::Point(p) => GeoImg::Point((p.x().to_bits(), p.y().to_bits())),
        gt::Geometry::MultiPoint(mp) => GeoImg::MultiPoint(mp.0.iter().map(|p| (p.x().to_bits(), p.y().to_bits())).collect()),
        gt::Geometry::MultiLineString(m) => GeoImg::Lines(m.0.iter().map(ls).collect()),
        gt::Geometry::MultiPolygon(m) => GeoImg::Polygons(m.0.iter().map(|p| (ls(p.exterior()), p.interiors().iter().map(ls).collect())).collect()),
        gt::Geometry::LineString(l) => GeoImg::Lines(vec![ls(l)]),
        gt::Geometry::Line(l) => GeoImg::Lines(vec![vec![(l.start.x.to_bits(), l.start.y.to_bits()), (l.end.x.to_bits(), l.end.y.to_bits())]]),
        gt::Geometry::Polygon(p) => GeoImg::Polygons(vec![(ls(p.exterior()), p.interiors().iter().map(ls).collect())]),
        _ => GeoImg::Refused,
    }
}

fn ring_eq_up_to_reversal(a: &[XY], b: &[XY]) -> bool {
    a == b || a.iter().rev().copied().collect::<Vec<_>>() == b
}

fn img_eq_up_to_orientation(a: &GeoImg, b: &GeoImg) -> bool {
    match (a, b) {
        (GeoImg::Polygons(x), GeoImg::Polygons(y)) => {
            x.len() == y.len()
                && x.iter().zip(y).all(|(p, q)| ring_eq_up_to_reversal(&p.0, &q.0) && p.1.len() == q.1.len() && p.1.iter().zip(&q.1).all(|(h, k)| ring_eq_up_to_reversal(h, k)))
        }
        _ => a == b,
    }
}

#[derive(Clone, Debug)]
pub enum Case {
    /// a shapefile shape (model, handed to the public constructors)
    Shape(MShape),
    /// a geo-types geometry, described by kind + coordinate groups
    Geo { kind: String, groups: Vec<Vec<Vec<(f64, f64)>>> },
    /// geo-traits on one point value
    Traits(MShape),
    /// geo-traits views of a multipoint / polyline: every point reached through them
    TraitsMulti(MShape),
    /// a shape READ from a record encoded by the reference encoder exactly as given (no constructor has closed or
    /// oriented anything): parts of one vertex, rings whose last vertex differs from the first in Z / M only
    Read(MShape),
}

impl Case {
    pub fn to_json(&self) -> Value {
        match self {
            Case::Shape(s) => json!({"kind": "shape", "shape": s.to_json()}),
            Case::Traits(s) => json!({"kind": "traits", "shape": s.to_json()}),
            Case::TraitsMulti(s) => json!({"kind": "traits-multi", "shape": s.to_json()}),
            Case::Read(s) => json!({"kind": "read", "shape": s.to_json()}),
            Case::Geo { kind, groups } => json!({"kind": "geo", "geometry": kind,
                "groups": groups.iter().map(|g| g.iter().map(|r| r.iter().map(|(x, y)| json!([fjson(*x), fjson(*y)])).collect::<Vec<_>>()).collect::<Vec<_>>()).collect::<Vec<_>>()}),
        }
    }
    pub fn from_json(v: &Value) -> Option<Case> {
        match v.get("kind")?.as_str()? {
            "shape" => Some(Case::Shape(MShape::from_json(v.get("shape")?)?)),
            "traits" => Some(Case::Traits(MShape::from_json(v.get("shape")?)?)),
            "traits-multi" => Some(Case::TraitsMulti(MShape::from_json(v.get("shape")?)?)),
            "read" => Some(Case::Read(MShape::from_json(v.get("shape")?)?)),
            "geo" => {
                let mut groups = vec![];
                for g in v.get("groups")?.as_array()? {
                    let mut gg = vec![];
                    for r in g.as_array()? {
                        let mut rr = vec![];
                        for c in r.as_array()? {
                            let a = c.as_array()?;
                            rr.push((fparse(a.first()?)?, fparse(a.get(1)?)?));
                        }
                        gg.push(rr);
                    }
                    groups.push(gg);
                }
                Some(Case::Geo { kind: v.get("geometry")?.as_str()?.to_string(), groups })
            }
            _ => None,
        }
    }
    fn hash(&self) -> u64 {
        let mut h = Fnv::new();
        h.str(&self.to_json().to_string());
        h.finish()
    }
}

fn coords(r: &[(f64, f64)]) -> Vec<gt::Coord<f64>> {
    r.iter().map(|(x, y)| gt::Coord { x: *x, y: *y }).collect()
}

pub fn make_geometry(kind: &str, groups: &[Vec<Vec<(f64, f64)>>]) -> gt::Geometry<f64> {
    let poly = |g: &Vec<Vec<(f64, f64)>>| gt::Polygon::new(gt::LineString::from(coords(&g[0])), g[1..].iter().map(|r| gt::LineString::from(coords(r))).collect());
    match kind {
        "Point" => gt::Geometry::Point(gt::Point::new(groups[0][0][0].0, groups[0][0][0].1)),
        "Line" => gt::Geometry::Line(gt::Line::new(coords(&groups[0][0])[0], coords(&groups[0][0])[1])),
        "LineString" => gt::Geometry::LineString(gt::LineString::from(coords(&groups[0][0]))),
        "MultiLineString" => gt::Geometry::MultiLineString(gt::MultiLineString(groups[0].iter().map(|r| gt::LineString::from(coords(r))).collect())),
        "MultiPoint" => gt::Geometry::MultiPoint(gt::MultiPoint(groups[0][0].iter().map(|(x, y)| gt::Point::new(*x, *y)).collect())),
        "Polygon" => gt::Geometry::Polygon(poly(&groups[0])),
        "MultiPolygon" => gt::Geometry::MultiPolygon(gt::MultiPolygon(groups.iter().map(poly).collect())),
        "Rect" => gt::Geometry::Rect(gt::Rect::new(coords(&groups[0][0])[0], coords(&groups[0][0])[1])),
        "Triangle" => {
            let c = coords(&groups[0][0]);
            gt::Geometry::Triangle(gt::Triangle::new(c[0], c[1], c[2]))
        }
        _ => gt::Geometry::GeometryCollection(gt::GeometryCollection(vec![gt::Geometry::Point(gt::Point::new(1.0, 2.0))])),
    }
}

/// the shape as the library's reader returns it from a one-record file holding `stored` as given
fn read_back(stored: &MShape) -> Result<Shape, String> {
    use crate::refmodel::codec::{self, MBody, MFile, MRecord};
    let bbox = codec::true_bbox(stored);
    let f = MFile { ty: stored.ty, header_box: [0.0; 8], records: vec![MRecord { number: 1, body: MBody::Shape { shape: stored.clone(), bbox, with_m: true } }], trailing: vec![] };
    let bytes = codec::encode(&f).bytes;
    let mut r = shapefile::ShapeReader::new(std::io::Cursor::new(bytes)).map_err(|e| e.to_string())?;
    let x = r.iter_shapes().next().ok_or_else(|| "no record".to_string())?;
    x.map_err(|e| e.to_string())
}

pub fn run(case: &Case) -> Vec<(String, String)> {
    let mut out = vec![];
    match case {
        Case::Read(stored) => {
            let tn = stored.ty.name();
            let lib = match read_back(stored) {
                Ok(l) => l,
                Err(e) => return vec![(format!("read:{}:reader-refused", tn), e)],
            };
            let as_read = from_lib(&lib).shape;
            let want = expect_image(&as_read);
            let outer_first = match &want {
                GeoImg::Polygons(p) => p.iter().all(|(ext, _)| !ext.is_empty()) || p.is_empty(),
                _ => true,
            };
            match (gt::Geometry::<f64>::try_from(clone_shape(&lib)), &want) {
                (Err(_), GeoImg::Refused) => {}
                (Ok(g), GeoImg::Refused) => out.push((format!("read:{}:not-refused", tn), format!("converted to {:?}", image_of_geometry(&g)))),
                (Err(e), _) => out.push((format!("read:{}:refused", tn), format!("conversion refused: {}", e))),
                (Ok(g), w) => {
                    let got = image_of_geometry(&g);
                    if outer_first && got != *w {
                        out.push((format!("read:{}:shape-to-geo", tn), format!("image {:?}, the shape as read has {:?}", got, w)));
                    }
                }
            }
        }
        Case::Shape(m) => {
            let lib = to_lib(m);
            let built = from_lib(&lib);
            let tn = m.ty.name();
            let want = expect_image(&built.shape);
            let outer_first = match &want {
                GeoImg::Polygons(p) => p.iter().all(|(ext, _)| !ext.is_empty()) || p.is_empty(),
                _ => true,
            };
            // shape -> geo
            let g = gt::Geometry::<f64>::try_from(clone_shape(&lib));
            match (&g, &want) {
                (Err(_), GeoImg::Refused) => {}
                (Ok(g), GeoImg::Refused) => out.push((format!("{}:not-refused", tn), format!("converted to {:?}", image_of_geometry(g)))),
                (Err(e), _) => out.push((format!("{}:refused", tn), format!("conversion refused: {}", e))),
                (Ok(g), w) => {
                    if outer_first {
                        let got = image_of_geometry(g);
                        // geo-types closes polygon rings on construction; the constructed shapefile rings are closed already
                        if got != *w {
                            out.push((format!("{}:shape-to-geo", tn), format!("image {:?}, expected {:?}", got, w)));
                        }
                    }
                    // back to a shape: the original 2-D shape
                    if outer_first && !m.ty.has_z() && !m.ty.carries_m() {
                        match Shape::try_from(g.clone()) {
                            Err(e) => out.push((format!("{}:geo-to-shape-refused", tn), e.to_string())),
                            Ok(back) => {
                                let b = from_lib(&back);
                                let same_ty = b.shape.ty == m.ty;
                                let img_b = expect_image(&b.shape);
                                // zero-area rings may legitimately come back reversed (C16 allows either order)
                                let exact = crate::bridge::from_lib(&back).shape.parts.len() == built.shape.parts.len()
                                    && b.shape.parts.iter().zip(&built.shape.parts).all(|(x, y)| {
                                        let xs: Vec<XY> = x.pts.iter().map(xy).collect();
                                        let ys: Vec<XY> = y.pts.iter().map(xy).collect();
                                        x.kind == y.kind && (xs == ys || (exact_shoelace(&y.pts) == Some(0) && ring_eq_up_to_reversal(&xs, &ys)))
                                    });
                                if !same_ty || !exact {
                                    out.push((format!("{}:round-trip-to-shape", tn), format!("came back as {:?} image {:?}, original image {:?}", b.shape.ty, img_b, w)));
                                }
                            }
                        }
                    }
                }
            }
            // the typed conversions agree with the generic one for the simple families
            match &lib {
                Shape::Point(p) => {
                    let gp: gt::Point<f64> = (*p).into();
                    let c: gt::Coord<f64> = (*p).into();
                    if (gp.x().to_bits(), gp.y().to_bits()) != xy(&m.parts[0].pts[0]) || (c.x.to_bits(), c.y.to_bits()) != xy(&m.parts[0].pts[0]) {
                        out.push(("Point:typed-conversion".into(), "Point -> geo Point/Coord changed a coordinate".into()));
                    }
                    let back: Point = gp.into();
                    if (back.x.to_bits(), back.y.to_bits()) != xy(&m.parts[0].pts[0]) {
                        out.push(("Point:typed-round-trip".into(), "geo Point -> Point changed a coordinate".into()));
                    }
                }
                Shape::PointM(p) => {
                    let gp: gt::Point<f64> = (*p).into();
                    if (gp.x().to_bits(), gp.y().to_bits()) != xy(&m.parts[0].pts[0]) {
                        out.push(("PointM:typed-conversion".into(), "PointM -> geo Point changed a coordinate".into()));
                    }
                }
                Shape::PointZ(p) => {
                    let gp: gt::Point<f64> = (*p).into();
                    if (gp.x().to_bits(), gp.y().to_bits()) != xy(&m.parts[0].pts[0]) {
                        out.push(("PointZ:typed-conversion".into(), "PointZ -> geo Point changed a coordinate".into()));
                    }
                }
                _ => {}
            }
        }
        Case::Geo { kind, groups } => {
            let g = make_geometry(kind, groups);
            let refused_kind = matches!(kind.as_str(), "Rect" | "Triangle" | "GeometryCollection");
            match Shape::try_from(g.clone()) {
                Err(e) => {
                    if !refused_kind {
                        out.push((format!("geo:{}:refused", kind), e.to_string()));
                    }
                }
                Ok(s) => {
                    if refused_kind {
                        out.push((format!("geo:{}:not-refused", kind), format!("became a {}", variant_ty(&s).name())));
                    } else {
                        // and back: same coordinates and grouping as the corresponding multi-geometry, up to ring orientation
                        let want = image_of_geometry(&g);
                        match gt::Geometry::<f64>::try_from(s) {
                            Err(e) => out.push((format!("geo:{}:back-refused", kind), e.to_string())),
                            Ok(g2) => {
                                let got = image_of_geometry(&g2);
                                if !img_eq_up_to_orientation(&got, &want) {
                                    out.push((format!("geo:{}:round-trip", kind), format!("came back as {:?}, expected {:?}", got, want)));
                                }
                            }
                        }
                    }
                }
            }
        }
        Case::TraitsMulti(m) => {
            // every point reached through the multi-geometry views reports a
            // dimension count all of whose coordinates can be read back
            let lib = to_lib(m);
            let mut pts: Vec<(P4, usize, Vec<Result<f64, String>>)> = vec![];
            fn probe<C: CoordTrait<T = f64>>(c: &C) -> (usize, Vec<Result<f64, String>>) {
                let d = c.dim().size();
                (d, (0..d).map(|i| catch(|| c.nth_or_panic(i)).map_err(|p| p.msg)).collect())
            }
            macro_rules! via_points {
                ($s:expr, $orig:expr) => {
                    for (i, p) in MultiPointTrait::points($s).enumerate() {
                        let c = PointTrait::coord(&p).unwrap();
                        let (d, v) = probe(&c);
                        pts.push(($orig[i], d, v));
                    }
                };
            }
            macro_rules! via_lines {
                ($s:expr, $m:expr) => {
                    for (li, l) in MultiLineStringTrait::line_strings($s).enumerate() {
                        for (i, c) in l.coords().enumerate() {
                            let (d, v) = probe(&c);
                            pts.push(($m.parts[li].pts[i], d, v));
                        }
                    }
                };
            }
            match &lib {
                Shape::Multipoint(s) => via_points!(s, m.parts[0].pts),
                Shape::MultipointM(s) => via_points!(s, m.parts[0].pts),
                Shape::MultipointZ(s) => via_points!(s, m.parts[0].pts),
                Shape::Polyline(s) => via_lines!(s, m),
                Shape::PolylineM(s) => via_lines!(s, m),
                Shape::PolylineZ(s) => via_lines!(s, m),
                _ => {}
            }
            let has_z = m.ty.has_z();
            let has_m = m.ty.carries_m();
            for (orig, d, vals) in pts {
                let mut fields = vec![orig[0], orig[1]];
                if has_z {
                    fields.push(orig[2]);
                }
                if has_m && d == fields.len() + 1 {
                    fields.push(orig[3]);
                }
                if d != fields.len() {
                    out.push((format!("{}:view:dimension-count", m.ty.name()), format!("a point of a {} reports {} dimensions", m.ty.name(), d)));
                    break;
                }
                for (i, v) in vals.iter().enumerate() {
                    match v {
                        Ok(x) if x.to_bits() == fields[i].to_bits() => {}
                        Ok(x) => {
                            out.push((format!("{}:view:wrong-field", m.ty.name()), format!("coordinate {} reads {} expected {}", i, fshow(*x), fshow(fields[i]))));
                            break;
                        }
                        Err(e) => {
                            out.push((format!("{}:view:index-below-dimension-count-panics", m.ty.name()), format!("point reports {} dimensions but reading coordinate {} panics: {} (m = {})", d, i, e, fshow(orig[3]))));
                            break;
                        }
                    }
                }
            }
        }
        Case::Traits(m) => {
            let p = &m.parts[0].pts[0];
            let want: Vec<f64> = match m.ty {
                Ty::Point => vec![p[0], p[1]],
                Ty::PointM => vec![p[0], p[1], p[3]],
                _ => vec![p[0], p[1], p[2], p[3]],
            };
            // field i of the point as the dimension list names it
            let check = |name: &str, dims: geo_traits::Dimensions, get: &dyn Fn(usize) -> f64, out: &mut Vec<(String, String)>| {
                let d = dims.size();
                let fields: Vec<f64> = match (m.ty, dims) {
                    (Ty::Point, _) => want.clone(),
                    (Ty::PointM, geo_traits::Dimensions::Xy) => want[..2].to_vec(),
                    (Ty::PointM, _) => want.clone(),
                    (_, geo_traits::Dimensions::Xyz) => want[..3].to_vec(),
                    (_, _) => want.clone(),
                };
                if d != fields.len() {
                    out.push((format!("{}:{}:dimension-count", m.ty.name(), name), format!("dim() = {:?} (size {}) for a {}", dims, d, m.ty.name())));
                    return;
                }
                for i in 0..d {
                    match catch(|| get(i)) {
                        Ok(v) => {
                            if v.to_bits() != fields[i].to_bits() {
                                out.push((format!("{}:{}:wrong-field", m.ty.name(), name), format!("nth_or_panic({}) = {} expected {}", i, fshow(v), fshow(fields[i]))));
                            }
                        }
                        Err(pn) => out.push((
                            format!("{}:{}:index-below-dimension-count-panics", m.ty.name(), name),
                            format!("dim() = {:?} but nth_or_panic({}) panics: {} (m = {})", dims, i, pn.msg, fshow(p[3])),
                        )),
                    }
                }
            };
            match m.ty {
                Ty::Point => {
                    let v = Point::mk(p);
                    check("coord", CoordTrait::dim(&v), &|i| v.nth_or_panic(i), &mut out);
                    check("coord-ref", CoordTrait::dim(&&v), &|i| (&v).nth_or_panic(i), &mut out);
                    let c = PointTrait::coord(&v).unwrap();
                    check("point-coord", PointTrait::dim(&v), &|i| c.nth_or_panic(i), &mut out);
                }
                Ty::PointM => {
                    let v = PointM::mk(p);
                    check("coord", CoordTrait::dim(&v), &|i| v.nth_or_panic(i), &mut out);
                    check("coord-ref", CoordTrait::dim(&&v), &|i| (&v).nth_or_panic(i), &mut out);
                    let c = PointTrait::coord(&v).unwrap();
                    check("point-coord", PointTrait::dim(&v), &|i| c.nth_or_panic(i), &mut out);
                }
                _ => {
                    let v = PointZ::mk(p);
                    check("coord", CoordTrait::dim(&v), &|i| v.nth_or_panic(i), &mut out);
                    check("coord-ref", CoordTrait::dim(&&v), &|i| (&v).nth_or_panic(i), &mut out);
                    let c = PointTrait::coord(&v).unwrap();
                    check("point-coord", PointTrait::dim(&v), &|i| c.nth_or_panic(i), &mut out);
                }
            }
        }
    }
    out
}

// ---------------------------------------------------------------------
// generation

fn tri(cw: bool, dx: f64) -> Vec<(f64, f64)> {
    if cw {
        vec![(dx, 0.0), (dx, 2.0), (dx + 2.0, 0.0), (dx, 0.0)]
    } else {
        vec![(dx, 0.0), (dx + 2.0, 0.0), (dx, 2.0), (dx, 0.0)]
    }
}
fn square(cw: bool, dx: f64) -> Vec<(f64, f64)> {
    if cw {
        vec![(dx, 0.0), (dx, 2.0), (dx + 2.0, 2.0), (dx + 2.0, 0.0), (dx, 0.0)]
    } else {
        vec![(dx, 0.0), (dx + 2.0, 0.0), (dx + 2.0, 2.0), (dx, 2.0), (dx, 0.0)]
    }
}
fn flat(dx: f64) -> Vec<(f64, f64)> {
    vec![(dx, 0.0), (dx + 1.0, 1.0), (dx + 2.0, 2.0), (dx, 0.0)]
}
fn open_tri(dx: f64) -> Vec<(f64, f64)> {
    vec![(dx, 0.0), (dx, 2.0), (dx + 2.0, 0.0)]
}
fn ring_templates(dx: f64) -> Vec<Vec<(f64, f64)>> {
    vec![tri(true, dx), tri(false, dx), square(true, dx), square(false, dx), flat(dx), open_tri(dx)]
}

fn to_p4(r: &[(f64, f64)], k: usize) -> Vec<P4> {
    r.iter().enumerate().map(|(i, (x, y))| [*x, *y, 50.0 + (k * 8 + i) as f64, 500.0 + (k * 8 + i) as f64]).collect()
}

/// role words of the outer-first language O I{0..2} (O I{0..2}){0..2}
fn role_words() -> Vec<Vec<u8>> {
    let groups: Vec<Vec<u8>> = vec![vec![0], vec![0, 1], vec![0, 1, 1]];
    let mut out = vec![];
    for a in &groups {
        out.push(a.clone());
        for b in &groups {
            let mut ab = a.clone();
            ab.extend(b);
            out.push(ab.clone());
            for c in &groups {
                let mut abc = ab.clone();
                abc.extend(c);
                out.push(abc);
            }
        }
    }
    out
}

fn shape_cases(tier: Tier) -> Vec<Case> {
    let mut v = vec![];
    // points: d <= 2 over the alphabets
    for ty in [Ty::Point, Ty::PointM, Ty::PointZ] {
        let dims = ty.dims();
        let base = dflt(1);
        v.push(Case::Shape(MShape::point(ty, base)));
        for d1 in 0..4 {
            if !dims[d1] {
                continue;
            }
            for a in alphabet_for_dim(d1) {
                let mut p = base;
                p[d1] = a;
                v.push(Case::Shape(MShape::point(ty, p)));
                for d2 in d1 + 1..4 {
                    if !dims[d2] {
                        continue;
                    }
                    for b in alphabet_for_dim(d2) {
                        let mut q = p;
                        q[d2] = b;
                        v.push(Case::Shape(MShape::point(ty, q)));
                    }
                }
            }
        }
    }
    for ty in [Ty::Multipoint, Ty::MultipointM, Ty::MultipointZ] {
        for n in 1..=3 {
            let base: Vec<P4> = (0..n).map(dflt).collect();
            v.push(Case::Shape(MShape { ty, parts: vec![MPart { kind: 0, pts: base.clone() }] }));
            for i in 0..n {
                for d in 0..2 {
                    for a in f_xy() {
                        let mut b = base.clone();
                        b[i][d] = a;
                        v.push(Case::Shape(MShape { ty, parts: vec![MPart { kind: 0, pts: b }] }));
                    }
                }
            }
        }
    }
    for ty in [Ty::Polyline, Ty::PolylineM, Ty::PolylineZ] {
        for s in crate::structs::structures(ty, crate::structs::Scope::Quick) {
            v.push(Case::Shape(s.clone()));
            if s.n_points() <= 6 {
                for sl in crate::structs::slots(&[s.clone()]) {
                    if sl.dim >= 2 {
                        continue;
                    }
                    for a in f_xy() {
                        let mut x = vec![s.clone()];
                        crate::structs::apply(&mut x, sl, a);
                        v.push(Case::Shape(x.remove(0)));
                    }
                }
            }
        }
    }
    // polygons: every outer-first role word x ring templates
    let words = role_words();
    for ty in [Ty::Polygon, Ty::PolygonM, Ty::PolygonZ] {
        for w in &words {
            // template choice per ring: all combinations for words of length <= 3, a rotating choice above
            let nt = 6usize;
            let combos: usize = if w.len() <= 3 || tier == Tier::Thorough && w.len() <= 4 { nt.pow(w.len() as u32) } else { nt * nt };
            for c in 0..combos {
                let parts: Vec<MPart> = w
                    .iter()
                    .enumerate()
                    .map(|(i, role)| {
                        let t = if combos == nt.pow(w.len() as u32) { (c / nt.pow(i as u32)) % nt } else { (c / nt.pow((i % 2) as u32) + i) % nt };
                        MPart { kind: *role, pts: to_p4(&ring_templates(10.0 * i as f64)[t], i) }
                    })
                    .collect();
                v.push(Case::Shape(MShape { ty, parts }));
            }
        }
    }
    // many rings: k outer rings, the i-th with i % 3 holes, for every k up to 48 (no count class skipped)
    for ty in [Ty::Polygon, Ty::PolygonZ] {
        for k in 1..=48usize {
            let mut parts = vec![];
            let mut idx = 0usize;
            for i in 0..k {
                parts.push(MPart { kind: 0, pts: to_p4(&ring_templates(10.0 * idx as f64)[if i % 2 == 0 { 0 } else { 2 }], idx) });
                idx += 1;
                for _ in 0..(i % 3) {
                    parts.push(MPart { kind: 1, pts: to_p4(&ring_templates(10.0 * idx as f64)[1], idx) });
                    idx += 1;
                }
            }
            v.push(Case::Shape(MShape { ty, parts }));
        }
    }
    // rings whose last vertex is a floating-point neighbour of the first (a different vertex: the
    // constructors close such a ring, geo-types would close it too)
    for ty in [Ty::Polygon, Ty::PolygonM, Ty::PolygonZ] {
        for ulps in [1i64, 2, 4, -1, -3] {
            for d in 0..2usize {
                let first = [10.1f64, -3.3];
                let mut last = first;
                last[d] = f64::from_bits((first[d].to_bits() as i64 + ulps) as u64);
                let near: Vec<(f64, f64)> = vec![(first[0], first[1]), (first[0], 2.0), (14.0, first[1]), (last[0], last[1])];
                v.push(Case::Shape(MShape { ty, parts: vec![MPart { kind: 0, pts: to_p4(&near, 0) }] }));
                v.push(Case::Shape(MShape { ty, parts: vec![MPart { kind: 0, pts: to_p4(&square(true, 0.0), 0) }, MPart { kind: 1, pts: to_p4(&near, 1) }] }));
            }
        }
    }
    // multipatches: ring-only over the 4 ring kinds (<= 3 patches), and a strip / fan at every position
    for n in 1..=3usize {
        for kinds in 0..6usize.pow(n as u32) {
            let ks: Vec<u8> = (0..n).map(|i| ((kinds / 6usize.pow(i as u32)) % 6) as u8).collect();
            for t in [0usize, 3, 5] {
                let parts: Vec<MPart> = ks.iter().enumerate().map(|(i, k)| MPart { kind: *k, pts: to_p4(&ring_templates(10.0 * i as f64)[(t + i) % 6], i) }).collect();
                v.push(Case::Shape(MShape { ty: Ty::Multipatch, parts }));
            }
        }
    }
    // multipatches whose outer rings repeat an outline (the floor under a roof, storeys), forwards or backwards,
    // with and without holes in between
    {
        let sq = square(true, 0.0);
        let mut rev = sq.clone();
        rev.reverse();
        let hole = |k: usize| -> Vec<(f64, f64)> { let o = 0.2 + 0.2 * k as f64; vec![(o, o), (o + 0.1, o), (o, o + 0.1), (o, o)] };
        for (outer, inner) in [(2u8, 3u8), (4, 5)] {
            for second in [&sq, &rev] {
                for holes in 0..3usize {
                    let mut parts = vec![MPart { kind: outer, pts: to_p4(&sq, 0) }];
                    if holes >= 1 {
                        parts.push(MPart { kind: inner, pts: to_p4(&hole(0), 1) });
                    }
                    parts.push(MPart { kind: outer, pts: to_p4(second, 2) });
                    if holes >= 2 {
                        parts.push(MPart { kind: inner, pts: to_p4(&hole(1), 3) });
                    }
                    v.push(Case::Shape(MShape { ty: Ty::Multipatch, parts: parts.clone() }));
                    parts.push(MPart { kind: outer, pts: to_p4(&sq, 4) });
                    v.push(Case::Shape(MShape { ty: Ty::Multipatch, parts }));
                }
            }
        }
    }
    v.push(Case::Shape(MShape::null()));
    v
}

fn geo_cases() -> Vec<Case> {
    let mut v = vec![];
    let g = |kind: &str, groups: Vec<Vec<Vec<(f64, f64)>>>| Case::Geo { kind: kind.to_string(), groups };
    for a in f_xy() {
        for b in [1.5, -0.0, f64::INFINITY] {
            v.push(g("Point", vec![vec![vec![(a, b)]]]));
            v.push(g("Point", vec![vec![vec![(b, a)]]]));
        }
    }
    let line2 = vec![(1.0, 2.0), (3.0, 5.0)];
    let line3 = vec![(1.0, 2.0), (3.0, 5.0), (-4.0, 0.5)];
    v.push(g("Line", vec![vec![line2.clone()]]));
    v.push(g("LineString", vec![vec![line2.clone()]]));
    v.push(g("LineString", vec![vec![line3.clone()]]));
    for n in 1..=3 {
        for pat in 0..(1 << n) {
            let ls: Vec<Vec<(f64, f64)>> = (0..n).map(|i| if pat >> i & 1 == 1 { line3.iter().map(|(x, y)| (x + i as f64, *y)).collect() } else { line2.iter().map(|(x, y)| (x + i as f64, *y)).collect() }).collect();
            v.push(g("MultiLineString", vec![ls]));
        }
        v.push(g("MultiPoint", vec![vec![(0..n).map(|i| (i as f64 * 0.5, -1.0 - i as f64)).collect()]]));
    }
    // polygons with 0-2 holes, every template per ring
    let nt = 6usize;
    let mut polys: Vec<Vec<Vec<(f64, f64)>>> = vec![];
    for holes in 0..=2usize {
        for c in 0..nt.pow(holes as u32 + 1) {
            let rings: Vec<Vec<(f64, f64)>> = (0..=holes).map(|i| ring_templates(10.0 * i as f64)[(c / nt.pow(i as u32)) % nt].clone()).collect();
            polys.push(rings);
        }
    }
    for p in &polys {
        v.push(g("Polygon", vec![p.clone()]));
    }
    // multipolygons of 1-3 polygons over a spread of the above
    let pick: Vec<&Vec<Vec<(f64, f64)>>> = polys.iter().step_by(7).collect();
    for a in &pick {
        v.push(g("MultiPolygon", vec![(*a).clone()]));
        for b in &pick {
            let shift = |p: &Vec<Vec<(f64, f64)>>, dx: f64| -> Vec<Vec<(f64, f64)>> { p.iter().map(|r| r.iter().map(|(x, y)| (x + dx, *y)).collect()).collect() };
            v.push(g("MultiPolygon", vec![(*a).clone(), shift(b, 100.0)]));
            for c in pick.iter().step_by(5) {
                v.push(g("MultiPolygon", vec![(*a).clone(), shift(b, 100.0), shift(c, 200.0)]));
            }
        }
    }
    v.push(g("Rect", vec![vec![line2.clone()]]));
    v.push(g("Triangle", vec![vec![line3.clone()]]));
    v.push(g("GeometryCollection", vec![]));
    v
}

fn traits_cases() -> Vec<Case> {
    let mut v = vec![];
    for ty in [Ty::Point, Ty::PointM, Ty::PointZ] {
        let dims = ty.dims();
        let base = dflt(2);
        v.push(Case::Traits(MShape::point(ty, base)));
        for d1 in 0..4 {
            if !dims[d1] {
                continue;
            }
            for a in f_m() {
                let mut p = base;
                p[d1] = a;
                v.push(Case::Traits(MShape::point(ty, p)));
                for d2 in d1 + 1..4 {
                    if !dims[d2] {
                        continue;
                    }
                    for b in f_m() {
                        let mut q = p;
                        q[d2] = b;
                        v.push(Case::Traits(MShape::point(ty, q)));
                    }
                }
            }
        }
    }
    v
}

fn traits_multi_cases() -> Vec<Case> {
    let mut v = vec![];
    for ty in [Ty::Multipoint, Ty::MultipointM, Ty::MultipointZ, Ty::Polyline, Ty::PolylineM, Ty::PolylineZ] {
        for s in crate::structs::structures(ty, crate::structs::Scope::Reduced) {
            v.push(Case::TraitsMulti(s.clone()));
            for sl in crate::structs::slots(&[s.clone()]) {
                for a in alphabet_for_dim(sl.dim) {
                    let mut x = vec![s.clone()];
                    crate::structs::apply(&mut x, sl, a);
                    v.push(Case::TraitsMulti(x.remove(0)));
                }
            }
        }
    }
    v
}

/// shapes whose parts stand in a geometric relation to each other: a hole that lies inside an EARLIER outer ring
/// than the one it is listed under, parts that start where the previous one ends, parts that coincide
fn relation_cases() -> Vec<Case> {
    let mut v = vec![];
    let sq = |x0: f64, y0: f64, side: f64, cw: bool| -> Vec<(f64, f64)> {
        let mut r = vec![(x0, y0), (x0, y0 + side), (x0 + side, y0 + side), (x0 + side, y0), (x0, y0)];
        if !cw {
            r.reverse();
        }
        r
    };
    for ty in [Ty::Polygon, Ty::PolygonM, Ty::PolygonZ] {
        // every arrangement of {big island, islet far away, islet inside the big island's extent} as outer rings,
        // followed by a hole placed inside the big island / inside the far islet / outside everything
        let outers = [sq(0.0, 0.0, 20.0, true), sq(100.0, 100.0, 4.0, true), sq(30.0, 0.0, 4.0, true)];
        let holes = [sq(2.0, 2.0, 2.0, false), sq(101.0, 101.0, 1.0, false), sq(500.0, 500.0, 1.0, false)];
        for a in 0..3 {
            for b in 0..3 {
                if a == b {
                    continue;
                }
                for h in 0..3 {
                    for extra_hole_first in [false, true] {
                        let mut parts = vec![MPart { kind: 0, pts: to_p4(&outers[a], 0) }];
                        if extra_hole_first {
                            parts.push(MPart { kind: 1, pts: to_p4(&holes[(h + 1) % 3], 3) });
                        }
                        parts.push(MPart { kind: 0, pts: to_p4(&outers[b], 7) });
                        parts.push(MPart { kind: 1, pts: to_p4(&holes[h], 11) });
                        v.push(Case::Shape(MShape { ty, parts }));
                    }
                }
            }
        }
    }
    // rings that come back to a vertex they have already visited: through their start vertex (two lobes), with a
    // spike (A, B, A), with a repeated inner vertex; as outer ring and as hole
    let revisiting: Vec<Vec<(f64, f64)>> = vec![
        vec![(0.0, 0.0), (0.0, 4.0), (4.0, 4.0), (0.0, 0.0), (4.0, -4.0), (0.0, -4.0), (0.0, 0.0)],
        vec![(0.0, 0.0), (0.0, 4.0), (2.0, 4.0), (2.0, 6.0), (2.0, 4.0), (4.0, 4.0), (4.0, 0.0), (0.0, 0.0)],
        vec![(0.0, 0.0), (0.0, 4.0), (4.0, 4.0), (2.0, 2.0), (4.0, 0.0), (2.0, 2.0), (0.0, 0.0)],
        vec![(0.0, 0.0), (0.0, 4.0), (4.0, 4.0), (4.0, 0.0), (2.0, 0.0), (2.0, 1.0), (2.0, 0.0), (0.0, 0.0)],
    ];
    for ty in [Ty::Polygon, Ty::PolygonM, Ty::PolygonZ] {
        for r in &revisiting {
            for rev in [false, true] {
                let mut ring = r.clone();
                if rev {
                    ring.reverse();
                }
                v.push(Case::Shape(MShape { ty, parts: vec![MPart { kind: 0, pts: to_p4(&ring, 0) }] }));
                let shifted: Vec<(f64, f64)> = ring.iter().map(|(x, y)| (x * 0.125 + 10.0, y * 0.125 + 10.0)).collect();
                v.push(Case::Shape(MShape { ty, parts: vec![MPart { kind: 0, pts: to_p4(&sq(0.0, 0.0, 40.0, true), 0) }, MPart { kind: 1, pts: to_p4(&shifted, 9) }] }));
            }
        }
    }
    // the same rings coming from geo-types (exterior, and hole of a big square)
    for r in &revisiting {
        for rev in [false, true] {
            let mut ring = r.clone();
            if rev {
                ring.reverse();
            }
            v.push(Case::Geo { kind: "Polygon".to_string(), groups: vec![vec![ring.clone()]] });
            let shifted: Vec<(f64, f64)> = ring.iter().map(|(x, y)| (x * 0.125 + 10.0, y * 0.125 + 10.0)).collect();
            v.push(Case::Geo { kind: "Polygon".to_string(), groups: vec![vec![sq(0.0, 0.0, 40.0, true), shifted.clone()]] });
            v.push(Case::Geo { kind: "MultiPolygon".to_string(), groups: vec![vec![ring.clone()], vec![sq(100.0, 0.0, 40.0, true), shifted.iter().map(|(x, y)| (x + 100.0, *y)).collect()]] });
        }
    }
    for ty in [Ty::Polyline, Ty::PolylineM, Ty::PolylineZ] {
        // chains: each part starts where the previous one ends / where it starts / is the previous one again
        let pts: [(f64, f64); 5] = [(0.0, 0.0), (1.0, 1.0), (2.0, 0.0), (3.0, 1.0), (0.0, 0.0)];
        let segs: Vec<Vec<(f64, f64)>> = vec![vec![pts[0], pts[1]], vec![pts[1], pts[2]], vec![pts[2], pts[3]], vec![pts[1], pts[0]], vec![pts[0], pts[1], pts[2]], vec![pts[2], pts[3], pts[4]]];
        for a in 0..segs.len() {
            for b in 0..segs.len() {
                v.push(Case::Shape(MShape { ty, parts: vec![MPart { kind: 0, pts: to_p4(&segs[a], 0) }, MPart { kind: 0, pts: to_p4(&segs[b], 5) }] }));
                for c in 0..segs.len() {
                    v.push(Case::Shape(MShape { ty, parts: vec![MPart { kind: 0, pts: to_p4(&segs[a], 0) }, MPart { kind: 0, pts: to_p4(&segs[b], 5) }, MPart { kind: 0, pts: to_p4(&segs[c], 9) }] }));
                }
            }
        }
    }
    v
}

/// shapes that only a reader can produce
fn read_cases() -> Vec<Case> {
    let mut v = vec![];
    // polylines with parts of 1, 2 and 3 vertices in every arrangement of up to 3 parts
    for ty in [Ty::Polyline, Ty::PolylineM, Ty::PolylineZ] {
        for np in 1..=3usize {
            let mut idx = vec![0usize; np];
            loop {
                let lens: Vec<usize> = idx.iter().map(|i| i + 1).collect();
                let mut k = 0;
                let parts: Vec<MPart> = lens.iter().map(|l| { let p = MPart { kind: 0, pts: (0..*l).map(|i| dflt(k + i)).collect() }; k += l; p }).collect();
                v.push(Case::Read(MShape { ty, parts }));
                let mut c = 0;
                while c < np {
                    idx[c] += 1;
                    if idx[c] < 3 {
                        break;
                    }
                    idx[c] = 0;
                    c += 1;
                }
                if c == np {
                    break;
                }
            }
        }
    }
    // polygons whose rings are closed in X / Y; the last vertex differs from the first in Z, in M, in both, or not at all
    for ty in [Ty::Polygon, Ty::PolygonM, Ty::PolygonZ] {
        for differs in 0..4u8 {
            for with_hole in [false, true] {
                let mk = |r: &[(f64, f64)], kind: u8, k: usize| -> MPart {
                    let mut pts: Vec<P4> = r.iter().enumerate().map(|(i, (x, y))| [*x, *y, 10.0 + (k + i) as f64, 100.0 + (k + i) as f64]).collect();
                    let first = pts[0];
                    let last = pts.last_mut().unwrap();
                    last[2] = if differs & 1 != 0 { first[2] + 50.0 } else { first[2] };
                    last[3] = if differs & 2 != 0 { first[3] + 50.0 } else { first[3] };
                    MPart { kind, pts }
                };
                let mut parts = vec![mk(&[(0.0, 0.0), (0.0, 8.0), (8.0, 8.0), (8.0, 0.0), (0.0, 0.0)], 0, 0)];
                if with_hole {
                    parts.push(mk(&[(2.0, 2.0), (4.0, 2.0), (4.0, 4.0), (2.0, 4.0), (2.0, 2.0)], 1, 5));
                }
                v.push(Case::Read(MShape { ty, parts }));
            }
        }
    }
    v
}

fn selftest() -> (u64, u64) {
    // RefGeo must distinguish a hole attached to the wrong outer, a reordered line, a dropped point
    let m = MShape { ty: Ty::Polygon, parts: vec![
        MPart { kind: 0, pts: to_p4(&tri(true, 0.0), 0) },
        MPart { kind: 1, pts: to_p4(&tri(false, 0.0), 1) },
        MPart { kind: 0, pts: to_p4(&square(true, 10.0), 2) },
    ] };
    let built = from_lib(&to_lib(&m));
    let want = expect_image(&built.shape);
    let mut inj = 0;
    let mut det = 0;
    if let GeoImg::Polygons(p) = &want {
        // hole moved to the second outer
        let mut q = p.clone();
        let h = q[0].1.remove(0);
        q[1].1.push(h);
        inj += 1;
        det += (GeoImg::Polygons(q) != want) as u64;
        // exterior reversed is *not* equal for shape->geo, but equal up to orientation
        let mut r = p.clone();
        r[0].0.reverse();
        inj += 1;
        det += (GeoImg::Polygons(r.clone()) != want && img_eq_up_to_orientation(&GeoImg::Polygons(r), &want)) as u64;
        // a vertex dropped
        let mut s = p.clone();
        s[1].0.remove(1);
        inj += 1;
        det += (!img_eq_up_to_orientation(&GeoImg::Polygons(s), &want)) as u64;
    } else {
        return (1, 0);
    }
    (inj, det)
}

pub fn check(tier: Tier) -> i32 {
    let started = Instant::now();
    let mut cases = shape_cases(tier);
    cases.extend(geo_cases());
    cases.extend(traits_cases());
    cases.extend(traits_multi_cases());
    cases.extend(read_cases());
    cases.extend(relation_cases());
    let nb = (cases.len() + 255) / 256;
    let (agg, capped) = par_blocks(nb, None, |b, ctx, tick| {
        for c in &cases[b * 256..((b + 1) * 256).min(cases.len())] {
            let r = match catch(|| run(c)) {
                Ok(v) => v,
                Err(p) => vec![(format!("panic:{}", p.sig()), format!("{}:{} {}", p.file, p.line, p.msg))],
            };
            let mut oh = Fnv::new();
            oh.u64(r.len() as u64);
            oh.str(match c {
                Case::Shape(m) => m.ty.name(),
                Case::Geo { kind, .. } => kind,
                Case::Traits(m) => m.ty.name(),
                Case::TraitsMulti(m) => m.ty.name(),
                Case::Read(m) => m.ty.name(),
            });
            ctx.lib_calls += 3;
            ctx.case_done(c.hash(), !matches!(c, Case::Shape(m) if m.ty.family() == Family::Point && false), oh.finish());
            if matches!(c, Case::Shape(m) if m.ty == Ty::PolygonM && m.parts.len() == 4) {
                ctx.sample(|| c.to_json());
            }
            for (sig, d) in r {
                ctx.violation(sig, || c.to_json(), || d);
            }
            tick();
        }
    });
    // the self-test runs the library too: on a tree that panics there it counts as failed (a verdict, if there is one,
    // takes precedence over it)
    let st = catch(|| selftest()).unwrap_or((1, 0));
    finish(
        RunInfo {
            prop: "C20",
            tier,
            level: "model_checking",
            engine: "E2 enumerator on the real From/TryFrom impls between shapefile and geo-types values and the geo-traits accessors (library built with features geo-types + geo-traits)",
            rule: "shapes: Point/PointM/PointZ with <= 2 special values from the per-dimension alphabets; Multipoint* of 1-3 points and Polyline* structures with one X/Y slot replaced by every value of F_xy; Polygon*: every role word of the outer-first language O I{0..2} (O I{0..2}){0..2} x ring templates {triangle cw/ccw, square cw/ccw, zero-area, open triangle} (all combinations up to 3 rings, a rotating choice above), and k outer rings with 0-2 holes each for every k up to 48; multipatches: every kind vector of length 1-3 over the 6 kinds (ring-only ones convert, any strip / fan is refused); NullShape; geo-types: Point, Line, LineString, MultiLineString (1-3), MultiPoint (1-3), Polygon with 0-2 holes x templates, MultiPolygon of 1-3 polygons, Rect, Triangle, GeometryCollection; geo-traits: every Point/PointM/PointZ with <= 2 special values from the full alphabet (no-data, below-threshold, NaN measures included), and every point of Multipoint*/Polyline* structures reached through the MultiPointTrait / MultiLineStringTrait views with one slot replaced by every value of its alphabet; plus polygons whose hole lies inside an earlier outer ring than the one it is listed under (every arrangement of a big island, a far islet, an islet next to it and three hole positions), polylines whose consecutive parts share end points or coincide (all pairs and triples over 6 segments), multipatches whose outer rings repeat an outline forwards or backwards with holes in between, rings that come back to a vertex already visited (two lobes through the start vertex, spikes, a repeated inner vertex), as shapes and as geo-types polygons; plus shapes READ from records encoded as given: polylines with parts of 1-3 vertices in every arrangement of up to 3 parts, polygons (with and without a hole) whose rings are closed in X / Y while the last vertex differs from the first in Z, M, both or neither; every case is non-trivial",
            bounds: json!({"cases": cases.len(), "max_rings": 9, "max_patches": 3}),
            exhaustive: true,
            assumptions: vec![
                "geo-types closes polygon rings itself; LineStrings of one coordinate and polygons with an empty exterior hit documented constructor panics and are left out".into(),
                "a zero-area ring may come back reversed (C16 allows either order)".into(),
            ],
            started,
            states: 0,
            transitions: 0,
            selftest: st,
            extra: Default::default(),
        },
        agg,
        capped,
    )
}

pub fn replay(v: &Value) -> Vec<(String, String)> {
    match Case::from_json(v) {
        None => vec![("bad-replay-file".into(), "cannot parse case".into())],
        Some(c) => match catch(|| run(&c)) {
            Ok(v) => v,
            Err(p) => vec![(format!("panic:{}", p.sig()), p.msg)],
        },
    }
}
