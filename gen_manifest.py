#!/usr/bin/env python3
"""Regenerates MANIFEST.json from the table below (kept in one place so the
manifest stays valid and in step with what ./check implements)."""
import json, os, sys
HERE = os.path.dirname(os.path.abspath(__file__))

CHECKS = {
 # id: (level category, technique, level text, level note, design ref)
 "C01": ("model_checking", "bounded exhaustive enumeration of the shape-builder grammar x float-deviation sets, every case written and read back on the real code through every reading route",
         "Every structure of a stated finite builder grammar (13 types; vertex counts, part-length vectors, ring templates x roles, patch kinds x lengths), every file sequence over a different-size set, every deviation set of size <= d from a per-dimension alphabet of special floats, is written with the real ShapeWriter and read back through generic/concrete x sequential/random x with/without .shx (and the on-disk path routes); every result is compared bit for bit with the shape as constructed. Complete within the bounds recorded in the evidence; no sampling.",
         "Bounded: floats outside the alphabet classes, more than d simultaneous special values and structures beyond the bounds are not covered. Ring roles judged only where the shoelace sum is exact.", "DESIGN.md 3/C01"),
 "C02": ("model_checking", "bounded exhaustive enumeration (same case space as C01, plus empty files); oracle = independent strict ESRI validator/decoder (RefCodec)",
         "Every case of the C01 space plus n=0 files is written with the real ShapeWriter; the raw .shp bytes must pass a strict validator written from the ESRI whitepaper (no shared code with the library) and decode bit for bit to the geometry handed to the writer.",
         "Trusts RefCodec (harness/src/refmodel/codec.rs), which is itself exercised by the oracle self-test and by C03 (library reader vs RefCodec encoder).", "DESIGN.md 3/C02"),
}

NOT_YET = {}

def main():
    props = [json.loads(l) for l in open(os.path.join(HERE, "properties.jsonl"))]
    checks = []
    na = []
    for p in props:
        pid = p["id"]
        if pid in CHECKS:
            cat, tech, text, note, ref = CHECKS[pid]
            checks.append({
                "property_id": pid,
                "quick_cmd": "./check %s quick" % pid,
                "thorough_cmd": "./check %s thorough" % pid,
                "evidence_file": "/verif/evidence/%s.json" % pid,
                "replay_cmd_template": "./check replay {path}",
                "engine": "vcheck",
                "level_claimed": {"category": cat, "text": text, "design_ref": ref},
                "level_note": note,
                "technique": tech,
            })
        else:
            na.append({"property_id": pid, "reason": NOT_YET.get(pid, "check not built yet in this round (planned: see DESIGN.md section 3); not claimed until it runs")})
    m = {
        "version": 1,
        "setup_cmd": "./check build",
        "hooks": {
            "guard": "none",
            "enable": "no hooks: the writer and reader are generic over Read/Write/Seek, so the harness owns the whole environment through its instrumented device; /repo is built unmodified as a path dependency",
            "baseline_off_cmd": "cd /repo && cargo test --workspace --no-fail-fast --offline",
            "source_commits": [],
            "add_only": True,
        },
        "engines": [
            {"name": "vcheck", "path": "/verif/harness", "serves_properties": sorted(CHECKS.keys()),
             "kind_free_text": "stateless bounded exhaustive exploration of the real library: history explorer (stateright BFS over operation histories), structure x deviation enumerator, field-mutation enumerator with subprocess isolation and counting allocator; reference models in harness/src/refmodel"},
        ],
        "checks": checks,
        "not_applicable": na,
        "notes": "exit 0 held / 1 violation / 2 machinery failure. Known findings: /verif/known_findings.json. Replays: /verif/replays/.",
    }
    json.dump(m, open(os.path.join(HERE, "MANIFEST.json"), "w"), indent=1)
    print("MANIFEST.json: %d checks, %d not claimed" % (len(checks), len(na)))

if __name__ == "__main__":
    main()
