#!/usr/bin/env python3
"""Regenerates MANIFEST.json from the table below (kept in one place so the
manifest stays valid and in step with what ./check implements)."""
import json, os, sys
HERE = os.path.dirname(os.path.abspath(__file__))

CHECKS = {
 # id: (level category, technique, level text, level note, design ref)
 "C01": ("model_checking", "bounded exhaustive enumeration of the shape-builder grammar x float-deviation sets, every case written and read back on the real code through every reading route",
         "Every structure of a stated finite builder grammar (13 types; vertex counts, part-length vectors, ring templates x roles, patch kinds x lengths), every file sequence over a different-size set, every deviation set of size <= d from a per-dimension alphabet of special floats, is written with the real ShapeWriter and read back through generic/concrete x sequential/random x with/without .shx (and the on-disk path routes); every result is compared bit for bit with the shape as constructed. Complete within the bounds recorded in the evidence; no sampling.",
         "Bounded: floats outside the alphabet classes, more than d simultaneous special values and structures beyond the bounds are not covered. Ring roles judged only where the shoelace sum is exact.", "DESIGN.md 3/C01"),
 "C02": ("model_checking", "bounded exhaustive enumeration (same case space as C01, plus empty files); oracle = independent strict ESRI validator/decoder (RefCodec)",
         "Every case of the C01 space plus n=0 files is written with the real ShapeWriter; the raw .shp bytes must pass a strict validator written from the ESRI whitepaper (no shared code with the library) and decode bit for bit to the geometry handed to the writer.",
         "Trusts RefCodec (harness/src/refmodel/codec.rs), which is itself exercised by the oracle self-test and by C03 (library reader vs RefCodec encoder).", "DESIGN.md 3/C02"),
 "C04": ("model_checking", "bounded exhaustive enumeration of record sequences (all ordered tuples over a different-size shape set, n<=4/5) written by the real writer; .shx parsed independently and compared with a RefCodec scan of the .shp; reader routes compared",
         "Every ordered n-tuple (n = 0..4, thorough 5) over a per-type set of pairwise different-size shapes is written (in memory and through from_path); the .shx bytes are checked against an independent scan of the .shp, and shape_count / read_nth_shape / iteration with and without index / size hints must agree.",
         "Bounded in n and in the shape set; RefCodec trusted as in C02.", "DESIGN.md 3/C04"),
 "C05": ("model_checking", "bounded exhaustive enumeration of extreme-value placements (every slot x special value, every low/high slot pair, whole-dimension fills) on the real constructors and writer; oracle = independent numeric fold",
         "Every placement of one special value, of a (low, high) pair in two slots of one dimension, and of one special value in a whole dimension, over small structures and 1-3 shape sequences of all 13 types; per-shape bbox(), stored record boxes (RefCodec) and the header box (bytes and ShapeReader::header()) must equal an independent min/max fold.",
         "+0/-0 compare numerically; NaN excluded; header M not judged for MultiPatch files or files with no-data measures (the property disclaims both).", "DESIGN.md 3/C05"),
 "C06": ("model_checking", "complete enumeration of the 13x14 (requested, actual) type matrix and of all conversion pairs on the real reader and TryFrom impls",
         "All ordered (requested S, actual T) pairs over files of 1-3 records (library-written, plus RefCodec-written null and mixed-type files), every shape value of the C01 quick structure set against all 13 target types, bulk conversion with the wrong element at every position. Finite part is complete (exhaustive=true for the matrix).",
         "Error fields compared through integer codes.", "DESIGN.md 3/C06"),
 "C09": ("model_checking", "stateright BFS over all operation histories {write a, write b, finalize}^<=depth x endings x index x 13 types, each state executed on the real ShapeWriter over instrumented devices (explicit-state, state = history)",
         "All histories up to depth 6 (thorough 10) with every ending (drop, finalize+drop, write_shapes consuming k=0..2 shapes), with and without .shx, for all 13 types; after every successful finalize both devices must be flushed and hold a complete file (RefCodec) with exactly the shapes so far; a finalize with nothing new must add no entry to either operation log; final bytes equal the writes+drop run of the same tree.",
         "Bounded depth. The instrumented device is the whole environment (no real file system).", "DESIGN.md 3/C09"),
 "C10": ("model_checking", "stateright BFS over histories {Wa, Wb, F, rejected write} for all 13x12 type pairs x 3 writer routes on the real code; oracle = error value, operation log, byte equality with the history minus rejected calls",
         "All 156 ordered (file type, offered type) pairs x {ShapeWriter+shx, ShapeWriter, complete Writer} x all histories up to depth 5 (thorough 8) with at most 2 rejected calls at every position.",
         "Bounded depth; .dbf date stamp masked.", "DESIGN.md 3/C10"),
 "C18": ("model_checking", "bounded exhaustive (parts, points-per-part) grid on the real size_in_bytes / write_to / record header",
         "Dense grid of part-length vectors (<=4 parts x lengths <=5; thorough <=6 x <=8) x kinds x open/closed rings for all 13 types plus a fixed ladder of large shapes; announced size == emitted bytes and record-header words*2 == size+4.",
         "Random larger shapes replaced by a deterministic ladder.", "DESIGN.md 3/C18"),
 "C19": ("model_checking", "complete enumeration of all 2^32 type codes on the real ShapeType::from (and Header::read_from in the thorough tier) against a literal ESRI table",
         "ShapeType::from for every one of the 2^32 codes (exactly 14 accepted, re-encoding is the identity, types match the table); header and record routes over a structured code set (all 2^32 headers in thorough); has_z/has_m/is_multipart/Display for the 14 types.",
         "exhaustive=true for the 2^32 domain. is_multipart is not judged for NullShape (the statement does not place it).", "DESIGN.md 3/C19"),
 "C03": ("model_checking", "bounded exhaustive enumeration of spec-conformant files produced by the independent RefCodec encoder (foreign layouts included), each decoded by the real reader and compared record by record",
         "14 file types x every record variant (0-3 parts of 0-3 vertices incl. empty first parts and zero parts, M block present/absent, PointZ 24/32 bytes, 4 stored-box variants, null records) x 5 numbering x 4 trailing variants; all 2- and 3-record tuples over representative variants; deviation sets <= d over every coordinate and box field from the full float alphabet (NaNs included).",
         "Trusts the RefCodec encoder (cross-checked by C02, where the library writer's output is decoded by the RefCodec decoder). Ring roles and M ranges of absent M blocks are not in the statement.", "DESIGN.md 3/C03"),
 "C07": ("model_checking", "complete enumeration of named mutation families (every 32-bit field x boundary values, every truncation, every single-bit flip, extensions, pattern tails, shifted files, interacting field pairs, unbacked count ladders) over 28 base files, each input driven through every reader entry point in an isolated worker process with overflow checks and debug assertions on",
         "No panic, no abort, no hang (20 s watchdog), every iteration ends within len(shp)+len(shx)+16 items, for every input of the enumerated families.",
         "The statement's random bit-flip sets and unstructured random bytes are sampling and are replaced by the complete families; inputs outside them are not covered.", "DESIGN.md 3/C07"),
 "C14": ("model_checking", "bounded exhaustive enumeration: every permutation of physical record order x every filler combination (RefCodec-built .shp/.shx) read by the real ShapeReader::with_shx",
         "n = 1..3 (thorough 4) records x all n! physical orders x 5 filler kinds in each of the n+1 gaps x 2 filler bytes, 5 types (thorough 13): iteration must yield one shape per index entry in index order, equal to random access and to the reported count.",
         "Bounded n; fillers of even length only (offsets are in words).", "DESIGN.md 3/C14"),
 "C15": ("model_checking", "stateright BFS over reader call histories (iterate j items, random access, seek, count, read-all) on the real ShapeReader / Reader; oracle = set-valued cursor model",
         "All histories up to depth 3 (thorough 5) over 13 / 10 / 7 actions for ShapeReader with index, the complete Reader, ShapeReader without index, on files of 3 records with different and with equal sizes.",
         "Bounded depth and n = 3. The model is non-deterministic exactly where the statement is (a further iteration may continue or restart).", "DESIGN.md 3/C15"),
 "C17": ("model_checking", "same complete mutation families as C07 plus consistent-but-unbacked count ladders (2^10..2^27/2^30), each reader call measured by a counting global allocator in an isolated worker process",
         "Peak live bytes above the level at call entry and the largest single request stay below 64 x input bytes + 64 KiB for every reader call on every enumerated input.",
         "The additive constant (64 KiB) is the harness's reading of 'plus a constant'. Inputs outside the families are not covered.", "DESIGN.md 3/C17"),
 "C08": ("model_checking", "stateright BFS over write-call histories (accepted pairs, wrong shape type, three kinds of rejected rows) on the real complete Writer; entry counts read from raw bytes; pairs read back with the real complete Reader",
         "All histories up to depth 5 (thorough 6) over a 6-letter alphabet, 3 types (thorough 13), in memory and (to depth 3) through Writer::from_path + shapefile::read / Reader::from_path: three entry counts equal the number of accepted pairs and the reader returns exactly those pairs, shape i with row i.",
         "One listed known finding (row rejected after the shape was committed) is reported as KNOWN-FINDING; any other outcome of such a history, and every history without a rejected row, is still judged in full.", "DESIGN.md 3/C08"),
 "C11": ("fault_enumeration", "exhaustive crash-point enumeration: for every workload (writer history) the operation logs of .shp and .shx are cut at every operation boundary and at every byte inside every write, independently; every image (pair) is read by the real reader",
         "Workloads = all histories over {Wa, Wb, F} with <= 3 writes and <= 2 finalizes (finalize-first included) for 3 types (thorough 13, longer histories); every distinct .shp image without index and every (.shp image, .shx image) pair with index: error or a prefix of the written shapes, never an invented / reordered shape, never a panic; shapes covered by a finalize completed on the .shp stay readable.",
         "Failure model of the statement (prefix of the operation sequence, torn write, no reordering).", "DESIGN.md 3/C11"),
 "C12": ("fault_enumeration", "exhaustive fault-point enumeration: every operation index (write, seek, flush) of every workload fails one-shot or persistently on either destination; failed finalizes are retried; plus the short-write schedule family",
         "Workloads = all histories over {Wa, Wb, F} up to length 4 (thorough 6) x with/without .shx x 3 types (thorough 13): the failing call returns the injected I/O error, earlier calls are unaffected, nothing panics (drop included), a retried finalize completes files byte-identical to the undisturbed run; short writes (uniform chunks and one-deviation schedules) give byte-identical files.",
         "Injected errors are ErrorKind::Other; chunk schedules are the stated family.", "DESIGN.md 3/C12"),
 "C13": ("fault_enumeration", "exhaustive truncation / fault / short-read enumeration over valid files read by the real reader",
         "Per file (5 types, thorough 13; 1-3 records; library-written and RefCodec-written): every truncation length of .shp (with and without index) and of .shx, every read/seek of a full traversal failing one-shot or persistently, every short-read schedule of the family: no panic, nothing invented, whole records returned, the cut record reported as an I/O error, the injected error returned by the call in progress.",
         "Iteration observed up to the first error.", "DESIGN.md 3/C13"),
 "C16": ("model_checking", "bounded exhaustive enumeration of ring vertex sequences on a lattice through every public polygon / multipatch constructor and macro; oracle = exact integer shoelace + vertex-sequence comparison",
         "Every single ring of length 1..5 over a 3x3 lattice x role x {new, with_rings, polygon!} x 3 point types x Z/M patterns; every pair (length <= 4) and triple (length <= 3) of rings over a 2x2 lattice x all role vectors; special-value deviations for closure / preservation; every single patch and pair of patches x 6 kinds.",
         "Orientation judged where the shoelace sum is exact.", "DESIGN.md 3/C16"),
 "C20": ("model_checking", "bounded exhaustive enumeration of shapes and geo-types geometries through the real From/TryFrom impls and geo-traits accessors (library built with the geo features); oracle = independent image (RefGeo)",
         "Points with <= 2 special values, multipoints, polylines, every outer-first role word up to 3 outers x 2 holes x ring templates, every multipatch kind vector up to length 3, every geo-types input kind incl. Rect / Triangle / GeometryCollection, and every Point/PointM/PointZ value class through CoordTrait / PointTrait.",
         "Inputs that hit documented constructor panics (1-coordinate LineString, empty exterior) are left out.", "DESIGN.md 3/C20"),
}

NOT_YET = {}

def main():
    props = [json.loads(l) for l in open(os.path.join(HERE, "properties.jsonl"))]
    checks = []
    na = []
    for p in props:
        pid = p["id"]
        if pid in CHECKS:
            cat, tech, text, note, ref = CHECKS[pid]
            checks.append({
                "property_id": pid,
                "quick_cmd": "./check %s quick" % pid,
                "thorough_cmd": "./check %s thorough" % pid,
                "evidence_file": "/verif/evidence/%s.json" % pid,
                "replay_cmd_template": "./check replay {path}",
                "engine": "vcheck-geo" if pid == "C20" else "vcheck",
                "level_claimed": {"category": cat, "text": text, "design_ref": ref},
                "level_note": note,
                "technique": tech,
            })
        else:
            na.append({"property_id": pid, "reason": NOT_YET.get(pid, "check not built yet in this round (planned: see DESIGN.md section 3); not claimed until it runs")})
    m = {
        "version": 1,
        "setup_cmd": "./check build",
        "hooks": {
            "guard": "none",
            "enable": "no hooks: the writer and reader are generic over Read/Write/Seek, so the harness owns the whole environment through its instrumented device; /repo is built unmodified as a path dependency",
            "baseline_off_cmd": "cd /repo && cargo test --workspace --no-fail-fast --offline",
            "source_commits": [],
            "add_only": True,
        },
        "engines": [
            {"name": "vcheck-geo", "path": "/verif/harness-geo", "serves_properties": ["C20"],
             "kind_free_text": "same machinery, built against shapefile with features geo-types + geo-traits (separate crate so that C01-C19 exercise the default-feature library)"},
            {"name": "vcheck", "path": "/verif/harness", "serves_properties": sorted(k for k in CHECKS.keys() if k != "C20"),
             "kind_free_text": "stateless bounded exhaustive exploration of the real library: history explorer (stateright BFS over operation histories), structure x deviation enumerator, field-mutation enumerator with subprocess isolation and counting allocator; reference models in harness/src/refmodel"},
        ],
        "checks": checks,
        "not_applicable": na,
        "notes": "exit 0 held / 1 violation / 2 machinery failure. Known findings: /verif/known_findings.json. Replays: /verif/replays/.",
    }
    json.dump(m, open(os.path.join(HERE, "MANIFEST.json"), "w"), indent=1)
    print("MANIFEST.json: %d checks, %d not claimed" % (len(checks), len(na)))

if __name__ == "__main__":
    main()
