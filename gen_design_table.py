#!/usr/bin/env python3
"""Prints the 'as built' table of DESIGN.md section 0 from evidence/*.json (quick tier, the state of the last
./check run) and thorough_summary.tsv (one line per property from the last complete thorough run)."""
import json, os
here = os.path.dirname(os.path.abspath(__file__))
SCOPE = {
 "C01": ("E2", "13 types; every structure of the builder grammar; sequences n=1..5; deviation bound 1 (thorough 2); EVERY part length 2..4200 (9000) for 4 types, EVERY record count 4..1600 (3100) for 2 types, 65535..65537 and one history of 300001 records (thorough also 2^17, 2^18 +-1, 1048577); ladder to 70001 points / 1025 parts; every finalize placement around 1-5 writes; unit holes translated by 2^27..2^40; measure patterns mixing real and no-data; sizes crossed with special values and with two long parts; thin rings of 2^14 vertices; 6 in-memory + 3 disk routes; three long parts, an empty part and 16383..20000 parts inside records of more than 2^16 points; disk names by turns plain / without extension / not UTF-8"),
 "C02": ("E2 + RefCodec + fault runs", "the space of C01 + empty files; plus every history <= 3 (4) over {Wa, Wb, F} x 13 types x index on/off under every single fault (39 error kinds on the short ones, zero-byte writes, seeks that move before failing) and every pair of faults, and dropped by unwinding: the .shp left behind holds exactly the accepted shapes; every fault-run history <= 2 also ended by the consuming write_shapes"),
 "C03": ("E2, RefCodec-encoded files", "14 file types; every record variant x 5 numberings x 4 trailings; 2-4 record tuples; d<=1 (2) over coordinates and box fields; every part length 2..4200 (9000); size ladder; 3-record files under 14 std-adaptor programs; sizes crossed with special values and with two long parts; a 700 001-point record (> 10 MiB) alone / last / before a null record; long records with and without M followed by another record; three long parts, an empty part, 16384 / 20000 parts"),
 "C04": ("E2 + RefCodec + fault runs", "13 types; n=0..4 (5) ordered tuples; every finalize placement; stale destinations; from_path; 14 adaptor programs with and without index from 3 reader states; random access at the ends of the index type; by path under plain, capital and symbolically linked names; fault runs as in C02 judged by the index clause; nth at 2^32+k, 2^33+k, 2^63+k; names without extension and not UTF-8"),
 "C05": ("E2", "structures <=3 parts; sequences of 2-3; one slot x F_xy; whole dimension = one value; every slot pair x lows x highs; every record count 4..1100 (3100); parts of 1025..16385 (65537) points with the extremes in each part in turn; every vertex stacked on the one before it; measures down to -9.99e38; user-defined shapes whose announced ranges lie"),
 "C06": ("E2 (complete matrix)", "13x14 (S,T) x files of 1-2 (3) records; mixed / null files through 4 routes; special values; conversions; 3-record files behind hand-made indexes (4 orders x fillers x 7 length-field lies) typed vs generic on 12 routes incl. by path (with and without a .dbf) and the complete Reader from 4 states; the text of mismatch errors; indexed records without their M block"),
 "C07": ("E3", "47+ base files (14 types x 1-3 records, fixtures, 8193-point shapes); every 32-bit field x ~200 boundary values; every truncation; every bit flip; extensions; tails; shifted files; interacting pairs; 11 ladder families (unbacked, partially backed, honest 1025/3000 points then the lie, no part but n points); 7 adaptor programs and a size-hint driven collect per input; honest records with one long and 1500 short parts; 32-bit overflow thresholds 2^31/d, 2^32/d +- 1 for the record strides d; a first part that lies"),
 "C08": ("E1", "depth 5 (6) over 6 letters, 8 (13) types; by path (next to a data set whose name differs by case), stale destinations, no-data measures, dotted file names to depth 3; ladder 255..4097 pairs; typed pair routes, one-call bulk write, from_path_with_info; a shape with empty parts; names without extension; all-success histories <= 3 under every single fault on the .shp / .shx"),
 "C09": ("E1", "depth 7 (10) over {Wa, Wb, F, one refused write} x 13 types x {no index, index, stale, stale + not at start, shape a read from a record with an inverted box} x 6 endings; from_path to depth 3"),
 "C10": ("E1 + fault runs", "depth 5 (8), 156 type pairs x 4 routes (the 4th: complete Writer over a typed ShapeWriter), every history also ended by the consuming write_shapes of the other type, <=2 rejected calls; rejected write after every count 1..1100 (3100); user-defined shapes of all 14 types and absurd sizes; histories <= 4 (5) with R under every single fault (thorough: pair); the text of the rejection names both types for all 156 pairs"),
 "C11": ("crash enumeration", "workloads <=4 ops (5) x 6 (13) types, every (k,b) on .shp x every (k,b) on .shx; 1000/1500/2000-point records; a 10 001-write workload in windows around 1000/1024/4096/8192/10 000 records; a 17.6 MB record; histories <= 3 under every single fault (thorough: pair), images at each successful finalize and after drop"),
 "C12": ("fault enumeration", "histories <=4 (6) x 13 types x index on/off; every op x {one-shot, persistent}; finalize retried at once, twice, or later; chunk family; for histories <= 3 (4): 3 more error kinds x bursts 1-4, zero-byte writes, seeks that move before failing, all 39 error kinds (histories <= 2), stale destinations, every pair of faults; a 131073-write history with every seek / flush failing; a .shp beyond 2 GiB on a discarding destination with faults in its tail"),
 "C13": ("fault enumeration", "13 types x 3 files x {library, RefCodec} + fillers + large; every cut of .shp / .shx; every read/seek fault; short-read family; for 1-2 record files every pair of faults with the iteration going on, and every cut of either file on disk against memory; cuts under indexes listing 3 records as [2,0,1] (every length) and 40 records reversed; one failing operation around seek(i) / read_nth_shape(i) in the middle of an iteration that goes on (failing seeks landing where they were / at their target / at offset 0)"),
 "C14": ("E2, RefCodec files", "13 types; n=1..3 (4); all n! orders x 5^(n+1) fillers x 2 bytes; short reads; far offsets; 14 adaptor programs from 3 reader states; typed iteration as another type; by-path routes incl. .SHP names; empty files behind an index; records without their M block"),
 "C15": ("E1", "depth 4 over 27 / 24 / 21 actions (13 base + 14 adaptor programs); thorough depth 5 with 5 programs + depth 4 with all; 4 (7) types x 4 layouts x 4 reader kinds (the 4th: complete Reader without index)"),
 "C16": ("E2", "rings of 1..5 (6) over 3x3; pairs <=4, triples <=3 over 2x2; deviations; thin rings of every size 4..9000 (20000) and around 2^14, 2^15 (2^16, 2^17) whose every edge term outweighs the area; offsets; every triangle over a 12x12 (16x16) grid of magnitudes from 2^-1000 to 2^600, judged by the exact area sign in big integers; patches; zigzag strips of 3..40 teeth near 2^52 and triangles over {0, 1, 2^600} x a few subnormals (area sums that halving would flush to zero)"),
 "C17": ("E3 + allocator", "the inputs of C07 (incl. pairs of lying lengths across .shp / .shx, and the complete Reader next to a .dbf declaring 0..2^32-1 rows), every call metered against 64 x input + 64 KiB; a FoxPro table with a memo companion file (.fpt / .dbt) declaring up to 2^32-1 bytes, read by path"),
 "C18": ("E2", "<=4 parts x lengths <=5 (<=6 x <=8); empty parts; 5 measure patterns; every single-part size to 4200; EVERY part count 5..3000 and to 8193; ladder to 131 073 points; shapes read from hand-assembled records (every ascending part-start array over 0..5 points); one transient fault at each of 40 operations x 3 kinds; user-defined shapes really emitting up to 3 GiB"),
 "C19": ("complete", "2^32 codes through `from` (thorough: also headers and typed records); structured set through header, record (4/20/36-byte content x 3 routes), typed-record and index-header routes; headers with other version / unused words"),
 "C20": ("E2 (vcheck-geo)", "see section 3; plus shapes read from records encoded as given (one-vertex parts, rings closed in X/Y only), holes inside an earlier outer ring, parts sharing end points; rings that revisit a vertex (two lobes, spikes)"),
}
def human(n):
    n = float(n)
    for unit, div in (("G", 1e9), ("M", 1e6), ("k", 1e3)):
        if n >= div:
            return ("%.1f %s" % (n / div, unit)).replace(".0 ", " ")
    return "%d" % n
th = {}
tp = os.path.join(here, "thorough_summary.tsv")
if os.path.exists(tp):
    for l in open(tp):
        f = l.rstrip("\n").split("\t")
        if len(f) >= 4:
            th[f[0]] = (f[1], f[2], f[3])
print("| id | engine | scope (quick; thorough in parentheses) | cases quick / thorough | wall quick / thorough |")
print("|----|--------|------------------------------------------|------------------------|----------------------|")
for i in range(1, 21):
    pid = "C%02d" % i
    ev = json.load(open(os.path.join(here, "evidence", pid + ".json")))
    q = ev["coverage"]["evaluations"]
    qw = ev.get("wall_s", 0)
    t = th.get(pid)
    print("| %s | %s | %s | %s / %s | %.0f s / %s |" % (pid, SCOPE[pid][0], SCOPE[pid][1], human(q), human(t[1]) if t else "?", max(qw, 1), (t[2] + " s") if t else "?"))
